"""End-to-end confirmation of findings F4 and F7 of property C07 through the REAL engine (EngineTestCase:
engine + executor threads over the fake transport, sqlite).  Not part of ./check (it needs the threaded test
infrastructure and sleeps); run by hand:

  cd /tmp && PYTHONPATH=<repo>:/verif/corpus/C07 PYTHONHASHSEED=0 /venv/bin/python -W ignore -m pytest -q \
      -p no:cacheprovider -s /verif/corpus/C07/engine_confirm_F4_F7.py

Observed on the unchanged tree (d5d0421 + later commits up to 7b128de6):
  test_f7_rerun_concurrency  items [0,1,2], concurrency 2, all fail, rerun(reset=True), item 1 slow:
      action calls [0,1,2, 0,1,1]; task SUCCESS; published result ['r0','r1','r1']; item 2 never re-executed
  test_f4                    items [ERROR, ok, ok], rerun(reset=False):
      action calls [0,1,2, 0,1,2]; task SUCCESS while the re-executed items 1,2 are still RUNNING
With the proposed _get_next_indexes: calls [0,1,2, 0,1,2] / result ['r0','r1','r2'] and calls [0,1,2, 0].
The tests only print (CALLS / TASK / EXECS lines); they do not assert.
"""
import mistral.tests.unit
import time
from unittest import mock
from oslo_config import cfg
from mistral.db.v2 import api as db_api
from mistral.actions import std_actions
from mistral.db.v2 import api as db_api
from mistral import exceptions as exc
from mistral.services import workbooks as wb_service
from mistral.tests.unit.engine import base
from mistral.workflow import states
cfg.CONF.set_default('auth_enable', False, group='pecan')

WB = """
---
version: '2.0'
name: wb3
workflows:
  wf1:
    type: direct
    tasks:
      t1:
        with-items: i in <% list(range(0, 3)) %>
        action: std.echo output=<% $.i %>
        @@
        publish:
          v1: <% task(t1).result %>
"""
calls = []
def run(self, context):
    n = len(calls); calls.append(self.output)
    if n < FAILS[0]: raise exc.ActionException()
    if self.output == 1 and SLOW[0]: time.sleep(3)
    return 'r%s' % self.output
FAILS=[3]; SLOW=[True]

def run_f4(self, context):
    n = len(calls); calls.append(self.output)
    if n < 3 and self.output == 0: raise exc.ActionException()
    if n >= 3 and self.output != 0: time.sleep(3)
    return 'r%s.%d' % (self.output, n)

class T(base.EngineTestCase):
    def _go(self, reset):
        wf_ex = self.engine.start_workflow('wb3.wf1')
        self.await_workflow_error(wf_ex.id)
        with db_api.transaction():
            wf_ex = db_api.get_workflow_execution(wf_ex.id)
            t = wf_ex.task_executions[0]; tid = t.id
        self.engine.rerun_workflow(tid, reset=reset)
        self.await_workflow_success(wf_ex.id)
        time.sleep(5)
        with db_api.transaction():
            t = db_api.get_task_execution(tid)
            exs = db_api.get_action_executions(task_execution_id=tid)
            print('\nCALLS', calls)
            print('TASK', t.state, t.published)
            print('EXECS', sorted((e.runtime_context['index'], e.state, e.accepted, str(e.output)) for e in exs))

    @mock.patch.object(std_actions.EchoAction, 'run', run)
    def test_f7_rerun_concurrency(self):
        del calls[:]
        wb_service.create_workbook_v2(WB.replace('@@','concurrency: 2'))
        self._go(True)

    @mock.patch.object(std_actions.EchoAction, 'run', run_f4)
    def test_f4(self):
        del calls[:]
        wb_service.create_workbook_v2(WB.replace('@@',''))
        self._go(False)
