#!/bin/bash
# Build the whole Coq development from /repo's current tree (offline).
set -e
HERE="$(cd "$(dirname "$0")" && pwd)"
cd "$HERE"
export VERIF_REPO="${VERIF_REPO:-/repo}"
export PYTHONPATH="$VERIF_REPO:$HERE" PYTHONHASHSEED=0 PYTHONDONTWRITEBYTECODE=1
mkdir -p build evidence/replays coq/Gen
/venv/bin/python -W ignore -m harness.setup
