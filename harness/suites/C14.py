"""C14 - definition validation is total; accepted definitions are stable and runnable.

Ties the Coq models to mistral/lang/** by differential runs against the REAL entry points
(parser.get_workflow_list_spec_from_yaml / get_workbook_spec_from_yaml / get_action_list_spec_from_yaml,
parser.get_workflow_definition / get_action_definition, BaseSpec.to_dict, BaseSpec._parse_cmd_and_input,
jsonschema.validate as called by BaseSpec.validate_schema):

  walk    Model/Build.v walk_wf_list / walk_wb / walk_action_list  vs  the sequence of (spec class, schema
          verdict) the real constructors hand to jsonschema.validate, and the outcome class
          accept / definition error / INTERNAL error.  Every schema verdict of the real run is thereby
          compared with Model/Schema.v `validate` on Gen/Schemas.v (dumped from the real classes).
  norm    Model/Norm.v norm_wf_list / norm_wb / norm_action_list  vs  spec.to_dict() of accepted documents
  slice   Model/Slice.v slice  vs  parser._parse_def_from_wb on rendered workbook texts
  key_of  Model/Slice.v key_of / is_content  vs  parser._key_of / _is_content line by line
  reparse  the places where the text of a string value is parsed a second time (27 sites enumerated from the source by
          translate/tr_reparse.py, fail closed): inline parameters of action / workflow / base / one-line retry / on-clause
          commands, with-items, YAQL / Jinja expressions, input text, version text, task names; at each place inner texts
          with integers of 4301 / 10000 digits, huge floats, NaN / Infinity, arrays and objects nested 50 / 1000 / 5000 deep,
          unbalanced nestings, strings of 1e5 (thorough 1e6) characters, escape-heavy strings, non-BMP / surrogate / NUL
          characters, repeated unclosed expression openers (2e4), and the same shapes at YAML level as controls; through the
          three parser factories (oracle O1-O3, walk / norm models for the small ones) and, suite reparse_rest, through
          POST .../validate, POST and PUT of /v2/workflows, /v2/workbooks, /v2/actions of the real pecan application
  speccache  Model/SpecCache.v exec_ops (configured by Gen/SpecCache.v: key component of the four call sites of
          parser.get_workflow_spec_by_definition_id, row fields written by services/workflows.py and workbooks.py)
          vs  sequences of create / update (also within one second, frozen clock) / tick / clear_caches / start /
          sub-workflow start / cron-trigger creation on the REAL services and engine (harness/engine_driver.py),
          standalone workflows and workbook workflows, one engine process

Oracle (no model involved), per document:
  O1 the entry point returns a spec, or raises a DSLParsingException-family / 4xx Mistral error; any other
     exception = internal error, time-out = hang (signal.alarm)          -> signature internal-error:<Exc>@<file>:<function>
  O2 an accepted spec re-read from its stored form (utils.to_json_str/from_json_str of to_dict(), then
     parser.get_workflow_spec as the engine does) has the same tasks / transitions / policies / inputs, and
     the same to_dict(); every task written is a task of the spec          -> stored-form:* / task-dropped
  O3 every workbook member cut out by parser.get_workflow_definition / get_action_definition and every
     member cut by services.workflows._cut_wf_definition_from_all loads to the member as written   -> slice:*
  O5 every start / sub-workflow start / trigger creation of a spec-cache sequence behaves as the definition stored
     at that moment prescribes (output, task list, wf_ex.spec, accepted input) = as after clear_caches()  -> spec-cache:*
  O4 a sample goes through the real services (create_workflows / create_workbook_v2, sqlite) and back through
     parser.get_workflow_spec_by_definition_id before and after clear_caches().

Seeded regression S2 (`except Exception` around json.loads narrowed to json.JSONDecodeError in BaseSpec._parse_cmd_and_input
and TaskSpec._get_with_items_as_dict): translator tr_reparse fails closed (obligation translate:Gen/Reparse.v: json.loads not
guarded against ValueError / RecursionError), oracle O1 of suite `reparse` reports internal-error:ValueError@...base.py:_parse_cmd_and_input
and internal-error:RecursionError / ValueError @...tasks.py:_get_with_items_as_dict with the documents as replay, suite `reparse_rest`
reports the 5xx answers of validate / create / update.  Own mutations on top: X1 YaqlEvaluator.validate catches only YaqlException
-> internal-error:ValueError@mistral/expressions/yaql_expression.py:validate (+ rest:*); X2 WITH_ITEMS_PTRN with a nested
quantifier around the variable-name group -> hang:wf at the with-items place.
Findings of the `reparse` suite on the tree before fix2 (fixed since): a YAQL expression with an integer of more than 4300 digits
-> TypeError (the exception object was used as message), the same in Jinja -> ValueError, PARAMS_PTRN quadratic on a long word.

Seeded regression S1 (spec cache keyed on `checksum` only while services/workbooks.py does not fill it): translator
tr_speccache fails closed (obligation translate:Gen/SpecCache.v), and oracle O5 reports
spec-cache:stale-after-update:workbook with the op sequence as replay.  Finding fixed by 8a6d13a7: with the key
`updated_at` only, two updates within one second were stale (spec-cache:stale-after-same-second-update; regression
sequences in SC_CORPUS, Coq: C14_cache_refuted_same_second).

Self-test (scratch worktrees of /repo, `VERIF_REPO=/tmp/wt_C14_x ./check C14`; each gives VIOLATION lines, the
current tree gives none):
  R1 revert of fix 1e28c643 (slicer)              -> slice:other-line-equals-name / member-line-not-plain / section-name-occurs-earlier /
                                                     raises:ValueError (oracle O3) + slice and key_of model disagreements
  R2 revert of fix 31aaf4b7 (validation totality) -> the internal-error:* signatures listed below, accepted-unvalidated:wb-returns-None,
                                                     stored-form:differs:nonstring-key, task-dropped:version + walk disagreements
  (measured on the tree before the fixes, same detectors:)
  M1 lang/base.py BaseSpecList.__init__: drop the `isinstance(v, dict)` guard     -> internal-error:TypeError@mistral/lang/base.py:__init__
  M2 lang/v2/workflows.py: task.setdefault('type', ...) instead of task['type'] =  -> internal-error:AttributeError@mistral/lang/v2/workflows.py:*
  M3 lang/parser.py _parse_def_from_wb: `ident <= temp` instead of `ident < temp`  -> slice:other + slice-model disagreements
  M4 lang/v2/on_clause.py TASK_WITH_EXPRESSION: remove "minProperties": 1          -> internal-error:IndexError@...on_clause.py:_as_tuple; theorem C14_guards_on_clause broken
  M5 lang/v2/retry_policy.py: "required": ["delay", "count"] -> ["count"]          -> internal-error:KeyError@...retry_policy.py:__init__; theorem C14_guards_retry broken
  M6 utils/safe_yaml.py: remove fetch_alias / fetch_anchor                          -> hang-risk:alias-amplification

Findings of the first run, all FIXED by 1e28c643 + 31aaf4b7 (their witnesses stay in CORPUS as regression cases with
the repaired expectation; the Coq side keeps them as C14_slice_regression / C14_guards_regression):
  internal-error:TypeError@mistral/lang/parser.py:_get_spec_version                  workbook text `5`, `true`, `version`
  internal-error:TypeError@mistral/lang/base.py:instantiate_spec                    `type: [direct]` (unhashable polymorphic key)
  internal-error:TypeError@mistral/lang/v2/workflows.py:__init__                    `tasks: {my-task: abc}`
  internal-error:TypeError@mistral/lang/v2/tasks.py:_process_action_and_workflow    `action: std.echo output=1` + `input: <% $.p %>`
  internal-error:TypeError@mistral/lang/base.py:validate_schema                     non-string YAML keys (`publish: {1: x}`, task `yes:`/`null:`)
  internal-error:RecursionError@mistral/lang/base.py:validate_schema                400-deep invalid value (formatting the error message)
  internal-error:RecursionError@mistral/utils/safe_yaml.py:load                     3000-deep flow sequence
  internal-error:ValueError@mistral/utils/safe_yaml.py:load                         5000-digit integer
  internal-error:RecursionError@mistral/expressions/jinja_expression.py:validate    2000 nested parentheses in a Jinja expression
  accepted-unvalidated:wb-returns-None         `version: 2.0` / `version: '2'` in a workbook: get_workbook_spec returned None
  stored-form:differs:nonstring-key            `input: {ports: {80: http}}` was stored as {"80": ...}
  task-dropped:version                         a task named `version` was silently not part of the spec
  slice:other-line-equals-name (F3)            a task named like a later workflow was returned as that workflow's definition
  slice:member-line-not-plain                  `'wf1':`, `wf1 :`, `wf1: # c`, `wf1: {..}` -> the stored definition was "\n"
  slice:section-name-occurs-earlier            `description: "my workflows: ..."` / an action called sync_workflows
  slice:raises:ValueError                      `workflows :` / `"workflows":` -> ValueError (HTTP 500) when the accepted workbook was stored
"""
import collections
import copy
import fractions
import glob
import json
import math
import os
import re
import signal
import sys
import time
import traceback
import zlib

from harness import engine_driver  # noqa: first, it selects the threading backend before anything imports oslo.service
from harness import core
from harness.core import coq_str

GEN = ['Schemas', 'SpecCache', 'Reparse']

MANIFEST = {
    'level_text': 'Coq theorems (all inputs, induction over lists/lines, no axioms): for every canonical rendering the '
                  'repaired workbook slicer returns the member as written whatever deeper lines precede it (only the shape of '
                  'a YAML mapping is assumed); the constructor normalisation is idempotent for workflow lists, action lists '
                  'and workbooks, so spec_of(to_dict(spec_of d)) = spec_of d; for the schemas GENERATED from the spec classes, '
                  'schema-valid data satisfies every unchecked key/type assumption of every constructor, and building a '
                  'workflow list / action list / workbook never ends in an internal error - for EVERY JSON-like document; '
                  'the specification cache is coherent with the stored definitions for EVERY sequence of create / update / '
                  'workbook upsert / tick / eviction / lookup under the key configuration GENERATED from the call sites '
                  '(unconditional since the fixes; the old counterexamples are regression theorems). Models are tied to the '
                  'code by differential runs of the real parser entry points (class-by-class schema verdict traces, outcome '
                  'class, to_dict(), sliced text, key regex).',
    'level_note': 'PARTIAL: "never an internal error / never hangs for arbitrary TEXT" is decided by the run '
                  '(oracle O1 over mutated and generated documents), not by a theorem: PyYAML, YAQL/Jinja parsers, '
                  'jsonschema and `re` are outside the model (regex verdicts and inline-parameter parsing are '
                  'oracle tables computed by the real code per case). Expression / semantic validation is not '
                  'modelled (it only raises definition errors). Documents with non-string keys or non-JSON '
                  'scalars are outside the model class (oracle only). jsonschema.check_schema is memoised by the harness.',
    'technique': 'Coq proof over hand models + schemas generated from the classes; differential correspondence; '
                 'structure-aware mutation oracle',
    'design_ref': '6 C14',
}

IMPORTS = ['Model.Jv', 'Model.Slice', 'Model.Norm', 'Model.Schema', 'Model.Build', 'Gen.Schemas']
CACHE_IMPORTS = ['Model.SpecCache', 'Gen.SpecCache']
DOC_LIMIT_S = 10          # per-document time limit of the oracle (documents are <= ~8 KB)
MAX_MODEL_TEXT = 4000     # documents larger than this go through the oracle only

_B = {}


class DocTimeout(BaseException):
    pass


def _alarm(*a):
    raise DocTimeout()


def boot():
    """Import the real code, memoise jsonschema.check_schema, record jsonschema.validate calls."""
    if _B:
        return _B
    from mistral.db.v2 import api as db_api  # noqa: must come first (circular import otherwise)
    import jsonschema
    from jsonschema import validators
    from mistral import exceptions as exc
    from mistral import utils as m_utils
    from mistral.lang import base as lang_base
    from mistral.lang import parser
    from mistral.utils import safe_yaml
    sys.path.insert(0, os.path.join(core.VERIF, 'translate'))
    import tr_schemas
    V = validators.validator_for({})
    orig_check = V.check_schema.__func__
    seen = {}

    def check_schema(cls, schema, *a, **kw):
        if id(schema) in seen:
            return
        orig_check(cls, schema, *a, **kw)
        seen[id(schema)] = schema
    V.check_schema = classmethod(check_schema)
    scs = tr_schemas.schemas(core.REPO)
    codes = {'WorkflowListSpec': 'L', 'ActionListSpec': 'M', 'WorkbookSpec': 'B', 'DirectWorkflowSpec': 'W',
             'ReverseWorkflowSpec': 'V', 'DirectWorkflowTaskSpec': 'T', 'ReverseWorkflowTaskSpec': 'U',
             'TaskDefaultsSpec': 'D', 'PoliciesSpec': 'P', 'RetrySpec': 'R', 'OnClauseSpec': 'O',
             'PublishSpec': 'H', 'ActionSpec': 'A'}
    by_id = {id(s): codes[n] for n, s in scs}
    trace = []
    orig_validate = jsonschema.validate

    def validate(instance, schema, *a, **kw):
        code = by_id.get(id(schema), '?')
        try:
            orig_validate(instance, schema, *a, **kw)
        except jsonschema.ValidationError:
            trace.append(code + '-')
            raise
        except DocTimeout:
            raise
        except BaseException:
            trace.append(code + '!')
            raise
        trace.append(code + '+')
    jsonschema.validate = validate
    signal.signal(signal.SIGALRM, _alarm)
    _B.update(exc=exc, parser=parser, safe_yaml=safe_yaml, lang_base=lang_base, utils=m_utils, trace=trace,
              pat_id=tr_schemas.pattern_ids(scs), db_api=db_api,
              entry={'wf': parser.get_workflow_list_spec_from_yaml, 'wb': parser.get_workbook_spec_from_yaml,
                     'act': parser.get_action_list_spec_from_yaml})
    _B['pats'] = [(i, re.compile(p)) for p, i in sorted(_B['pat_id'].items(), key=lambda x: x[1])]
    return _B


# ---------------------------------------------------------------------------
# running the real code on one document

def repo_frame(e):
    tb = traceback.extract_tb(e.__traceback__)
    root = os.path.realpath(core.REPO) + os.sep
    fr = [f for f in tb if os.path.realpath(f.filename).startswith(root)]
    if not fr:
        return '?'
    return '%s:%s' % (os.path.realpath(fr[-1].filename)[len(root):], fr[-1].name)


def run_real(kind, text, limit=DOC_LIMIT_S):
    """-> dict(verdict accept|dsl|crash|timeout, trace, spec, sig, err)"""
    B = boot()
    del B['trace'][:]
    out = {'verdict': None, 'spec': None, 'sig': None, 'err': None}
    t0 = time.time()
    signal.alarm(limit)
    try:
        out['spec'] = B['entry'][kind](text, validate=True)
        out['verdict'] = 'accept' if out['spec'] is not None else 'none'
    except DocTimeout:
        out['verdict'] = 'timeout'
        out['sig'] = 'hang:%s' % kind
    except B['exc'].DSLParsingException as e:
        out['verdict'] = 'dsl'
        out['err'] = type(e).__name__
    except (B['exc'].MistralException, B['exc'].MistralError) as e:
        if 400 <= getattr(e, 'http_code', 500) < 500:
            out['verdict'] = 'dsl'
            out['err'] = 'declared4xx:' + type(e).__name__
        else:
            out['verdict'] = 'crash'
            out['sig'] = 'internal-error:%s@%s' % (type(e).__name__, repo_frame(e))
    except Exception as e:
        out['verdict'] = 'crash'
        out['sig'] = 'internal-error:%s@%s' % (type(e).__name__, repo_frame(e))
        out['err'] = str(e)[:200]
    finally:
        signal.alarm(0)
    out['time'] = time.time() - t0
    out['trace'] = ''.join(B['trace'])
    return out


# ---------------------------------------------------------------------------
# Python value -> Coq jv literal (None = outside the model class)

class Outside(Exception):
    pass


def _ok_str(s):
    for ch in s:
        o = ord(ch)
        if o < 32 and ch not in '\n\t':
            return False
        if o == 127 or 0xD800 <= o <= 0xDFFF:
            return False
    return True


MAX_DEPTH = 40


MAX_NODES = 20000
_NODES = [0]


def jv_top(x):
    _NODES[0] = 0
    return jv(x)


def jv(x, depth=0):
    if depth > MAX_DEPTH:
        raise Outside('deep')
    _NODES[0] += 1
    if _NODES[0] > MAX_NODES:
        raise Outside('huge structure')
    if x is None:
        return 'JNull'
    if x is True or x is False:
        return '(JBool %s)' % ('true' if x else 'false')
    if isinstance(x, int):
        if abs(x) > 10 ** 40:
            raise Outside('huge int')
        return '(JNum (%d)%%Z 1%%positive)' % x
    if isinstance(x, float):
        if math.isnan(x) or math.isinf(x):
            raise Outside('nan/inf')
        f = fractions.Fraction(x)
        if f.denominator > 10 ** 40 or abs(f.numerator) > 10 ** 40:
            raise Outside('extreme float')
        return '(JNum (%d)%%Z %d%%positive)' % (f.numerator, f.denominator)
    if isinstance(x, str):
        if not _ok_str(x):
            raise Outside('control character')
        return '(JStr %s)' % coq_str(x)
    if isinstance(x, list):
        return '(JArr [%s])' % '; '.join(jv(e, depth + 1) for e in x)
    if isinstance(x, dict):
        items = []
        for k, v in x.items():
            if not isinstance(k, str):
                raise Outside('non-string key')
            if not _ok_str(k):
                raise Outside('control character')
            items.append('(%s, %s)' % (coq_str(k), jv(v, depth + 1)))
        return '(JObj [%s])' % '; '.join(items)
    raise Outside(type(x).__name__)


def obj_lit(d):
    s = jv(d)
    return s[len('(JObj '):-1]


def strings_of(x, acc):
    if isinstance(x, str):
        acc.add(x)
    elif isinstance(x, list):
        for e in x:
            strings_of(e, acc)
    elif isinstance(x, dict):
        for k, v in x.items():
            if isinstance(k, str):
                acc.add(k)
            strings_of(v, acc)


def tables(doc):
    """(re table literal, pp table literal) for all strings of the document, from the REAL re / _parse_cmd_and_input."""
    B = boot()
    strs = set()
    strings_of(doc, strs)
    pp = {}
    for s in sorted(strs):
        if '=' in s and ' ' in s:
            try:
                params = B['lang_base'].BaseSpec._parse_cmd_and_input(s)[1]
            except Exception:
                continue
            if params:
                pp[s] = params
                strings_of(params, strs)
    strs.add('version')
    strs.add('name')
    strs.add('type')
    re_rows = []
    for s in sorted(strs):
        if not _ok_str(s):
            raise Outside('control character')
        ids = [str(i) for i, rx in B['pats'] if rx.search(s)]
        if ids:
            re_rows.append('(%s, [%s])' % (coq_str(s), '; '.join(ids)))
    pp_rows = ['(%s, %s)' % (coq_str(s), obj_lit(p)) for s, p in sorted(pp.items())]
    fl_rows = []
    for s in sorted(strs):
        try:
            if str(float(s)) == '2.0':
                fl_rows.append(coq_str(s))
        except ValueError:
            pass
    return '[%s]' % '; '.join(re_rows), '[%s]' % '; '.join(pp_rows), '[%s]' % '; '.join(fl_rows)


WALK_FN = {'wf': 'walk_wf_list', 'wb': 'walk_wb', 'act': 'walk_action_list'}
NORM_FN = {'wf': 'norm_wf_list', 'wb': 'norm_wb', 'act': 'norm_action_list'}


def walk_expr(kind, doc):
    d = jv_top(doc)                     # first: fails fast on documents outside the model class
    ret, ppt, flt = tables(doc)
    if kind == 'wb':
        return 'show (walk_wb (re_of_rows %s) (pp_of_table %s) (fl_of_table %s) %s)' % (ret, ppt, flt, d)
    return 'show (%s (re_of_rows %s) (pp_of_table %s) %s)' % (WALK_FN[kind], ret, ppt, d)


def norm_expr(kind, doc, expected):
    d, e = jv_top(doc), jv_top(expected)
    _, ppt, _ = tables(doc)
    return 'jv_eqb (%s (pp_of_table %s) %s) %s' % (NORM_FN[kind], ppt, d, e)


def compare_walk(model, real):
    """model = 'ok:L+W+...' ; real = run_real result. Returns None if consistent, else a reason."""
    mv, mt = model.split(':', 1)
    rv, rt = real['verdict'], real['trace']
    if '!' in rt or '?' in rt:
        return 'real trace has an unmodelled entry'
    last_failed = rt.endswith('-')
    if rv == 'accept':
        return None if (mv == 'ok' and mt == rt) else 'real accepts'
    if rv == 'none':
        return None if (mv == 'none' and mt == rt) else 'real returns None'
    if rv == 'crash':
        if 'RecursionError' in (real.get('sig') or ''):     # resource limits are outside the model
            return None if mt.startswith(rt) else 'real trace is not a prefix of the model trace'
        return None if (mv == 'crash' and mt == rt) else 'real raises an internal error here'
    if rv == 'dsl':
        if last_failed:     # the real run stopped at a schema failure
            return None if (mv == 'dsl' and mt == rt) else 'real stops at a schema failure'
        # a definition error from a check the model may not know (expression, semantics, version ...):
        # the model, which goes on, must have seen the same validations so far
        return None if mt.startswith(rt) else 'real trace is not a prefix of the model trace'
    if rv == 'timeout':
        return None
    return 'no verdict'


# ---------------------------------------------------------------------------
# oracle helpers (real code only)

def canon(x):
    """JSON-comparable canonical form; NotDefined sentinel, nan, tuples handled."""
    if isinstance(x, dict):
        return {'%s:%s' % (type(k).__name__, k): canon(v) for k, v in x.items()}
    if isinstance(x, (list, tuple)):
        return [canon(e) for e in x]
    if isinstance(x, float):
        return 'float:%r' % x if (math.isnan(x) or math.isinf(x)) else (int(x) if x == int(x) and abs(x) < 1e15 else x)
    if x is None or isinstance(x, (str, int, bool)):
        return x
    return '<%s>' % type(x).__name__


def view_publish(p):
    if p is None:
        return None
    return {'branch': canon(p.get_branch()), 'global': canon(p.get_global()), 'atomic': canon(p.get_atomic())}


def view_clause(c):
    if c is None:
        return None
    return {'next': canon(c.get_next()), 'publish': view_publish(c.get_publish())}


def view_policies(p):
    if p is None:
        return None
    r = p.get_retry()
    return {'retry': None if r is None else {'count': canon(r.get_count()), 'delay': canon(r.get_delay()),
                                             'break_on': canon(r.get_break_on()), 'continue_on': canon(r.get_continue_on())},
            'wait_before': canon(p.get_wait_before()), 'wait_after': canon(p.get_wait_after()),
            'timeout': canon(p.get_timeout()), 'pause_before': canon(p.get_pause_before()),
            'concurrency': canon(p.get_concurrency()), 'fail_on': canon(p.get_fail_on())}


def view_task(t):
    v = {'name': t.get_name(), 'type': t.get_type(), 'action': t.get_action_name(), 'workflow': t.get_workflow_name(),
         'input': canon(t.get_input()), 'with_items': canon(t.get_with_items()), 'policies': view_policies(t.get_policies()),
         'target': canon(t.get_target()), 'keep_result': canon(t.get_keep_result()), 'safe_rerun': canon(t.get_safe_rerun()),
         'publish': canon(t._publish), 'publish_on_error': canon(t._publish_on_error),
         'description': canon(t.get_description())}
    if hasattr(t, 'get_join'):
        v.update(join=canon(t.get_join()), on_complete=view_clause(t.get_on_complete()),
                 on_success=view_clause(t.get_on_success()), on_error=view_clause(t.get_on_error()),
                 on_skip=view_clause(t.get_on_skip()))
    if hasattr(t, 'get_requires'):
        v['requires'] = canon(t.get_requires())
    return v


def view_wf(s):
    d = s.get_task_defaults()
    v = {'name': s.get_name(), 'type': s.get_type(), 'tags': canon(s.get_tags()), 'input': canon(s.get_input()),
         'output': canon(s.get_output()), 'output_on_error': canon(s.get_output_on_error()), 'vars': canon(s.get_vars()),
         'defaults': None if d is None else {
             'policies': view_policies(d.get_policies()), 'on_complete': view_clause(d.get_on_complete()),
             'on_success': view_clause(d.get_on_success()), 'on_error': view_clause(d.get_on_error()),
             'on_skip': view_clause(d.get_on_skip()), 'safe_rerun': canon(d.get_safe_rerun()),
             'requires': canon(d.get_requires())},
         'tasks': {t.get_name(): view_task(t) for t in s.get_tasks()}}
    if hasattr(s, 'find_start_tasks'):
        v['start'] = sorted(t.get_name() for t in s.find_start_tasks())
        v['out'] = {t.get_name(): sorted(map(str, s.find_outbound_task_names(t.get_name()))) for t in s.get_tasks()}
    if hasattr(s, 'get_task_requires'):
        v['req'] = {t.get_name(): sorted(map(str, s.get_task_requires(t))) for t in s.get_tasks()}
    return v


def view_action(a):
    return {'name': a.get_name(), 'base': a.get_base(), 'base_input': canon(a.get_base_input()),
            'input': canon(a.get_input()), 'output': canon(a.get_output()), 'tags': canon(a.get_tags()),
            'description': canon(a.get_description())}


def has_nonstring_key(x):
    if isinstance(x, dict):
        return any(not isinstance(k, str) or has_nonstring_key(v) for k, v in x.items())
    if isinstance(x, list):
        return any(has_nonstring_key(e) for e in x)
    return False


def wf_members(kind, spec):
    if kind == 'wf':
        return list(spec.get_workflows())
    if kind == 'wb':
        return list(spec.get_workflows() or [])
    return []


def action_members(kind, spec):
    if kind == 'act':
        return list(spec.get_actions())
    if kind == 'wb':
        return list(spec.get_actions() or [])
    return []


def oracle_stability(ctx, kind, text, raw, spec):
    """O2: stored form re-read = same definition; every task written is in the spec."""
    B = boot()
    P = B['parser']
    for wf in wf_members(kind, spec):
        d1 = wf.to_dict()
        before = canon(d1)
        try:
            stored = B['utils'].from_json_str(B['utils'].to_json_str(d1))
        except Exception as e:
            ctx.fail('stored-form:not-serialisable:%s' % type(e).__name__,
                     'accepted workflow %r cannot be stored: %s' % (wf.get_name(), e), {'kind': kind, 'text': text})
            continue
        if canon(stored) != before:
            why = 'nonstring-key' if has_nonstring_key(d1) else 'other'
            ctx.fail('stored-form:differs:%s' % why,
                     'to_dict() of accepted workflow %r is not the same after the JSON round trip of the spec column' % wf.get_name(),
                     {'kind': kind, 'text': text, 'workflow': wf.get_name()})
            continue
        try:
            wf2 = P.get_workflow_spec(copy.deepcopy(stored))
            v1 = view_wf(P.get_workflow_spec(copy.deepcopy(d1)))   # views never touch the spec under test
            v2 = view_wf(wf2)
            v0 = view_wf(wf)
        except Exception as e:
            if isinstance(e, RecursionError) and repo_frame(e) == '?':
                ctx.notes.append('stored-form comparison skipped: the harness itself cannot copy the deeply nested value of %r' % wf.get_name())
                continue
            ctx.fail('stored-form:rebuild-raises:%s@%s' % (type(e).__name__, repo_frame(e)),
                     'rebuilding accepted workflow %r from its stored form raises %s' % (wf.get_name(), type(e).__name__),
                     {'kind': kind, 'text': text, 'workflow': wf.get_name()})
            continue
        if canon(wf2.to_dict()) != canon(stored):
            ctx.fail('stored-form:to_dict-not-stable', 'spec rebuilt from the stored form of %r has a different to_dict()' % wf.get_name(),
                     {'kind': kind, 'text': text, 'workflow': wf.get_name()})
        if v2 != v0 or v1 != v0:
            diff = [k for k in v0 if v0[k] != v2.get(k)]
            ctx.fail('stored-form:spec-differs', 'spec rebuilt from the stored form of %r differs in %s' % (wf.get_name(), diff),
                     {'kind': kind, 'text': text, 'workflow': wf.get_name(), 'fields': diff})
        # every task written is a task of the spec
        raw_wf = (raw.get('workflows', {}) if kind == 'wb' else raw).get(wf.get_name())
        if isinstance(raw_wf, dict) and isinstance(raw_wf.get('tasks'), dict):
            missing = [k for k in raw_wf['tasks'] if wf.get_tasks()[k] is None]
            if missing:
                ctx.fail('task-dropped:%s' % ('version' if missing == ['version'] else 'other'),
                         'accepted workflow %r has no task spec for written task(s) %r' % (wf.get_name(), missing),
                         {'kind': kind, 'text': text, 'workflow': wf.get_name(), 'missing': missing})
    for a in action_members(kind, spec):
        d1 = a.to_dict()
        stored = B['utils'].from_json_str(B['utils'].to_json_str(d1))
        if canon(stored) != canon(d1):
            ctx.fail('stored-form:differs:%s' % ('nonstring-key' if has_nonstring_key(d1) else 'other'),
                     'to_dict() of accepted action %r changes in the JSON round trip' % a.get_name(),
                     {'kind': kind, 'text': text, 'action': a.get_name()})
            continue
        a2 = P.get_action_spec(copy.deepcopy(stored))
        if view_action(a2) != view_action(a) or canon(a2.to_dict()) != canon(stored):
            ctx.fail('stored-form:spec-differs', 'action %r rebuilt from its stored form differs' % a.get_name(),
                     {'kind': kind, 'text': text, 'action': a.get_name()})


def classify_slice(text, section, name, ok_line_exists):
    """why the cut is wrong, from the text alone (specific signatures for the known families)"""
    first = text.find(section)
    start = text.rfind('\n', 0, first) + 1
    end = text.find('\n', first)
    line = text[start:end if end >= 0 else len(text)]
    if not re.match(r'^\s*%s\s*(#.*)?$' % re.escape(section), line):
        return 'section-name-occurs-earlier'
    after = text[first:].split('\n')[1:]
    hits = [l for l in after if l.strip() == name + ':']
    if not hits:
        return 'member-line-not-plain'
    cands = [l for l in after if re.match(r'^\s*["\']?%s["\']?\s*:(\s|$)' % re.escape(name), l)]
    if len(hits) == 1 and len(cands) == 1:
        return 'other'
    return 'other-line-equals-name'


def oracle_slicing(ctx, kind, text, raw, spec):
    """O3: the text cut out for each member loads to the member as written."""
    B = boot()
    P, Y = B['parser'], B['safe_yaml']
    if kind == 'wb':
        for section, members, getter in (('workflows:', wf_members(kind, spec), P.get_workflow_definition),
                                         ('actions:', action_members(kind, spec), P.get_action_definition)):
            sec_raw = raw.get(section[:-1], {})
            for m in members:
                name = m.get_name()
                want = sec_raw.get(name)
                try:
                    cut = getter(text, name)
                    got = Y.load(cut)
                except Exception as e:
                    ctx.fail('slice:raises:%s' % type(e).__name__, 'cutting %s %r out of the workbook raises %s' % (section, name, type(e).__name__),
                             {'kind': kind, 'text': text, 'member': name, 'section': section})
                    continue
                if not (isinstance(got, dict) and list(got.keys()) == [name] and canon(got[name]) == canon(want)):
                    why = classify_slice(text, section, name, True)
                    ctx.fail('slice:%s' % why,
                             '%s member %r cut out of the accepted workbook is not the member written in it (%s)' % (section[:-1], name, why),
                             {'kind': kind, 'text': text, 'member': name, 'section': section, 'cut': cut})
    if kind == 'wf' and len(wf_members(kind, spec)) > 1:
        from mistral.services import workflows as wf_service
        wfs_yaml = Y.load(text)
        for m in wf_members(kind, spec):
            name = m.get_name()
            try:
                got = Y.load(wf_service._cut_wf_definition_from_all(wfs_yaml, name))
            except Exception as e:
                ctx.fail('slice:cut-raises:%s' % type(e).__name__, '_cut_wf_definition_from_all raises for %r' % name,
                         {'kind': kind, 'text': text, 'member': name})
                continue
            if not (isinstance(got, dict) and canon(got.get(name)) == canon(raw.get(name)) and set(got) == {'version', name}):
                ctx.fail('slice:cut-differs', 'workflow %r cut from a multi-workflow definition is not the workflow written' % name,
                         {'kind': kind, 'text': text, 'member': name})


# ---------------------------------------------------------------------------
# generators

VALID_ACTIONS = ['std.noop', 'std.echo output="hi"', 'std.echo output=<% $.x %>', 'std.fail',
                 "std.echo output='a b'", 'std.echo output={{ _.x }}', 'my_wb.act1 p1=1 p2=true p3=[1, 2]',
                 'std.http url="http://example.org" method=GET', 'std.echo output=null', 'std.async_noop']
EXPRS = ['<% $.x %>', '<% $.a + 1 %>', '{{ _.x }}', '<% task(t0).result %>', 'plain', 1, True, None, [1, 2], {'k': '<% $.v %>'}]
COND = ['<% $.x = 1 %>', '{{ _.x == 1 }}', '<% true %>']


def gen_workflow(rng, odd_names=False):
    typ = rng.choice(['direct', 'direct', 'direct', 'reverse'])
    n = rng.randint(1, 6)
    pool = ['t%d' % i for i in range(n)]
    if odd_names or rng.random() < 0.2:
        alt = ['task_1', 'T2', '9lives', 'noop_task', 'a' * 40, 'Task', 'x1', 'fail_', 'wf2', 'version_', 'é1']
        pool = [rng.choice(alt) + str(i) if rng.random() < 0.5 else p for i, p in enumerate(pool)]
    tasks = collections.OrderedDict()
    inbound = collections.Counter()
    for i, tn in enumerate(pool):
        t = {}
        k = rng.random()
        if k < 0.6:
            t['action'] = rng.choice(VALID_ACTIONS)
        elif k < 0.75:
            t['workflow'] = rng.choice(['sub_wf', 'wb.sub_wf p=<% $.x %>', 'sub_wf a=1'])
        if rng.random() < 0.3:
            t['input'] = {rng.choice(['a', 'b', 'output', 'p1']): rng.choice(EXPRS) for _ in range(rng.randint(1, 2))}
        if rng.random() < 0.2:
            t['with-items'] = rng.choice(['i in <% $.items %>', 'i in [1, 2, 3]', ['a in <% $.as %>', 'b in <% $.bs %>'], 'i in {{ _.items }}'])
            if rng.random() < 0.5:
                t['concurrency'] = rng.choice([1, 2, '<% $.c %>'])
        if rng.random() < 0.3:
            t['publish'] = {rng.choice(['r', 'x', 'y']): rng.choice(EXPRS)}
        if rng.random() < 0.1:
            t['publish-on-error'] = {'e': '<% task().result %>'}
        if rng.random() < 0.2:
            t['retry'] = rng.choice([{'count': 3, 'delay': 1}, 'count=3 delay=1', {'count': '<% $.c %>', 'delay': 0, 'break-on': '<% $.stop %>'},
                                     {'count': 2, 'delay': 1, 'continue-on': '{{ _.go }}'}, 'count=<% $.c %> delay=2 break-on=<% $.b %>'])
        for pol, vals in (('wait-before', [1, 0, '<% $.w %>']), ('wait-after', [2, '{{ _.w }}']), ('timeout', [30, '<% $.t %>']),
                          ('pause-before', [True, False, '<% $.p %>']), ('fail-on', ['<% $.f %>', False]),
                          ('keep-result', [False, True, '<% $.k %>']), ('safe-rerun', [True, '<% $.s %>']), ('target', ['node1'])):
            if rng.random() < 0.08:
                t[pol] = rng.choice(vals)
        if rng.random() < 0.1:
            t['description'] = 'task %d' % i
        if typ == 'direct':
            later = pool[i + 1:]
            for clause in ('on-success', 'on-error', 'on-complete', 'on-skip'):
                if rng.random() < (0.45 if clause == 'on-success' else 0.12):
                    cands = later + ['fail', 'succeed', 'pause', 'noop'] if later else ['fail', 'succeed', 'noop']
                    k2 = rng.random()
                    tgt = [rng.choice(cands) for _ in range(rng.randint(1, 2))]
                    tgt = list(dict.fromkeys(tgt))
                    if k2 < 0.3:
                        val = tgt[0]
                    elif k2 < 0.6:
                        val = [x if rng.random() < 0.6 else {x: rng.choice(COND)} for x in tgt]
                    elif k2 < 0.7:
                        val = rng.choice(['fail msg="boom"', 'fail(msg=<% $.m %>)']) if rng.random() < 0.5 else tgt[0]
                    else:
                        val = {'next': tgt if rng.random() < 0.5 else tgt[0]}
                        if rng.random() < 0.7:
                            val['publish'] = {rng.choice(['branch', 'global', 'atomic']): {'v': rng.choice(EXPRS)}}
                    t[clause] = val
                    for x in tgt:
                        if x in pool:
                            inbound[x] += 1
            if inbound[tn] and rng.random() < 0.3:
                t['join'] = rng.choice(['all', 'one', 1, inbound[tn]])
        else:
            if i and rng.random() < 0.6:
                req = list(dict.fromkeys(rng.choice(pool[:i]) for _ in range(rng.randint(1, 2))))
                t['requires'] = req[0] if len(req) == 1 and rng.random() < 0.5 else req
        tasks[tn] = t
    wf = {}
    if typ != 'direct' or rng.random() < 0.3:
        wf['type'] = typ
    if rng.random() < 0.2:
        wf['description'] = rng.choice(['a workflow', 'has workflows: inside', 'x: y'])
    if rng.random() < 0.2:
        wf['tags'] = ['t1', 't2'][:rng.randint(1, 2)]
    if rng.random() < 0.4:
        wf['input'] = rng.choice([['x'], ['x', {'y': 1}], [{'items': [1, 2]}, 'c'], ['a', {'b': None}, {'m': {'k': 'v'}}]])
    if rng.random() < 0.3:
        wf['output'] = {'res': rng.choice(EXPRS)}
    if rng.random() < 0.1:
        wf['output-on-error'] = {'err': '<% $.e %>'}
    if rng.random() < 0.2:
        wf['vars'] = {'v1': rng.choice(EXPRS)}
    if rng.random() < 0.25:
        td = {}
        if rng.random() < 0.5:
            td['retry'] = rng.choice([{'count': 2, 'delay': 1}, 'count=2 delay=1'])
        if rng.random() < 0.3:
            td['timeout'] = 60
        if typ == 'direct' and rng.random() < 0.5:
            td[rng.choice(['on-error', 'on-complete', 'on-success'])] = rng.choice(['fail', [pool[-1]], {'next': 'noop', 'publish': {'branch': {'d': 1}}}])
        if typ == 'reverse' and rng.random() < 0.3:
            td['requires'] = [pool[0]]
        if rng.random() < 0.2:
            td['safe-rerun'] = True
        if td:
            wf['task-defaults'] = td
    wf['tasks'] = dict(tasks)
    return wf


def gen_action(rng):
    a = {'base': rng.choice(['std.echo', 'std.echo output="x"', 'std.http url=<% $.u %>', 'std.noop', 'std.echo output=1 x=[1, 2]'])}
    if rng.random() < 0.5:
        a['base-input'] = {rng.choice(['output', 'url', 'k']): rng.choice(EXPRS)}
    if rng.random() < 0.5:
        a['input'] = rng.choice([['x'], ['x', {'y': 2}], [{'z': None}]])
    if rng.random() < 0.4:
        a['output'] = rng.choice(['<% $ %>', {'o': '<% $.x %>'}, None, 5, ['a']])
    if rng.random() < 0.2:
        a['description'] = 'an action'
    if rng.random() < 0.1:
        a['tags'] = ['x']
    return a


WF_NAMES = ['wf1', 'wf2', 'main', 'sub_wf', 'deploy-vm', 'wf_3', 'Flow', 'my.wf', 'workflows_sync', '123', 'a-b', 'null', 'on']


def gen_definition(rng):
    """-> (kind, dict)"""
    k = rng.random()
    if k < 0.5:
        names = rng.sample(WF_NAMES[:9], rng.choice([1, 1, 1, 2, 3]))
        d = {'version': rng.choice(['2.0', '2.0', 2.0, 2])}
        for n in names:
            d[n] = gen_workflow(rng)
        return 'wf', d
    if k < 0.85:
        d = {'version': '2.0' if rng.random() < 0.93 else rng.choice([2.0, 2, '2']), 'name': rng.choice(['wb', 'my_wb', 'book1'])}
        if rng.random() < 0.3:
            d['description'] = rng.choice(['a workbook', 'these workflows: are mine', 'actions: and more'])
        if rng.random() < 0.2:
            d['tags'] = ['a', 'b']
        if rng.random() < 0.5:
            d['actions'] = {n: gen_action(rng) for n in rng.sample(['act1', 'a2', 'sync_workflows', 'wf1', 'my-act'], rng.randint(1, 2))}
        if rng.random() < 0.9 or 'actions' not in d:
            names = rng.sample(WF_NAMES, rng.choice([1, 2, 2, 3]))
            wfs = {}
            for i, n in enumerate(names):
                wfs[n] = gen_workflow(rng)
                if i + 1 < len(names) and rng.random() < 0.15:
                    # a task named like a later member (legal: task names and workflow names are separate name spaces)
                    first = next(iter(wfs[n]['tasks']))
                    later = names[i + 1]
                    if re.match(r'^\w+$', later):
                        wfs[n]['tasks'] = {(later if k2 == first else k2): v for k2, v in wfs[n]['tasks'].items()}
            d['workflows'] = wfs
        return 'wb', d
    d = {'version': '2.0'}
    for n in rng.sample(['act1', 'a2', 'my-act', 'act_3'], rng.randint(1, 3)):
        d[n] = gen_action(rng)
    return 'act', d


JUNK = [None, True, False, 0, 1, -1, 3.5, '', 'x', 'a b', '<% $.x %>', '<% 1 + %>', '{{ _.x }}', '{{ 1 + }}',
        '<% $.a %> {{ _.b }}', [], [1], ['a', 'a'], ['a', {'b': 1}], [['a']], {}, {'a': 1}, {'a': {'b': 2}}, {1: 2},
        'version', 'fail', 'noop', '2.0', 2.0, 2, 'all', 'one', 'direct', 'reverse', 'std.echo output="x"',
        'std.echo output=<% 1 + %>', 'x in [1,2', 'x in <% $.y %>', 'x in [1,2,3]', 'a-b', 'a.b', 'a b=1', 'a(b=1)',
        'count=3 delay=1', 'delay=1', 'count=3', 'x' * 300, '550e8400-e29b-41d4-a716-446655440000', 'é', 't0', 'wf1',
        {'next': 't1'}, {'next': ['t1', {'t2': '<% $.x %>'}], 'publish': {'branch': {'a': 1}}}, {'publish': {}},
        {'t1': '<% $.x %>'}, {'count': 1}, {'count': 1, 'delay': '<% 1 %>'}, [' '], {' ': 1}, [None], [{}],
        'std.echo output="<% $.x %>" a=1', 1e308, -0.0, 10 ** 30]
KEYS = ['name', 'version', 'type', 'tasks', 'input', 'output', 'output-on-error', 'vars', 'tags', 'description',
        'task-defaults', 'action', 'workflow', 'with-items', 'publish', 'publish-on-error', 'publish-on-skip', 'retry',
        'wait-before', 'wait-after', 'timeout', 'pause-before', 'concurrency', 'fail-on', 'target', 'keep-result',
        'safe-rerun', 'join', 'on-complete', 'on-success', 'on-error', 'on-skip', 'requires', 'next', 'branch', 'global',
        'atomic', 'count', 'delay', 'break-on', 'continue-on', 'base', 'base-input', 'actions', 'workflows',
        'my-key', 'a b', '', 1, None, True, 'x' * 260]
ODD_NAMES = ['a-b', 'a b', '1', 'x' * 260, 'fail', 'noop', 'version', 1, True, None, 'wf.x',
             '550e8400-e29b-41d4-a716-446655440000', 't0 ', '"q"', 'é', 'on', 'null', '#c', 'a:b']


def junk(rng):
    return copy.deepcopy(rng.choice(JUNK))


def paths(d, pre=()):
    out = [pre]
    if isinstance(d, dict):
        for k, v in d.items():
            out += paths(v, pre + (k,))
    elif isinstance(d, list):
        for i, v in enumerate(d):
            out += paths(v, pre + (i,))
    return out


def get_path(d, path):
    for k in path:
        d = d[k]
    return d


def mutate(rng, d):
    """structure-aware mutation: wrong types, missing / extra keys, malformed expressions, odd names"""
    d = copy.deepcopy(d)
    ops = []
    for _ in range(rng.choice([1, 1, 1, 2, 3])):
        ps = paths(d)
        path = rng.choice(ps)
        op = rng.choice(['replace', 'replace', 'delete', 'addkey', 'addkey', 'rename', 'dupval', 'wraplist', 'str', 'breakexpr'])
        if not path:
            if op == 'replace' and rng.random() < 0.3:
                return junk(rng), ['root']
            op = 'addkey'
        tgt = get_path(d, path)
        ops.append(op)
        if op == 'addkey':
            if isinstance(tgt, dict):
                k = rng.choice(KEYS)
                try:
                    tgt[k] = junk(rng) if rng.random() < 0.6 else copy.deepcopy(get_path(d, rng.choice(ps)))
                except TypeError:
                    pass
            elif isinstance(tgt, list):
                tgt.insert(rng.randrange(len(tgt) + 1), junk(rng))
            elif path:
                get_path(d, path[:-1])[path[-1]] = junk(rng)
            continue
        parent = get_path(d, path[:-1])
        k = path[-1]
        if op == 'replace':
            parent[k] = junk(rng)
        elif op == 'delete':
            del parent[k]
        elif op == 'rename' and isinstance(parent, dict):
            v = parent.pop(k)
            parent[rng.choice(KEYS) if rng.random() < 0.4 else rng.choice(ODD_NAMES)] = v
        elif op == 'dupval':
            parent[k] = copy.deepcopy(get_path(d, rng.choice(ps)))
        elif op == 'wraplist':
            parent[k] = [parent[k]]
        elif op == 'str':
            parent[k] = str(parent[k])
        elif op == 'breakexpr' and isinstance(parent[k], str):
            s = parent[k]
            parent[k] = rng.choice([s + ' %>', '<% ' + s, s.replace('%>', ''), s.replace('}}', '}'), s + '{{', s[:len(s) // 2],
                                    s + ' <% 1 + %>', s.replace('"', '', 1), s + ' =', '<% ' + '(' * 30 + ' %>'])
    return d, ops


def dump_yaml(rng, d):
    import yaml
    return yaml.safe_dump(d, sort_keys=False, default_flow_style=rng.choice([False, False, False, None]),
                          indent=rng.choice([2, 2, 4, 3]), width=rng.choice([80, 1000]), allow_unicode=rng.choice([True, False]))


def text_mutations(rng, text):
    """malformed stream at the text level"""
    k = rng.randrange(14)
    lines = text.split('\n')
    if k == 0:
        return text[:rng.randrange(len(text) + 1)]
    if k == 1:
        i = rng.randrange(len(lines))
        lines[i] = '\t' + lines[i]
    elif k == 2:
        i = rng.randrange(len(lines))
        lines[i] = lines[i].replace(':', rng.choice(['', '::', ' :', ': &a', ': *a', ': !!python/object:os.system', ': !!binary aGk=', ': !!set {a, b}', ': 2001-12-14', ': .nan', ': .inf', ': ~', ': |', ': >']), 1)
    elif k == 3:
        i = rng.randrange(len(lines))
        lines[i] = lines[i][:len(lines[i]) // 2]
    elif k == 4:
        i = rng.randrange(len(lines))
        lines.insert(i, rng.choice(['---', '...', '%YAML 1.1', '- item', '? [a, b]', ': x', '<<: {a: 1}', '# comment', '  ' * rng.randint(0, 6) + 'k: v', '{', ']', '"', "'"]))
    elif k == 5:
        i = rng.randrange(len(lines))
        lines[i] = ' ' * rng.randint(1, 3) + lines[i]
    elif k == 6:
        return text.replace('\n', '\r\n')
    elif k == 7:
        depth = rng.choice([5, 50, 400])
        return text + 'deep: ' + '[' * depth + ']' * depth + '\n'
    elif k == 8:
        depth = rng.choice([5, 50, 300])
        return text + 'deep: ' + '{a: ' * depth + '1' + '}' * depth + '\n'
    elif k == 9:
        i = rng.randrange(len(lines))
        lines[i] = lines[i].replace(': ', ': ' + rng.choice(['1' * 50, '0x' + 'f' * 40, '1e400', '-.inf', '0o17', '1_000', '12:30:45', 'yes', 'on', '~', 'null', '0b101', '+.5']) + ' #', 1)
    elif k == 10:
        return rng.choice(['', '\n', 'null', '~', '5', '3.5', 'true', 'abc', 'version', '[1, 2]', '[version]', "'2.0'", '- a\n- b', 'version: 2.0', '{}', '[]', '"', 'a: b: c', '\x00', 'é', 'a: [', '0', 'false', '""'])
    elif k == 11:
        i = rng.randrange(len(lines))
        lines[i] = re.sub(r'<%.*?%>', lambda m: rng.choice(['<% %>', '<% $. %>', '<% ' + '(' * 200 + '1' + ')' * 200 + ' %>', '<% "unterminated %>', '<% 1 + + %>', '<%%>', '<% $.a[ %>', "<% '\\' %>"]), lines[i])
    elif k == 12:
        i = rng.randrange(len(lines))
        lines[i] = re.sub(r'\{\{.*?\}\}', lambda m: rng.choice(['{{ }}', '{{ _. }}', '{{ ' + '(' * 150 + '1' + ')' * 150 + ' }}', '{{ "x }}', '{{ 1 | nofilter }}', '{% for x in y %}', '{{ a b }}']), lines[i])
    else:
        i = rng.randrange(len(lines))
        lines[i] = lines[i] + rng.choice([' ', ' # c', ' !', ' ,', ' ]', ' "', ' x' * 500])
    return '\n'.join(lines)


# ---- text rendering of workbooks for the slicer ---------------------------------

def render_value(rng, v, ind, step, out):
    """block-style YAML of a dict value, own printer (styles YAML dumpers do not produce)"""
    import yaml
    for k, x in v.items():
        key = k if isinstance(k, str) and re.match(r'^[A-Za-z_][\w.-]*$', k) and k not in ('null', 'true', 'false', 'yes', 'no', 'on', 'off') \
            else yaml.safe_dump(k, default_flow_style=True).strip().replace('\n...', '')
        if isinstance(x, dict) and x and rng.random() < 0.9:
            out.append(' ' * ind + key + ':' + rng.choice(['', '', '', ' ', '  # c']))
            if rng.random() < 0.08:
                out.append('')
            if rng.random() < 0.08:
                out.append(' ' * rng.choice([0, ind, ind + step]) + '# comment')
            render_value(rng, x, ind + step, step, out)
        else:
            s = yaml.safe_dump(x, default_flow_style=True, width=10000).strip()
            if s.endswith('\n...'):
                s = s[:-4]
            out.append(' ' * ind + key + ': ' + s)


def render_workbook(rng, d):
    step = rng.choice([2, 2, 4, 3])
    base = rng.choice([0, 0, 0, 2])     # some authors indent the whole document
    out = []
    order = list(d.keys())
    if rng.random() < 0.2 and 'actions' in order and 'workflows' in order:
        order.remove('workflows')
        order.insert(order.index('actions'), 'workflows')
    if rng.random() < 0.2:
        out.append('---')
    for k in order:
        v = d[k]
        if k in ('actions', 'workflows') and isinstance(v, dict):
            if rng.random() < 0.15:
                out.append('')
            out.append(' ' * base + k + ':' + rng.choice(['', '', ' ']))
            for name, body in v.items():
                if rng.random() < 0.15:
                    out.append(rng.choice(['', ' ' * (base + step) + '# about ' + str(name)]))
                style = rng.random()
                nm = str(name)
                if style < 0.06:
                    nm = '"%s"' % nm
                elif style < 0.1:
                    nm = "'%s'" % nm
                elif style < 0.14:
                    nm = nm + ' '
                elif not re.match(r'^[A-Za-z_][\w.-]*$', nm) or nm in ('null', 'on'):
                    nm = "'%s'" % nm
                out.append(' ' * (base + step) + nm + ':' + rng.choice(['', '', '', '   ', ' # wf']))
                if isinstance(body, dict):
                    render_value(rng, body, base + 2 * step, step, out)
                if rng.random() < 0.2:
                    out.append('')
        else:
            render_value(rng, {k: v}, base, step, out)
    return '\n'.join(out) + rng.choice(['\n', '\n\n', ''])


# ---------------------------------------------------------------------------
# corpus: minimised interesting cases (run first)

_WF = "version: '2.0'\nwf:\n  tasks:\n    t1:\n      action: std.noop\n"
CORPUS = [
    # regression (fixed by 31aaf4b7, all were internal errors): version probe on scalar documents
    ('wb', '5', 'dsl'), ('wb', '3.5', 'dsl'), ('wb', 'true', 'dsl'), ('wb', 'version', 'dsl'),
    ('wb', '[version]', 'dsl'), ('wb', 'abc', 'dsl'),
    # regression: a numeric version used to make get_workbook_spec return None
    ('wb', "version: 2.0\nname: wb\nworkflows:\n  wf1:\n    tasks:\n      t:\n        action: std.noop\n", 'accept'),
    ('wb', "version: '2'\nname: wb\n", 'dsl'), ('wb', "version: 3\nname: wb\n", 'dsl'), ('wb', '[1, 2]', 'dsl'), ('wb', '', 'dsl'), ('wf', '5', 'dsl'), ('act', '5', 'dsl'),
    # D3 unhashable polymorphic key
    ('wf', "version: '2.0'\nwf:\n  type: [direct]\n  tasks:\n    t1:\n      action: std.noop\n", 'dsl'),
    ('wb', "version: '2.0'\nname: wb\nworkflows:\n  wf:\n    type: {a: 1}\n    tasks:\n      t1:\n        action: std.noop\n", 'dsl'),
    ('wf', "version: '2.0'\nwf:\n  type: 1\n  tasks:\n    t1:\n      action: std.noop\n", 'dsl'),
    # D4 a non-dict task under a name the schema pattern does not cover
    ('wf', "version: '2.0'\nwf:\n  tasks:\n    my-task: abc\n", 'dsl'),
    ('wf', "version: '2.0'\nwf:\n  tasks:\n    t1:\n      action: std.noop\n    a b: [1]\n", 'dsl'),
    ('wf', "version: '2.0'\nwf:\n  tasks:\n    my-task:\n      action: std.noop\n", 'accept'),
    ('wf', "version: '2.0'\nwf:\n  tasks:\n    t1: abc\n", 'dsl'),
    # D5 inline parameters merged into a string `input`
    ('wf', "version: '2.0'\nwf:\n  tasks:\n    t1:\n      action: std.echo output=1\n      input: <% $.params %>\n", 'dsl'),
    ('wf', "version: '2.0'\nwf:\n  tasks:\n    t1:\n      action: std.echo\n      input: <% $.params %>\n", 'accept'),
    ('wf', "version: '2.0'\nwf:\n  tasks:\n    t1:\n      action: std.echo output=1\n      input:\n        a: 2\n", 'accept'),
    # D2 non-string keys (outside the model class)
    ('wf', "version: '2.0'\nwf:\n  tasks:\n    t1:\n      action: std.noop\n      publish:\n        1: x\n", 'dsl'),
    ('wf', "version: '2.0'\nwf:\n  tasks:\n    yes:\n      action: std.noop\n", 'dsl'),
    ('wf', "version: '2.0'\nwf:\n  tasks:\n    null:\n      action: std.noop\n", 'dsl'),
    # D6-D8 text level: deep nesting, huge integer, deep Jinja expression
    ('wf', _WF + '  output:\n    a: ' + '[' * 3000 + ']' * 3000 + '\n', 'dsl'),
    ('wf', _WF + '  output:\n    a: ' + '9' * 5000 + '\n', 'dsl'),
    ('wf', _WF + '  output:\n    a: "{{ ' + '(' * 2000 + '1' + ')' * 2000 + ' }}"\n', 'dsl'),
    ('wf', _WF + '  output:\n    a: <% ' + '(' * 2000 + '1' + ')' * 2000 + ' %>\n', 'accept'),
    # D10 deep nesting that the YAML loader survives
    ('wf', _WF + 'deep: ' + '[' * 400 + ']' * 400 + '\n', 'dsl'),
    # hardened loader: anchors / aliases / tags are definition errors
    ('wf', _WF + '  output: &a\n    a: 1\n  vars: *a\n', 'dsl'),
    ('wf', _WF + '  output:\n    a: !!python/object/apply:os.system [x]\n', 'dsl'),
    ('wf', _WF + '  output:\n    ? [a, b]\n    : 1\n', 'dsl'),
    ('wf', "version: '2.0'\nwf:\n\ttasks: {}\n", 'dsl'),
    ('wf', _WF + '---\n' + _WF, 'dsl'),
    ('wf', _WF + '  output:\n    a: 2001-12-14\n', 'dsl'),
    # stored form
    ('wf', _WF + '      input:\n        ports:\n          80: http\n', 'dsl'),
    ('wf', "version: '2.0'\nwf:\n  tasks:\n    version:\n      action: std.noop\n    t2:\n      action: std.noop\n", 'dsl'),
    # retry one-line, advanced publishing, task-defaults
    ('wf', _WF + "      retry: count=3 delay=1\n      on-success:\n        next: [t2]\n        publish:\n          branch:\n            a: 1\n    t2:\n      join: all\n", 'accept'),
    ('wf', _WF + "      retry: delay=1\n", 'dsl'),
    ('wf', _WF + "      retry: [1]\n", 'dsl'),
    ('wf', "version: '2.0'\nwf:\n  task-defaults:\n    retry: count=2 delay=1\n    on-error: fail\n  tasks:\n    t1:\n      action: std.noop\n", 'accept'),
    ('wf', _WF + "      on-success:\n        t1x: <% $.x %>\n", 'accept'),
    # guards that must hold (each is what a self-test mutation breaks)
    ('wf', _WF + "      retry:\n        count: 1\n", 'dsl'),
    ('wf', _WF + "      on-success: [{}]\n", 'dsl'),
    ('wf', _WF + "      on-success:\n        - t1: <% $.x %>\n        - {}\n", 'dsl'),
    ('wf', "version: '2.0'\nwf:\n  tasks:\n    t1:\n      type: reverse\n      action: std.noop\n      on-success: t2\n    t2:\n      join: all\n", 'accept'),
    ('wf', "version: '2.0'\nwf:\n  type: reverse\n  tasks:\n    t1:\n      type: direct\n      action: std.noop\n    t2:\n      requires: [t1]\n", 'accept'),
    ('wf', "version: '2.0'\nwf:\n  tasks:\n    t1: [a]\n    t2:\n      action: std.noop\n", 'dsl'),
    ('wb', "version: '2.0'\nname: wb\nactions:\n  a1: abc\n", 'dsl'),
    ('wb', "version: '2.0'\nname: wb\nworkflows:\n  w1: abc\n", 'dsl'),
    # aliases are not expanded: '&a [x, ...]' and '*a' are plain strings, the document stays as small as its text
    ('wf', "version: '2.0'\nwf:\n  vars:\n    a: &a [x, x, x, x, x, x, x, x]\n    b: &b [*a, *a, *a, *a, *a, *a, *a, *a]\n    c: &c [*b, *b, *b, *b, *b, *b, *b, *b]\n"
           "    d: &d [*c, *c, *c, *c, *c, *c, *c, *c]\n    e: &e [*d, *d, *d, *d, *d, *d, *d, *d]\n    f: &f [*e, *e, *e, *e, *e, *e, *e, *e]\n"
           "    g: &g [*f, *f, *f, *f, *f, *f, *f, *f]\n  tasks:\n    t1:\n      action: std.noop\n", 'accept'),
    # regression (fixed by 1e28c643): slicing - a task named like a later workflow, section name in a text, quoted member,
    # `workflows :`; oracle O3 checks the cut of every member of these accepted workbooks
    ('wb', "version: '2.0'\nname: wb\nworkflows:\n  wf1:\n    tasks:\n      wf2:\n        action: std.noop\n  wf2:\n    tasks:\n      t:\n        action: std.echo output=1\n", 'accept'),
    ('wb', "version: '2.0'\nname: wb\ndescription: 'my workflows: are here'\nworkflows:\n  wf1:\n    tasks:\n      t:\n        action: std.noop\n", 'accept'),
    ('wb', "version: '2.0'\nname: wb\nworkflows:\n  'wf1':\n    tasks:\n      t:\n        action: std.noop\n", 'accept'),
    ('wb', "version: '2.0'\nname: wb\nworkflows :\n  wf1:\n    tasks:\n      t:\n        action: std.noop\n", 'accept'),
    ('wb', "version: '2.0'\nname: wb\nactions:\n  a1:\n    base: std.echo output=1\n    base-input:\n      x: 2\nworkflows:\n  wf1:\n    tasks:\n      t:\n        action: a1\n", 'accept'),
    ('act', "version: '2.0'\na1:\n  base: std.echo output=<% $.x %>\n  input:\n    - x\n    - y: 1\n  output: <% $ %>\n", 'accept'),
]


def bundled_texts():
    """definitions shipped with the repository: tests resources, rally jobs, resources, doc examples"""
    out = []
    pats = ['mistral/tests/resources/**/*.yaml', 'mistral/resources/**/*.yaml', 'rally-jobs/extra/*.yaml',
            'rally-jobs/extra/scenarios/with_items/*.yaml', 'rally-jobs/extra/scenarios/big_wf/dummy*.yaml']
    for p in pats:
        for fn in sorted(glob.glob(os.path.join(core.REPO, p), recursive=True)):
            try:
                out.append((os.path.relpath(fn, core.REPO), open(fn).read()))
            except OSError:
                pass
    for fn in sorted(glob.glob(os.path.join(core.REPO, 'doc/source/**/*.rst'), recursive=True)):
        try:
            text = open(fn).read()
        except OSError:
            continue
        lines = text.split('\n')
        i = 0
        n = 0
        while i < len(lines):
            if lines[i].strip() == '---' and lines[i].startswith(' '):
                ind = len(lines[i]) - len(lines[i].lstrip())
                j = i + 1
                block = []
                while j < len(lines) and (not lines[j].strip() or len(lines[j]) - len(lines[j].lstrip()) >= ind):
                    block.append(lines[j][ind:])
                    j += 1
                if any('version' in b for b in block[:4]):
                    out.append(('%s#%d' % (os.path.relpath(fn, core.REPO), n), '\n'.join(block).rstrip() + '\n'))
                    n += 1
                i = j
            else:
                i += 1
    return out


# ---------------------------------------------------------------------------
# the suites

class Batch:
    """collects Coq expressions, evaluates once"""

    def __init__(self, name, imports=None):
        self.name = name
        self.imports = imports or IMPORTS
        self.exprs = []
        self.meta = []

    def add(self, expr, meta):
        self.exprs.append(expr)
        self.meta.append(meta)

    def run(self):
        if not self.exprs:
            return []
        # balance the chunks: sort by size, deal round-robin into K chunks
        n = len(self.exprs)
        k = max(1, min(3 * core.NPROC, n // 8 or 1))
        order = sorted(range(n), key=lambda i: -len(self.exprs[i]))
        chunks = [order[c::k] for c in range(k)]
        size = max(len(c) for c in chunks)
        flat, metas = [], []
        for c in chunks:
            c = c + [None] * (size - len(c))
            for i in c:
                flat.append('true' if i is None else self.exprs[i])
                metas.append(None if i is None else self.meta[i])
        res = core.coq_eval(self.name, self.imports, flat, chunk=size)
        return [(m, r) for m, r in zip(metas, res) if m is not None]


def kinds_for(text):
    return ['wf', 'wb', 'act']


def process_doc(ctx, kind, text, origin, walk_batch, norm_batch, stats, expect=None, model=True, recipe=None):
    """oracle O1-O3 on the real code + queue the model evaluations"""
    B = boot()
    r = run_real(kind, text)
    stats['verdict'][r['verdict']] += 1
    stats['origin'][origin] += 1
    key = (kind, text)
    ctx.count('oracle', key, nontrivial=True)
    if r['verdict'] == 'crash':
        stats['signatures'][r['sig']] += 1
        ctx.fail(r['sig'], '%s raises %s (%s) instead of a definition error' % (
            B['entry'][kind].__name__, r['sig'].split(':', 1)[1], r['err']), {'kind': kind, 'text': text if len(text) < 300000 else text[:2000] + '...[%d chars]' % len(text), 'origin': origin, 'recipe': recipe,
                                                                              'text_sha1': core.hashlib.sha1(text.encode('utf-8', 'surrogatepass')).hexdigest(), 'text_len': len(text)})
    elif r['verdict'] == 'none':
        ctx.fail('accepted-unvalidated:%s-returns-None' % kind,
                 '%s returns None (nothing validated, callers then fail with AttributeError) for a document whose version is not the string "2.0"' % B['entry'][kind].__name__,
                 {'kind': kind, 'text': text, 'origin': origin})
    elif r['verdict'] == 'timeout':
        ctx.fail(r['sig'], 'validation of a %d byte document does not finish within %ds' % (len(text), DOC_LIMIT_S), {'kind': kind, 'text': text if len(text) < 300000 else text[:2000], 'origin': origin, 'recipe': recipe, 'text_len': len(text)})
    if expect is not None and r['verdict'] != expect:
        ctx.disagree('corpus', {'kind': kind, 'text': text[:300]}, expect, r['verdict'])
    raw = None
    try:
        raw = B['safe_yaml'].load(text)
    except BaseException:
        pass
    if raw is not None and r['verdict'] != 'crash':
        cap = 4 * len(text) + 100
        if count_nodes(raw, cap) > cap:
            ctx.fail('hang-risk:alias-amplification',
                     'the loaded document has more than %d nodes for %d characters of text (aliases are expanded): '
                     'validation and storing cost is not bounded by the size of the definition' % (cap, len(text)),
                     {'kind': kind, 'text': text, 'origin': origin})
            return r
    if r['verdict'] == 'accept' and isinstance(raw, dict):
        try:
            oracle_stability(ctx, kind, text, raw, r['spec'])
            oracle_slicing(ctx, kind, text, raw, r['spec'])
        except DocTimeout:
            raise
        except Exception as e:
            if isinstance(e, RecursionError) and repo_frame(e) == '?':
                ctx.notes.append('oracle O2/O3 skipped for a deeply nested accepted document (harness recursion limit)')
                return r
            ctx.fail('oracle-raises:%s@%s' % (type(e).__name__, repo_frame(e)), 'checking the accepted definition raises %s: %s' % (type(e).__name__, e),
                     {'kind': kind, 'text': text})
    if not model or len(text) > MAX_MODEL_TEXT:
        stats['model']['skipped-large'] += 1
        return r
    # the model side needs the document as loaded BEFORE the constructors mutate it
    try:
        raw0 = B['safe_yaml'].load(text)
    except BaseException:
        stats['model']['yaml-error'] += 1
        return r
    try:
        we = walk_expr(kind, raw0)
    except Outside as e:
        stats['model']['outside:%s' % e] += 1
        return r
    except RecursionError:
        stats['model']['outside:deep'] += 1
        return r
    stats['model']['walk'] += 1
    walk_batch.add(we, {'kind': kind, 'text': text, 'real': {'verdict': r['verdict'], 'trace': r['trace'], 'sig': r['sig']}})
    if r['verdict'] == 'accept' and (origin == 'corpus' or zlib.crc32(text.encode('utf-8', 'surrogatepass')) % 100 < 55):
        try:
            ne = norm_expr(kind, raw0, r['spec'].to_dict())
            norm_batch.add(ne, {'kind': kind, 'text': text})
            stats['model']['norm'] += 1
        except Outside:
            pass
    return r


def count_nodes(x, cap):
    """number of nodes of a loaded document, shared sub-structures counted each time, stops above cap"""
    n = 0
    stack = [x]
    while stack and n <= cap:
        cur = stack.pop()
        n += 1
        if isinstance(cur, dict):
            stack.extend(cur.values())
        elif isinstance(cur, (list, tuple, set)):
            stack.extend(cur)
    return n


def new_stats():
    return {'verdict': collections.Counter(), 'origin': collections.Counter(), 'signatures': collections.Counter(),
            'model': collections.Counter(), 'mutation_ops': collections.Counter()}


def finish_batches(ctx, walk_batch, norm_batch, stats):
    model_verdicts = collections.Counter()
    for meta, res in walk_batch.run():
        m = core.unquote(res)
        ctx.count('walk', (meta['kind'], meta['text']), nontrivial=len(m) > 8)
        ctx.cov['disagreements_checked'] += 1
        model_verdicts[m.split(':')[0]] += 1
        why = compare_walk(m, meta['real'])
        if why:
            ctx.disagree('walk', {'kind': meta['kind'], 'text': meta['text'], 'why': why}, m, meta['real'])
    for meta, res in norm_batch.run():
        ctx.count('norm', (meta['kind'], meta['text']), nontrivial=True)
        ctx.cov['disagreements_checked'] += 1
        if res != 'true':
            ctx.disagree('norm', {'kind': meta['kind'], 'text': meta['text']}, 'norm(doc) <> to_dict()', 'to_dict() of the accepted spec')
    stats['model_verdicts'] = model_verdicts


def suite_documents(ctx):
    rng = ctx.rng
    stats = new_stats()
    walk_batch, norm_batch = Batch('c14walk'), Batch('c14norm')
    # 1. corpus
    for kind, text, expect in CORPUS:
        process_doc(ctx, kind, text, 'corpus', walk_batch, norm_batch, stats, expect=expect)
    # 2. bundled definitions through every entry point
    seeds = []
    for name, text in bundled_texts():
        for kind in ('wf', 'wb', 'act'):
            if len(text) > 30000:
                continue
            r = process_doc(ctx, kind, text, 'bundled', walk_batch, norm_batch, stats)
            if r['verdict'] == 'accept' and len(text) < 3000:
                seeds.append((kind, boot()['safe_yaml'].load(text)))
    stats['bundled_accepted_seeds'] = len(seeds)
    # 3. workflow / workbook / action generator
    n_gen = ctx.n(250, 2500)
    gens = []
    for _ in range(n_gen):
        kind, d = gen_definition(rng)
        gens.append((kind, d))
        text = render_workbook(rng, d) if kind == 'wb' and rng.random() < 0.6 else dump_yaml(rng, d)
        process_doc(ctx, kind, text, 'generated', walk_batch, norm_batch, stats)
    seeds += gens[:max(60, n_gen // 4)]
    # 4. structure-aware mutation of valid definitions
    for _ in range(ctx.n(1100, 12000)):
        kind, base = rng.choice(seeds)
        d, ops = mutate(rng, base)
        for o in ops:
            stats['mutation_ops'][o] += 1
        try:
            text = dump_yaml(rng, d)
        except Exception:
            stats['model']['undumpable'] += 1
            continue
        if rng.random() < 0.1:
            kind = rng.choice(['wf', 'wb', 'act'])
        process_doc(ctx, kind, text, 'mutated', walk_batch, norm_batch, stats)
    # 5. malformed text stream
    for _ in range(ctx.n(300, 3000)):
        kind, base = rng.choice(seeds)
        text = text_mutations(rng, dump_yaml(rng, base))
        process_doc(ctx, kind, text, 'text-mutated', walk_batch, norm_batch, stats)
    t_real = time.time() - ctx.t0
    finish_batches(ctx, walk_batch, norm_batch, stats)
    ctx.cov['suites'].setdefault('timing', {}).update(real_s=round(t_real, 1), coq_s=round(time.time() - ctx.t0 - t_real, 1),
                                                      walk_cases=len(walk_batch.exprs), norm_cases=len(norm_batch.exprs),
                                                      walk_chars=sum(map(len, walk_batch.exprs)))
    ctx.cov['suites'].setdefault('oracle', {}).update(
        verdicts=dict(stats['verdict']), origins=dict(stats['origin']), internal_error_signatures=dict(stats['signatures']),
        model_class=dict(stats['model']), mutation_ops=dict(stats['mutation_ops']),
        model_verdicts=dict(stats.get('model_verdicts', {})), bundled_accepted_seeds=stats['bundled_accepted_seeds'])
    ctx.sample({'suite': 'oracle', 'kind': CORPUS[13][0], 'text': CORPUS[13][1], 'expected': CORPUS[13][2]})
    return seeds


def lines_lit(lines):
    return '[%s]' % '; '.join(coq_str(l) for l in lines)


def ascii_ok(text):
    return all(32 <= ord(c) < 127 or c in '\n\t' for c in text)


def suite_slice(ctx, seeds):
    """Model/Slice.v vs parser._parse_def_from_wb on rendered texts (valid or not: the slicer is text-only)."""
    B = boot()
    P = B['parser']
    rng = ctx.rng
    batch = Batch('c14slice')
    cases = []
    f3 = CORPUS[[c[1] for c in CORPUS].index(next(c[1] for c in CORPUS if 'wf2:\n        action' in c[1]))][1]
    cases.append((f3, 'workflows:', 'wf2'))
    cases.append((f3, 'workflows:', 'wf1'))
    cases.append((f3, 'actions:', 'a'))
    cases.append(("workflows:\n  a:\n\n    # c\n  # d\n     x: 1\n # e\n   y: 2\n  b:\n", 'workflows:', 'a'))
    cases.append(("x workflows: y\n   a:  \n     b: 1\n\n\n", 'workflows:', 'a'))
    cases.append(("workflows:\n\ta:\n\t\tb: 1\n\tc:\n", 'workflows:', 'a'))
    wbs = [d for k, d in seeds if k == 'wb']
    n = ctx.n(500, 5000)
    while len(cases) < n:
        if wbs and rng.random() < 0.5:
            d = rng.choice(wbs)
        else:
            k, d = gen_definition(rng)
            if k != 'wb':
                continue
        text = render_workbook(rng, d)
        if rng.random() < 0.2:
            text = text_mutations(rng, text)
        if not ascii_ok(text):
            continue
        for sec in ('workflows', 'actions'):
            names = [str(x) for x in (d.get(sec) or {})] if isinstance(d.get(sec), dict) else []
            names.append(rng.choice(['nope', 't0', 'tasks', 'version', '']))
            for nm in names:
                if ascii_ok(nm) and '\n' not in nm:
                    cases.append((text, sec + ':', nm))
    kinds = collections.Counter()
    for text, sec, name in cases:
        getter = P.get_workflow_definition if sec == 'workflows:' else P.get_action_definition
        try:
            real = getter(text, name)
        except ValueError:
            real = None
        lines = text.split('\n')
        if real is None:
            expr = 'slice_raises %s %s %s' % (coq_str(sec), coq_str(name + ':'), lines_lit(lines))
            kinds['raises'] += 1
        else:
            expr = 'slice_is %s %s %s %s' % (coq_str(sec), coq_str(name + ':'), lines_lit(lines), lines_lit(real.split('\n')))
            kinds['empty' if real == '\n' else 'text'] += 1
        batch.add(expr, {'text': text, 'section': sec, 'name': name, 'real': real})
    for meta, res in batch.run():
        ctx.count('slice', (meta['text'], meta['section'], meta['name']), nontrivial=meta['real'] not in (None, '\n'))
        ctx.cov['disagreements_checked'] += 1
        if res != 'true':
            ctx.disagree('slice', {'text': meta['text'], 'section': meta['section'], 'name': meta['name']}, 'model differs', meta['real'])
    ctx.cov['suites']['slice']['kinds'] = dict(kinds)
    suite_key_of(ctx, [c[0] for c in cases[:400]])
    ctx.sample({'suite': 'slice', 'text': cases[0][0], 'section': cases[0][1], 'name': cases[0][2]})


KEY_LINES = ['wf1:', '  wf1:', "  'wf1':", '  "wf1" :  # c', 'wf1 :', 'wf1: {a: 1}', 'wf1:x', 'a b: c', '   : x', ': x', ' :', '"":',
             '\'a"b\':', '# c:', 'a # b:', 'a #b:', "it's: x", '"a: b": c', 'a::', 'a: :', '---', ' --- ', 'key:\tv', '\tkey:',
             "'k'x:", '"k"  :z', 'k :', '  k  :  ', "''':", 'a"b":', '- a:', '? a:', 'a:', ':', '', ' ', "'a' 'b':",
             'workflows:', 'x workflows: y']


def suite_key_of(ctx, texts):
    """Model/Slice.v key_of / is_content vs parser._key_of / _is_content (the regular expression of the repaired slicer)."""
    P = boot()['parser']
    if not hasattr(P, '_key_of') or not hasattr(P, '_is_content'):
        ctx.obligation('correspondence:key_of', False, 'parser._key_of / _is_content not found: the slicer is not the one Model/Slice.v mirrors')
        return
    rng = ctx.rng
    lines = list(KEY_LINES)
    pool = [l for t in texts for l in t.split('\n')]
    alphabet = 'ab:# \'"-\t{}x1_.'
    n = ctx.n(600, 6000)
    while len(lines) < n:
        if pool and rng.random() < 0.5:
            l = rng.choice(pool)
            if rng.random() < 0.4 and l:
                i = rng.randrange(len(l))
                l = l[:i] + rng.choice(alphabet) + l[i + rng.randrange(2):]
        else:
            l = ''.join(rng.choice(alphabet) for _ in range(rng.randint(0, 9)))
        if ascii_ok(l) and '\n' not in l:
            lines.append(l)
    batch = Batch('c14key')
    kinds = collections.Counter()
    for l in lines:
        real = P._key_of(l + '\n')
        if real != P._key_of(l):
            ctx.disagree('key_of', {'line': l}, 'newline-insensitive', 'differs with/without the newline')
        content = P._is_content(l + '\n')
        kinds['key' if real is not None else 'no-key'] += 1
        if real is None:
            e = 'match key_of %s with None => true | Some _ => false end' % coq_str(l)
        else:
            e = 'match key_of %s with Some k => String.eqb k %s | None => false end' % (coq_str(l), coq_str(real))
        batch.add('andb (%s) (Bool.eqb (is_content %s) %s)' % (e, coq_str(l), 'true' if content else 'false'),
                  {'line': l, 'real': real, 'content': content})
    for meta, res in batch.run():
        ctx.count('key_of', meta['line'], nontrivial=meta['real'] is not None)
        ctx.cov['disagreements_checked'] += 1
        if res != 'true':
            ctx.disagree('key_of', {'line': meta['line']}, 'model differs', {'key': meta['real'], 'content': meta['content']})
    ctx.cov['suites']['key_of']['kinds'] = dict(kinds)


def suite_db_roundtrip(ctx, seeds):
    """O4: real services + sqlite + parser caches."""
    B = boot()
    from oslo_config import cfg
    from mistral import context as auth_context
    from mistral.services import workbooks as wb_service
    from mistral.services import workflows as wf_service
    from mistral.services import security
    db_api = B['db_api']
    P = B['parser']
    cfg.CONF.set_default('connection', 'sqlite://', group='database')
    cfg.CONF.set_default('max_overflow', -1, group='database')
    cfg.CONF.set_default('max_pool_size', 1000, group='database')
    db_api.setup_db()
    auth_context.set_ctx(auth_context.MistralContext.from_dict({
        'user_name': 'test-user', 'user': '1-2-3-4', 'tenant': security.DEFAULT_PROJECT_ID,
        'project_id': security.DEFAULT_PROJECT_ID, 'project_name': 'test-project', 'is_admin': False}))
    rng = ctx.rng
    n = ctx.n(40, 400)
    done = 0
    tries = 0
    import yaml
    while done < n and tries < n * 6:
        tries += 1
        kind, d = rng.choice(seeds)
        if kind == 'act':
            continue
        text = yaml.safe_dump(d, sort_keys=False)
        r = run_real(kind, text)
        if r['verdict'] != 'accept':
            continue
        want = {}
        for wf in wf_members(kind, r['spec']):
            nm = wf.get_name() if kind == 'wf' else '%s.%s' % (r['spec'].get_name(), wf.get_name())
            want[nm] = view_wf(P.get_workflow_spec(copy.deepcopy(wf.to_dict())))
        try:
            with db_api.transaction():
                db_api.delete_workflow_definitions()
                db_api.delete_workbooks()
            P.clear_caches()
            if kind == 'wf':
                wf_service.create_workflows(text)
            else:
                wb_service.create_workbook_v2(text)
            for phase in ('cold', 'cached', 'after-eviction'):
                if phase == 'after-eviction':
                    P.clear_caches()
                with db_api.transaction():
                    for nm, v0 in want.items():
                        wf_def = db_api.get_workflow_definition(nm)
                        spec = P.get_workflow_spec_by_definition_id(wf_def.id, wf_def.updated_at)
                        v = view_wf(P.get_workflow_spec(copy.deepcopy(spec.to_dict())))
                        v['name'] = v0['name'] if kind == 'wb' else v['name']
                        if v != v0:
                            diff = [k for k in v0 if v0[k] != v.get(k)]
                            ctx.fail('stored-form:db-spec-differs', 'workflow %r read back from the database (%s) differs in %s' % (nm, phase, diff),
                                     {'kind': kind, 'text': text, 'workflow': nm, 'phase': phase})
        except Exception as e:
            if isinstance(e, (B['exc'].MistralException, B['exc'].MistralError)) and 400 <= getattr(e, 'http_code', 500) < 500:
                continue
            ctx.fail('store-raises:%s@%s' % (type(e).__name__, repo_frame(e)), 'storing an accepted definition raises %s: %s' % (type(e).__name__, str(e)[:200]),
                     {'kind': kind, 'text': text})
            continue
        done += 1
        ctx.count('db_roundtrip', (kind, text), nontrivial=True)
        ctx.cov['traces_validated_against_impl'] += 1
    ctx.cov['suites'].setdefault('db_roundtrip', {})['stored_and_reread'] = done


# ---------------------------------------------------------------------------
# specification cache vs stored definitions (real services + real engine, one process)

SC_NAMES = ['s0', 's1', 'wb0.m0', 'wb0.m1']          # model index = position; callers are 10 + index


def sc_wf_body(v, ind):
    """workflow version v: distinguishable by output, task structure and accepted input"""
    n = 1 + v % 3
    pad = ' ' * ind
    lines = ['input:', '  - x: 0', '  - p%d: 0' % v, 'output:', '  ver: %d' % v, 'tasks:']
    for i in range(n):
        lines += ['  t%d:' % i, '    action: std.noop']
        if i + 1 < n:
            lines.append('    on-success: t%d' % (i + 1))
    return ''.join(pad + l + '\n' for l in lines)


def sc_wf_text(name, v):
    return "version: '2.0'\n%s:\n%s" % (name, sc_wf_body(v, 2))


def sc_wb_text(members):
    return "version: '2.0'\nname: wb0\nworkflows:\n" + ''.join('  %s:\n%s' % (m, sc_wf_body(v, 4)) for m, v in members)


def sc_caller_text(idx):
    return ("version: '2.0'\ncall%d:\n  output:\n    ver: <%% $.r %%>\n  tasks:\n    c:\n      workflow: %s\n"
            "      publish:\n        r: <%% task().result.ver %%>\n" % (idx, SC_NAMES[idx]))


def sc_gen_sequence(rng, n_ops):
    """ops over two standalone workflows and one workbook with two members"""
    ops = []
    ver = [0]
    content = {}

    def fresh(name):
        hist = content.setdefault(name, [])
        if len(hist) >= 2 and rng.random() < 0.15:
            v = hist[-2]                       # back to an earlier text (A -> B -> A)
        else:
            ver[0] += 1
            v = ver[0]
        hist.append(v)
        return v
    ops.append(['create_wf', 's0', fresh('s0')])
    ops.append(['workbook', [['m0', fresh('wb0.m0')], ['m1', fresh('wb0.m1')]]])
    if rng.random() < 0.5:
        ops.append(['create_wf', 's1', fresh('s1')])
    for _ in range(n_ops):
        k = rng.random()
        known = [n for n in SC_NAMES if n in content]
        if k < 0.34:
            ops.append(['start', rng.choice(known)])
        elif k < 0.44:
            ops.append(['substart', rng.choice(known)])
        elif k < 0.52:
            ops.append(['cron', rng.choice(known)])
        elif k < 0.64:
            n = rng.choice([n for n in known if not n.startswith('wb0.')])
            ops.append(['update_wf', n, fresh(n)])
        elif k < 0.80:
            ms = [['m0', fresh('wb0.m0') if rng.random() < 0.8 else content['wb0.m0'][-1]],
                  ['m1', fresh('wb0.m1') if rng.random() < 0.5 else content['wb0.m1'][-1]]]
            ops.append(['workbook', ms])
        elif k < 0.90:
            ops.append(['tick', rng.choice([1, 1, 2, 5])])
        else:
            ops.append(['evict'])
    for n in [n for n in SC_NAMES if n in content]:      # every definition: run, evict, run
        ops += [['start', n], ['evict'], ['start', n]]
    return ops


SC_CORPUS = [
    # a workbook workflow is run, the workbook is updated (seconds later), the workflow is run again
    [['workbook', [['m0', 1], ['m1', 2]]], ['start', 'wb0.m0'], ['tick', 5], ['workbook', [['m0', 3], ['m1', 2]]],
     ['start', 'wb0.m0'], ['evict'], ['start', 'wb0.m0']],
    # two updates within one second with a start in between (standalone and workbook)
    [['create_wf', 's0', 1], ['tick', 3], ['update_wf', 's0', 2], ['start', 's0'], ['update_wf', 's0', 3], ['start', 's0'],
     ['evict'], ['start', 's0']],
    [['workbook', [['m0', 1], ['m1', 2]]], ['tick', 2], ['workbook', [['m0', 3], ['m1', 2]]], ['substart', 'wb0.m0'],
     ['workbook', [['m0', 4], ['m1', 2]]], ['substart', 'wb0.m0'], ['cron', 'wb0.m0'], ['start', 'wb0.m0']],
    # back to an earlier text
    [['create_wf', 's0', 1], ['start', 's0'], ['tick', 1], ['update_wf', 's0', 2], ['start', 's0'], ['tick', 1],
     ['update_wf', 's0', 1], ['start', 's0'], ['cron', 's0']],
]


class SpecCacheRunner:
    """executes an op sequence on the real services / engine (harness.engine_driver) and
    records for every lookup (observed version, version stored at that moment)"""

    def __init__(self, seed):
        import random as _random
        from harness import engine_driver
        self.ed = engine_driver
        self.drv = engine_driver.Driver('legacy', seed)
        self.rng = _random.Random('speccache/%s' % seed)

    def stored(self, name):
        db_api = boot()['db_api']
        with db_api.transaction():
            d = db_api.get_workflow_definition(name)
            spec = boot()['parser'].get_workflow_spec(copy.deepcopy(d.spec))      # uncached parse of the stored row
            return {'ver': d.spec.get('output', {}).get('ver'), 'tasks': sorted(t.get_name() for t in spec.get_tasks()),
                    'updated_at': str(d.updated_at), 'checksum': d.checksum}

    def run_wf(self, name):
        db_api = boot()['db_api']
        out, wf_id = self.drv.start_workflow(name)
        if out != self.ed.Outcome.OK:
            return {'error': '%s: %s' % (out, str(wf_id)[:200])}
        self.drv.run_schedule(self.rng)
        with db_api.transaction():
            wf_ex = db_api.get_workflow_execution(wf_id)
            res = {'state': wf_ex.state, 'ver': (wf_ex.output or {}).get('ver'),
                   'tasks': sorted(t.name for t in wf_ex.task_executions), 'spec_tasks': sorted(wf_ex.spec['tasks'])}
            subs = [a for t in wf_ex.task_executions for a in t.executions if getattr(a, 'spec', None) and hasattr(a, 'task_executions')]
            if subs:
                res['sub_tasks'] = sorted(t.name for t in subs[0].task_executions)
            return res

    def execute(self, ops):
        """-> (model ops as Coq text, observations [(op index, kind, name, observed, stored)], log)"""
        from mistral.services import triggers
        from mistral.services import workbooks as wb_service
        from mistral.services import workflows as wf_service
        B = boot()
        db_api, P = B['db_api'], B['parser']
        self.drv.reset(self.drv.seed)
        exists, callers, wb_exists = set(), set(), False
        mops, obs = [], []
        for oi, op in enumerate(ops):
            clock0 = self.drv.clock
            kind = op[0]
            try:
                if kind == 'create_wf':
                    self.drv.create_workflows(sc_wf_text(op[1], op[2]))
                    exists.add(op[1])
                    mops.append('OCreateWf %d %d' % (SC_NAMES.index(op[1]), op[2]))
                elif kind == 'update_wf':
                    wf_service.update_workflows(sc_wf_text(op[1], op[2]))
                    mops.append('OUpdateWf %d %d' % (SC_NAMES.index(op[1]), op[2]))
                elif kind == 'workbook':
                    text = sc_wb_text(op[1])
                    if wb_exists:
                        wb_service.update_workbook_v2(text)
                    else:
                        self.drv.create_workbook(text)
                        wb_exists = True
                    for m, _v in op[1]:
                        exists.add('wb0.' + m)
                    mops.append('OWorkbook [%s]' % '; '.join('(%d, %d)' % (SC_NAMES.index('wb0.' + m), v) for m, v in op[1]))
                elif kind == 'tick':
                    self.drv.clock += op[1]
                elif kind == 'evict':
                    P.clear_caches()
                    mops.append('OEvictAll')
                elif kind in ('start', 'substart', 'cron'):
                    name = op[1]
                    idx = SC_NAMES.index(name)
                    want = self.stored(name)
                    if kind == 'start':
                        got = self.run_wf(name)
                        mops.append('OStart %d' % idx)
                        ok = (got.get('state') == 'SUCCESS' and got.get('ver') == want['ver'] and got.get('tasks') == want['tasks']
                              and got.get('spec_tasks') == want['tasks'])
                    elif kind == 'substart':
                        if idx not in callers:
                            self.drv.create_workflows(sc_caller_text(idx))
                            callers.add(idx)
                            mops.append('OCreateWf %d %d' % (10 + idx, 1000 + idx))
                        got = self.run_wf('call%d' % idx)
                        mops += ['OStart %d' % (10 + idx), 'OStart %d' % idx]
                        obs.append((oi, 'caller', 'call%d' % idx, 1000 + idx, 1000 + idx))
                        ok = got.get('state') == 'SUCCESS' and got.get('ver') == want['ver'] and got.get('sub_tasks', want['tasks']) == want['tasks']
                    else:
                        try:
                            triggers.create_cron_trigger('trig%d' % oi, name, {'p%d' % want['ver']: 1}, {}, pattern='* * * * *')
                            got = {'ver': want['ver'], 'accepted': True}
                            db_api.delete_cron_trigger('trig%d' % oi)
                        except B['exc'].InputException as e:
                            got = {'accepted': False, 'error': str(e)[:160]}
                        mops.append('OStart %d' % idx)
                        ok = got.get('accepted') is True
                    obs.append((oi, kind, name, want['ver'] if ok else got.get('ver', -1) if got.get('ver') != want['ver'] else -1,
                                want['ver'], got, want))
            except (B['exc'].MistralException, B['exc'].MistralError) as e:
                obs.append((oi, 'declared-error', str(op), type(e).__name__, None))
            if self.drv.clock > clock0:
                mops.append('OTick %d' % (self.drv.clock - clock0))
        return mops, obs


def sc_classify(ops, oi, name):
    """which family a stale lookup belongs to (specific signatures)"""
    writes = []          # (op index, clock) of the writes of `name` before oi
    clock = 0
    for i, op in enumerate(ops[:oi]):
        if op[0] == 'tick':
            clock += op[1]
        if (op[0] in ('create_wf', 'update_wf') and op[1] == name) or \
                (op[0] == 'workbook' and name.startswith('wb0.') and any('wb0.' + m == name for m, _ in op[1])):
            writes.append((i, clock))
    if len(writes) >= 3 and writes[-1][1] == writes[-2][1]:
        return 'stale-after-same-second-update'
    return 'stale-after-update:%s' % ('workbook' if name.startswith('wb0.') else 'standalone')


def sc_judge(ctx, ops, obs, kinds=None):
    """oracle O5 on the observations of one sequence; returns [(observed, stored)] per lookup"""
    real = []
    for o in obs:
        if o[1] == 'declared-error':
            ctx.disagree('speccache', {'ops': ops, 'op': o[2]}, 'operation succeeds', 'raises %s' % o[3])
            continue
        if kinds is not None:
            kinds[o[1]] += 1
        real.append((o[3], o[4]))
        if o[1] != 'caller' and o[3] != o[4]:
            fam = sc_classify(ops, o[0], o[2])
            ctx.fail('spec-cache:%s' % fam,
                     '%s of %r uses a specification that is not the stored definition (stored version %s, observed %s): '
                     'the cached specification was not invalidated by the update' % (o[1], o[2], o[4], o[5]),
                     {'kind': 'speccache', 'ops': ops, 'failing_op': o[0], 'observed': o[5], 'stored': o[6]})
    return real


def suite_speccache(ctx):
    """Model/SpecCache.v (configured by Gen/SpecCache.v) vs the real services, parser cache and engine;
    oracle: every start / sub-workflow start / trigger creation uses the definition stored at that moment."""
    runner = SpecCacheRunner(ctx.seed)
    seqs = [list(s) for s in SC_CORPUS]
    for _ in range(ctx.n(30, 400)):
        seqs.append(sc_gen_sequence(ctx.rng, ctx.rng.randint(6, 16)))
    batch = Batch('c14cache', CACHE_IMPORTS)
    kinds = collections.Counter()
    lookups = 0
    for ops in seqs:
        mops, obs = runner.execute(ops)
        real = sc_judge(ctx, ops, obs, kinds)
        lookups += len(real)
        ctx.cov['traces_validated_against_impl'] += 1
        batch.add('exec_ops gen_cfg [%s]' % '; '.join(mops), {'ops': ops, 'real': real})
    for meta, res in batch.run():
        pairs = [(int(a), int(b)) for a, b in re.findall(r'\((\d+),\s*(\d+)\)', res)]
        ctx.count('speccache', json.dumps(meta['ops']), nontrivial=len(pairs) >= 3)
        ctx.cov['disagreements_checked'] += 1
        # a stale real lookup reports -1 when the observed version cannot be read (trigger refused): compare coherence there
        same = len(pairs) == len(meta['real']) and all(
            (m == r) or (r[0] == -1 and m[0] != m[1] and m[1] == r[1]) for m, r in zip(pairs, meta['real']))
        if not same:
            ctx.disagree('speccache', {'ops': meta['ops']}, pairs, meta['real'])
    ctx.cov['suites'].setdefault('speccache', {}).update(sequences=len(seqs), lookups=lookups, lookup_kinds=dict(kinds))
    ctx.sample({'suite': 'speccache', 'ops': SC_CORPUS[1]})


# ---------------------------------------------------------------------------
# strings that the DSL parses a second time (sites enumerated by translate/tr_reparse.py):
# pathological inner texts at every such place, and the same shapes at YAML level as controls

def rp_deep(o, c, n, mid=''):
    return o * n + mid + c * n


def rp_payloads(big):
    """name -> inner text; `big` = length of the long-string shapes"""
    return collections.OrderedDict([
        ('int4301', '9' * 4301), ('int10000', '9' * 10000), ('negint5000', '-' + '9' * 5000),
        ('float_huge', '1e99999'), ('float_neg_huge', '-1e99999'), ('float_long', '1.' + '0' * 5000 + '1'),
        ('nan', 'NaN'), ('inf', 'Infinity'), ('neg_inf', '-Infinity'), ('arr_nan_inf', '[NaN, Infinity, -Infinity]'),
        ('arr_float_huge', '[1e99999, -1e99999]'), ('arr_int5000', '[' + '9' * 5000 + ']'),
        ('arr50', rp_deep('[', ']', 50)), ('arr1000', rp_deep('[', ']', 1000)), ('arr5000', rp_deep('[', ']', 5000)),
        ('obj50', rp_deep('{"a":', '}', 50, '1')), ('obj1000', rp_deep('{"a":', '}', 1000, '1')),
        ('arr_obj1000', '[' + rp_deep('{"a":', '}', 1000, '1') + ']'), ('arr_obj5000', '[' + rp_deep('{"a":', '}', 5000, '1') + ']'),
        ('open1000', '[' * 1000), ('open5000', '[' * 5000), ('close5000', ']' * 5000), ('open_obj5000', '{"a":' * 5000),
        ('unbalanced', '[' * 3000 + ']' * 10), ('arr_unbalanced', '[' + '[' * 3000 + ']' * 10 + ']'),
        ('quoted_long', '"' + 'x' * big + '"'), ('bare_long', 'x' * big), ('unterminated_long', '"' + 'x' * big),
        ('dashes_long', '-' * big), ('words_long', 'ab ' * (big // 3)), ('assignments', 'a=' * 10000),
        ('arr_long', '["' + 'x' * big + '"]'),
        ('escapes', '"' + '\\"' * 5000 + '"'), ('backslashes', '\\' * 5001), ('u0000', '"' + '\\u0000' * 2000 + '"'),
        ('arr_escapes', '["' + '\\\\' * 5000 + '", "\\n\\t\\u00e9"]'), ('arr_bad_escape', '["\\x"]'),
        ('non_bmp', '"\U0001F600\U0001F600"'), ('arr_non_bmp', '["\U0001F600"]'), ('surrogate_escape', '["\\ud800"]'),
        ('lone_surrogate', '"\ud800"'), ('nul', '"a\x00b"'), ('arr_nul_escape', '["a\\u0000b"]'),
        ('parens2000', '(' * 2000 + '1' + ')' * 2000), ('path5000', '$' + '.a' * 5000),
        ('yaql_openers', '<% ' * 6000), ('jinja_openers', '{{ ' * 6000), ('eq_yaql_openers', 'a=<% ' * 4000),
    ])


_RP_WF = "version: '2.0'\nwf:\n  tasks:\n    t1:\n"


def rp_places(p):
    """place -> (entry point kind, document); the payload lands inside a string the DSL parses again
    (or, for the controls, as a YAML value)"""
    q1 = p.replace("'", "''")
    return collections.OrderedDict([
        ('action_param', ('wf', _RP_WF + "      action: std.echo output=%s\n" % p)),
        ('action_param_array', ('wf', _RP_WF + "      action: std.echo output=[%s]\n" % p)),
        ('workflow_param', ('wf', _RP_WF + "      workflow: sub a=%s b=1\n" % p)),
        ('retry_one_line', ('wf', _RP_WF + "      action: std.noop\n      retry: count=%s delay=1\n" % p)),
        ('on_clause_command', ('wf', _RP_WF + "      action: std.noop\n      on-success: fail msg=%s\n" % p)),
        ('on_clause_function', ('wf', _RP_WF + "      action: std.noop\n      on-error:\n        - fail(msg=%s)\n" % p)),
        ('on_clause_next', ('wf', _RP_WF + "      action: std.noop\n      on-complete:\n        next: 'noop x=%s'\n" % q1)),
        ('with_items', ('wf', _RP_WF + "      action: std.noop\n      with-items: x in %s\n" % p)),
        ('with_items_array', ('wf', _RP_WF + "      action: std.noop\n      with-items:\n        - x in [%s]\n" % p)),
        ('yaql', ('wf', "version: '2.0'\nwf:\n  output:\n    o: <%% %s %%>\n  tasks:\n    t1:\n      action: std.noop\n" % p)),
        ('jinja', ('wf', "version: '2.0'\nwf:\n  output:\n    o: '{{ %s }}'\n  tasks:\n    t1:\n      action: std.noop\n" % q1)),
        ('input_text', ('wf', _RP_WF + "      action: std.echo\n      input: '%s'\n" % q1)),
        ('version_text', ('wf', "version: '%s'\nwf:\n  tasks:\n    t1:\n      action: std.noop\n" % q1)),
        ('task_name', ('wf', "version: '2.0'\nwf:\n  tasks:\n    '%s':\n      action: std.noop\n" % q1)),
        ('base_param', ('act', "version: '2.0'\na1:\n  base: std.echo output=%s\n" % p)),
        ('wb_base_param', ('wb', "version: '2.0'\nname: wb\nactions:\n  a1:\n    base: std.echo output=%s\nworkflows:\n  wf:\n    tasks:\n"
                                 "      t1:\n        action: a1 x=%s\n" % (p, p))),
        ('wb_version_text', ('wb', "version: '%s'\nname: wb\nworkflows:\n  wf:\n    tasks:\n      t1:\n        action: std.noop\n" % q1)),
        # controls: the same shape as a YAML value / YAML structure
        ('yaml_value', ('wf', "version: '2.0'\nwf:\n  output:\n    o: %s\n  tasks:\n    t1:\n      action: std.noop\n" % p)),
        ('yaml_input_value', ('wf', _RP_WF + "      action: std.echo\n      input:\n        output: %s\n" % p)),
    ])


RP_CORPUS = [
    # the scenario of the seeded change: json.loads of an inner literal raises ValueError / RecursionError
    ('action_param', 'int4301', 'accept'), ('on_clause_command', 'int4301', 'accept'), ('base_param', 'int10000', 'accept'),
    ('retry_one_line', 'int4301', 'dsl'), ('action_param', 'arr1000', 'accept'), ('action_param_array', 'arr5000', 'accept'),
    ('with_items', 'arr_int5000', 'dsl'), ('with_items', 'open5000', 'dsl'),
    ('with_items', 'arr50', 'accept'), ('action_param', 'arr_nan_inf', 'accept'), ('workflow_param', 'arr_obj1000', 'accept'),
    # expression parsers and the command regexes
    ('yaql', 'int4301', 'dsl'), ('jinja', 'int4301', 'dsl'), ('jinja', 'parens2000', 'dsl'), ('yaql', 'parens2000', 'accept'),
    ('action_param', 'bare_long', 'accept'), ('retry_one_line', 'dashes_long', 'dsl'), ('yaml_value', 'int4301', 'dsl'),
    ('yaml_value', 'arr5000', 'dsl'), ('version_text', 'float_huge', 'accept'), ('wb_version_text', 'int4301', 'dsl'),
]


def rp_cases(ctx):
    """(place, payload name) pairs: corpus, every payload at the inline-parameter place, and a seeded
    rotation of the other places (all pairs in the thorough tier)"""
    pays = list(rp_payloads(10))
    places = list(rp_places('x'))
    pairs = [(pl, pn) for pl, pn, _ in RP_CORPUS]
    pairs += [('action_param', pn) for pn in pays]
    must = ['int4301', 'arr5000', 'open5000', 'bare_long', 'words_long']   # at EVERY place
    for pl in places:
        chosen = pays if ctx.thorough() else must + ctx.rng.sample([p for p in pays if p not in must], 3)
        pairs += [(pl, pn) for pn in chosen]
    seen, out = set(), []
    for x in pairs:
        if x not in seen:
            seen.add(x)
            out.append(x)
    return out


def rp_document(place, payload, big):
    return rp_places(rp_payloads(big)[payload])[place]


def suite_reparse(ctx):
    """oracle O1 (+ O2/O3 for the accepted ones, + the walk / norm models for the small ones) on documents whose
    re-parsed strings carry pathological literals"""
    stats = new_stats()
    walk_batch, norm_batch = Batch('c14rpwalk'), Batch('c14rpnorm')
    big = ctx.n(100000, 1000000)
    expect = {(pl, pn): e for pl, pn, e in RP_CORPUS}
    by_place = collections.Counter()
    slow = []
    for place, pn in rp_cases(ctx):
        kind, text = rp_document(place, pn, big)
        r = process_doc(ctx, kind, text, 'reparse:%s:%s' % (place, pn), walk_batch, norm_batch, stats,
                        expect=expect.get((place, pn)), recipe={'place': place, 'payload': pn, 'big': big})
        by_place[place] += 1
        if r['time'] > 2:
            slow.append((place, pn, round(r['time'], 1)))
    finish_batches(ctx, walk_batch, norm_batch, stats)
    ctx.cov['suites'].setdefault('reparse', {}).update(
        documents=sum(by_place.values()), by_place=dict(by_place), verdicts=dict(stats['verdict']),
        model_class=dict(stats['model']), slower_than_2s=slow[:20], long_string_chars=big)


def suite_reparse_rest(ctx):
    """the same documents through the REST validate endpoints and through create / update (real pecan application,
    real controllers and services): never a 5xx answer"""
    import pecan
    import pecan.testing
    from oslo_config import cfg
    from harness import engine_driver
    from mistral.api import app as pecan_app
    drv = engine_driver.Driver('legacy', ctx.seed)
    cfg.CONF.set_override('auth_enable', False, group='pecan')
    cfg.CONF.set_override('enabled', False, group='cron_trigger')
    app = pecan.testing.load_test_app(dict(pecan_app.get_pecan_config()))
    url = {'wf': '/v2/workflows', 'wb': '/v2/workbooks', 'act': '/v2/actions'}
    big = 20000
    pairs = [(pl, pn) for pl, pn, _ in RP_CORPUS]
    pays = list(rp_payloads(10))
    for pl in rp_places('x'):
        pairs += [(pl, pn) for pn in ctx.rng.sample(pays, ctx.n(1, 12))]
    n = 0
    drv.reset(ctx.seed)
    for place, pn in pairs:
        kind, text = rp_document(place, pn, big)
        for method, path, okset in (('post', url[kind] + '/validate', {200, 400}), ('post', url[kind], {201, 400, 409}),
                                    ('put', url[kind], {200, 400, 404})):
            signal.alarm(DOC_LIMIT_S * 2)
            try:
                resp = getattr(app, method)(path, text.encode('utf-8', 'surrogatepass'), headers={'Content-Type': 'text/plain'}, expect_errors=True)
                status = resp.status_int
            except DocTimeout:
                status = 'timeout'
            except Exception as e:
                status = 'raises:%s' % type(e).__name__
            finally:
                signal.alarm(0)
            n += 1
            ctx.count('reparse_rest', (method, path, place, pn), nontrivial=True)
            if status not in okset:
                ctx.fail('rest:%s:%s %s' % (status, method.upper(), path),
                         '%s %s answers %s for a definition whose %s carries the inner text %r (must be %s)' % (
                             method.upper(), path, status, place, pn, sorted(okset)),
                         {'kind': kind, 'text': text if len(text) < 300000 else None, 'recipe': {'place': place, 'payload': pn, 'big': big},
                          'rest': [method, path]})
    ctx.cov['suites'].setdefault('reparse_rest', {}).update(requests=n)


def run(ctx):
    boot()
    ctx.cov['rule'] = ('documents = corpus + every bundled definition (tests resources, rally jobs, doc examples) through all three entry points '
                       '+ generated workflows/workbooks/actions (direct/reverse, joins, with-items, policies, one-line retry, advanced publishing, '
                       'task-defaults, inline parameters) + structure-aware mutations of those (replace/delete/add key/rename to odd names/wrong types/'
                       'broken expressions) + text-level malformations; distinct = distinct (suite, entry point, text); walk non-trivial = at least 3 schema validations')
    # each suite runs on its own: a model that no longer evaluates (broken obligation) must not
    # keep the implementation-side oracles of the other suites from running
    seeds = []

    def guarded(name, fn):
        t0 = time.time()
        try:
            return fn()
        finally:
            ctx.cov['suites'].setdefault('timing', {})[name + '_s'] = round(time.time() - t0, 1)

    def guarded(name, fn, _inner=guarded):
        try:
            return _inner(name, fn)
        except core.CoqEvalError as e:
            ctx.obligation('correspondence:%s-model-evaluates' % name, False, str(e))
        except DocTimeout:
            raise
        except Exception:
            ctx.obligation('correspondence:%s-harness-runs' % name, False, traceback.format_exc())
    got = guarded('documents', lambda: suite_documents(ctx))
    seeds = got or [gen_definition(ctx.rng) for _ in range(60)]
    guarded('slice', lambda: suite_slice(ctx, seeds))
    guarded('db_roundtrip', lambda: suite_db_roundtrip(ctx, seeds))
    guarded('reparse', lambda: suite_reparse(ctx))
    guarded('speccache', lambda: suite_speccache(ctx))
    guarded('reparse_rest', lambda: suite_reparse_rest(ctx))
    ctx.assumptions += ['regex verdicts and inline-parameter dictionaries are supplied to the model by the real `re` / BaseSpec._parse_cmd_and_input per case',
                        'jsonschema.check_schema memoised per schema object (the schemas are constants)',
                        'totality for arbitrary text is decided by this run, not by a theorem (partial)']


def search(ctx):
    """Widened oracle-only search (no model)."""
    rng = ctx.rng
    try:
        runner = SpecCacheRunner(ctx.seed)
        for ops in [list(s) for s in SC_CORPUS] + [sc_gen_sequence(rng, rng.randint(6, 16)) for _ in range(60)]:
            _mops, obs = runner.execute(ops)
            sc_judge(ctx, ops, obs)
    except Exception as e:
        ctx.notes.append('spec-cache search crashed: %r' % (e,))
    stats = new_stats()
    seeds = []
    for _ in range(300):
        seeds.append(gen_definition(rng))
    for _ in range(6000):
        kind, base = rng.choice(seeds)
        d, _ops = mutate(rng, base)
        try:
            text = dump_yaml(rng, d)
        except Exception:
            continue
        process_doc(ctx, kind, text, 'search', None, None, stats, model=False)


def replay(obj):
    r = obj.get('replay', {})
    if r.get('kind') == 'speccache':
        boot()
        runner = SpecCacheRunner(obj.get('seed', 0))
        _mops, obs = runner.execute(r['ops'])
        bad = 0
        for o in obs:
            if o[1] in ('caller', 'declared-error'):
                continue
            stale = o[3] != o[4]
            bad += stale
            print('op %d %-8s %-7s stored version %s -> %s %s' % (o[0], o[1], o[2], o[4], 'STALE' if stale else 'ok', o[5] if stale else ''))
        return 1 if bad else 0
    if r.get('recipe') and (not r.get('text') or r.get('text_len', len(r['text'])) != len(r['text'])):
        rc = r['recipe']
        r['kind'], r['text'] = rp_document(rc['place'], rc['payload'], rc['big'])
        r.pop('text_len', None)
    if 'text' not in r or 'kind' not in r:
        print(json.dumps(obj, indent=1)[:3000])
        return 1
    if r.get('rest'):
        ctx = core.Ctx('C14', 'quick', obj.get('seed', 0))
        boot()
        rc = r['recipe']
        global RP_CORPUS
        RP_CORPUS = [(rc['place'], rc['payload'], None)]
        ctx.rng.sample = lambda pop, k: []
        suite_reparse_rest(ctx)
        for f in ctx.failures:
            print('  FAIL %s: %s' % (f['signature'], f['what']))
        return 1 if ctx.failures else 0
    ctx = core.Ctx('C14', 'quick', 0)
    stats = new_stats()
    if r.get('text_len') and r['text_len'] != len(r['text']):
        print('replay text was truncated in the file (%d chars); see the corpus entry with the same signature' % r['text_len'])
    res = process_doc(ctx, r['kind'], r['text'], 'replay', None, None, stats, model=False)
    print('%s -> %s %s' % (boot()['entry'][r['kind']].__name__, res['verdict'], res['sig'] or ''))
    for f in ctx.failures:
        print('  FAIL %s: %s' % (f['signature'], f['what']))
    return 1 if ctx.failures else 0
