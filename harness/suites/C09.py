"""C09 - a sub-workflow and its parent task stay consistent (COMPONENT level).

Ties Model/SubWf.v to the real code of /repo:
  rstrip            python str.rstrip(chars) / [:-1] vs rstrip / drop_last (the string functions the model rests on)
  resolve           engine/utils.py resolve_workflow_definition + db load_workflow_definition on a REAL DB (engine
                    driver boot) populated with generated definitions (names with / without dots, namespaces), queried
                    with workbook-qualified, standalone and malformed (dotted spec name) parents
  param_split       the REAL WorkflowAction.schedule (system params + the loop moving undeclared keys to params)
                    with its collaborators (spec lookup, definition lookup, start) replaced by recording stubs
  result_to_parent  the REAL Workflow._send_result_to_parent_workflow on every state
  subwf_rows        real engine runs (driver): a parent calling a child with extra / system-named input keys,
                    nested 3 deep, in a namespace, from with-items, in-process and via rpc; child rows vs model
  env_tree          the environment clause ("every descendant ... evaluates its expressions against the root execution's
                    environment"): Gen/EnvSites.v is TRANSLATED from the source on every run (translate/tr_envsites.py:
                    the statements of data_flow.get_workflow_environment_dict as a Gallina Fixpoint; one record per
                    ContextView(...) construction of mistral/ with where its environment layer comes from; the callers of
                    expr.evaluate* of mistral/workflow, mistral/engine with the site whose context they use; fail closed).
                    Real engine runs of generated trees (depth 0-3; plain, with-items and environment-passing callers;
                    in-process / rpc; leaf ok / failing; root environment as dict or by name) read env() - YAQL and Jinja - at
                    every expression site of every level: vars, task input / action parameters, publish, publish-on-error,
                    output, output-on-error, on-success / on-error conditions (which branch ran), with-items expression
                    (number of children), wait-before policy, target, base-input of an ad-hoc action; each observation is
                    compared with Model/EnvTree.v env_seen of the translated site that builds that expression's context.
                    Workflow `input` defaults are not evaluated by the engine (stored as text): no site.
                    `timeout:` (the value RegularTask._get_timeout hands to the executor) and the `retry` count of the failing
                    leaf are read through env() too; the site of the timeout observation is the one the translated env_uses
                    names for _get_timeout (FIXED finding, repo commit 457c3c0e: its view had no environment layer, env() was
                    null in `timeout:` at every depth; oracle signature env:site-not-root-env:timeout:<depth>).
Oracle (no model): at every depth every one of those sites sees the ROOT execution's environment, also below a caller
  that handed its child an `env` of its own (signature env:site-not-root-env:<site>:<depth>); on the real engine's rows - the parent task ends in the child's state with the child's output as
  result; every descendant records the tree's root and the caller's namespace; every input key reaches the child as
  input (declared) or param (undeclared) with its value; index = item index; for names of the workbook grammar the
  definition found is the workbook-relative one, else the global one (caller's namespace first).

FIXED finding (repo commit ef52716f "sub-workflow input cannot override the parameters linking it to its parent";
  before it an undeclared input key named root_execution_id / namespace / index / task_execution_id / notify REPLACED the
  system param set by WorkflowAction.schedule): such a key is now refused with InputException and the calling task fails.
  The old witnesses stay in SPLIT_CORPUS / ROW_CASES as regression cases: they must be refused
  (oracle signature subwf:system-param-overridden if a child is started with a foreign value again).

Self-test (mutations of the anchored source in a scratch worktree; `VERIF_REPO=/tmp/wt_C09b ./check C09`; each gave a
VIOLATION line with the signature shown; run before the fix, next to the then open finding):
  M1 engine/actions.py   the `wf_params[k] = v` line of the split loop dropped          subwf:undeclared-input-dropped
  M2 engine/actions.py   `root_execution_id = parent.root_execution_id or parent.id` -> `= parent.id`
                                                                                        subwf:system-param-wrong (depth 2)
  M3 engine/actions.py   'namespace': parent_wf_ex.params['namespace'] -> wf_def.namespace   subwf:system-param-wrong
  M4 engine/utils.py     global lookup wins over the workbook-relative one              resolve:wrong-definition
  M5 engine/utils.py     `.rstrip(spec)[:-1]` -> `[:-len(spec)]` (keeps the dot)         resolve:wrong-definition
  M6 engine/workflows.py CANCELLED hand-off built without cancel=True                   subwf:wrong-result-class
  M7 db api.py           load_workflow_definition orders namespaces ascending           resolve:wrong-definition
  M8 engine/actions.py   'index': index -> 'index': 0                                   subwf:system-param-wrong (with-items)
  M9 engine/utils.py     `if parent_wf_name != parent_wf_spec_name` -> `if '.' in parent_wf_name`   resolve:wrong-definition
Environment clause (each: VIOLATION lines with a concrete tree as replay):
  S2 workflow/data_flow.py add_workflow_variables_to_context: get_workflow_environment_dict(wf_ex) ->
        {'__env': wf_ex.params.get('env', {})} (the independently seeded change that `./check C09` missed before)
        translator: site becomes EnvOwnParams; theorem C09_env_root_everywhere breaks (sites_all_root);
        oracle env:site-not-root-env:vars:1 / :2 / :3; correspondence agrees (the model follows the code)
  E1 workflow/data_flow.py publish_variables: environment layer {'__env': <calling workflow>.params.get('env', {})}
        translator: EnvOther; theorem breaks; correspondence disagrees (344 observations);
        oracle env:site-not-root-env:publish:2 (depth >= 2 or below an environment-passing caller only)
  E2 workflow/data_flow.py get_workflow_environment_dict: the `if wf_ex.root_execution_id:` recursion removed
        translated Fixpoint changes: lemma env_dict_linked / theorem C09_env_dict_is_roots break; oracle at every site, depth >= 1
  E3 the same recursion guarded by `and 'env' not in wf_ex.params`: TranslateError (test outside the subset), oracle as E2
  E4 repo commit 457c3c0e reverted (RegularTask._get_timeout builds a view without environment layer): site EnvNone, not
        exempt: theorem breaks; oracle env:site-not-root-env:timeout:0..3; correspondence agrees (model follows the code)
"""
import json
import random

from harness import core
from harness.core import coq_bool, coq_list, coq_str

GEN = ['States', 'EnvSites']

MANIFEST = {
    'level_text': 'Coq theorems over Model/SubWf.v: param split characterised pointwise for ALL dictionaries / declared lists '
                  '(induction over the loop): declared keys stay input, undeclared become params, nothing dropped; system '
                  'params kept iff no undeclared key has their name (the unconditional claim is refuted with a witness); root '
                  'propagation for all nesting depths; the character-set rstrip yields exactly the workbook prefix for every '
                  'workbook name when the spec name has no dot, and over-strips exactly when it has one; lookup order '
                  'workbook-relative then global, caller namespace before default; result class per child state. Model tied to '
                  'the code by differential runs of the real schedule / resolve / hand-off functions and real engine runs. '
                  'Environment clause: for EVERY root environment, tree depth and execution of the tree (induction over the '
                  'call depth, Model/EnvTree.v in_tree) and every site that builds an expression context for a workflow / task '
                  '/ action, env() is the ROOT execution\'s environment, whatever environment an intermediate caller handed down '
                  '(C09_env_root_everywhere, C09_env_dict_is_roots); a site reading the execution\'s own params is refuted at '
                  'every depth >= 1 (C09_env_own_params_refuted). Tie: get_workflow_environment_dict and the list of '
                  'ContextView constructions / evaluate callers with their environment layer are translated from the source '
                  'on every run (Gen/EnvSites.v, fail closed), and real engine runs read env() at every expression site of '
                  'every level and compare with the model (suite env_tree).',
    'level_note': 'Component level: "parent mirrors child over whole runs" and "continues exactly once" are checked here by the '
                  'implementation-side oracle on real engine runs only; the engine-level theorems come from Model/Engine.v. '
                  'Trusted: python str/dict semantics (rstrip compared by correspondence), SQL ordering of namespaces, the '
                  'recording stubs that replace spec lookup / start in the schedule correspondence; YAQL evaluation. '
                  'Environment clause: trusted are the translator\'s reading of the ContextView arguments (data layers named in '
                  'DATA_LAYERS carry no __env key), env() = context[__env], the ORM relationship root_execution resolving '
                  'root_execution_id (checked on the rows by the oracle); two sites are exempt by name in the theorem '
                  '(Model/EnvTree.v exempt_sites): _get_environment evaluates the stored environment against itself, the '
                  'ad-hoc action view re-uses the one of RegularAction.schedule (observed on the engine instead).',
    'technique': 'Coq proof (list/string induction, pointwise dictionary lemmas) over hand model; differential correspondence; '
                 'row oracle on the real engine',
    'design_ref': '6 C09',
}

IMPORTS = ['Gen.States', 'Model.SubWf']

SYS = {'root_execution_id', 'task_execution_id', 'index', 'namespace', 'notify'}
KEYS = ['a', 'b', 'c', 'zz', 'yy', 'x_1', 'root_execution_id', 'task_execution_id', 'index', 'namespace', 'notify', 'env_x']
STATE_NAMES = ['IDLE', 'WAITING', 'RUNNING', 'DELAYED', 'PAUSED', 'SUCCESS', 'CANCELLED', 'ERROR', 'SKIPPED']


def coq_state(s):
    return 'RUNNING_DELAYED' if s == 'DELAYED' else s


def coq_dict(d):
    return coq_list(['(%s, %d)' % (coq_str(k), v) for k, v in d.items()]) if d else '[]'


def packed_eval(name, exprs, k=10):
    """Evaluate exprs (all of one type) k per coqc expression, as Coq lists; returns the raw result text per group."""
    groups = [exprs[i:i + k] for i in range(0, len(exprs), k)]
    return core.coq_eval(name, IMPORTS, [coq_list(g) for g in groups], chunk=60)


def parse_dict(s):
    return {k: int(v) for k, v in core.re.findall(r'\("(.*?)",\s*(\d+)\)', s)}


def parse_two_dicts(s):
    # ([...], [...])
    i = s.index(']')
    return parse_dict(s[:i + 1]), parse_dict(s[i + 1:])


# ---------------------------------------------------------------------------
# rstrip / [:-1]

def suite_rstrip(ctx):
    rng = ctx.rng
    alpha = 'abwf1.-_'
    cases = [('wb.wf1', 'wf1'), ('my.wb.wf-1', 'wf-1'), ('wb.a.b', 'a.b'), ('', ''), ('aaa', 'a'), ('.', '.'), ('abc', '')]
    for _ in range(ctx.n(1500, 30000)):
        spec = ''.join(rng.choice(alpha) for _ in range(rng.randrange(0, 5)))
        if rng.random() < 0.7:
            wb = ''.join(rng.choice(alpha) for _ in range(rng.randrange(0, 6)))
            cases.append((wb + '.' + spec, spec))
        else:
            cases.append((''.join(rng.choice(alpha) for _ in range(rng.randrange(0, 8))), spec))
    exprs = ['(rstrip %s %s, wb_name_of %s %s)' % (coq_str(s), coq_str(cs), coq_str(s), coq_str(cs)) for s, cs in cases]
    res = []
    for g in packed_eval('c09rstrip', exprs):
        res += core.re.findall(r'\("(.*?)",\s*"(.*?)"\)', g)
    assert len(res) == len(cases), (len(res), len(cases))
    dotted = 0
    for (s, cs), model in zip(cases, res):
        impl = (s.rstrip(cs), s.rstrip(cs)[:-1])
        dotted += '.' in cs
        ctx.count('rstrip', (s, cs), nontrivial=bool(cs))
        ctx.cov['disagreements_checked'] += 1
        if impl != model:
            ctx.disagree('rstrip', {'s': s, 'chars': cs}, model, impl)
    ctx.cov['suites']['rstrip']['dotted_spec_names'] = dotted
    ctx.sample({'suite': 'rstrip', 's': cases[2][0], 'chars': cases[2][1]})


# ---------------------------------------------------------------------------
# resolve_workflow_definition on a real DB

_DRV = {}


def driver():
    from harness.engine_driver import Driver
    if 'd' not in _DRV:
        _DRV['d'] = Driver('legacy', 0)
    return _DRV['d']


def soft_reset(d, seed=0):
    """Driver.reset without dropping the workflow definitions (spec validation is the expensive part)."""
    import collections
    from mistral.db.v2 import api as db_api
    from mistral import context as actx
    d.seed = seed
    d.uuid_rng = random.Random('uuid-run/%s' % seed)
    d.uuid_order = {}
    d.clock = 0
    d.pending = collections.OrderedDict()
    d.next_pid = 0
    d.oracle = {}
    d.calls = collections.Counter()
    d.entry_errors = []
    d.event_log = []
    d.cas_log = []
    actx.set_ctx(d._ctx())
    with db_api.transaction():
        db_api.delete_workflow_executions()
        db_api.delete_task_executions()
        db_api.delete_action_executions()
        db_api.delete_delayed_calls()
        db_api.delete_scheduled_jobs()


def rows_driver(seed):
    """The engine with the WF_ROWS definitions present in namespaces '' and 'ns1' (created once)."""
    d = driver()
    if not _DRV.get('rows_defs'):
        d.reset(0)
        _DRV['env_defs'] = False
        d.create_workflows(WF_ROWS, namespace='')
        d.create_workflows(WF_ROWS, namespace='ns1')
        _DRV['rows_defs'] = True
    soft_reset(d, seed)
    return d


TOK = ['a', 'b', 'wf', 'w-1', 'f_1']
WBS = ['wb', 'w', 'my.wb', 'wbf', 'a.b']
NSS = ['', 'ns1']


def gen_db(rng):
    names = set()
    for _ in range(rng.randrange(3, 12)):
        t = rng.choice(TOK)
        r = rng.random()
        if r < 0.45:
            names.add(t)
        elif r < 0.9:
            names.add(rng.choice(WBS) + '.' + t)
        else:
            names.add(rng.choice(['.' + t, 'a.' + t, 'w.b.' + t]))
    defs = set()
    for n in names:
        for ns in NSS:
            if rng.random() < 0.6:
                defs.add((n, ns))
    return sorted(defs)


def gen_query(rng):
    r = rng.random()
    child = rng.choice(TOK) if rng.random() < 0.8 else rng.choice(WBS) + '.' + rng.choice(TOK)
    ns = rng.choice(NSS)
    if r < 0.6:       # a workflow of a workbook (grammar: no dot in the spec name)
        spec = rng.choice(TOK)
        return (rng.choice(WBS) + '.' + spec, spec, ns, child, 'workbook')
    if r < 0.8:       # standalone workflow
        spec = rng.choice(TOK + ['a.b', 'x.wf'])
        return (spec, spec, ns, child, 'standalone')
    spec = rng.choice(['a.b', 'b.wf', 'w.f', '.a'])       # malformed: dotted spec name inside a workbook
    return (rng.choice(WBS) + '.' + spec, spec, ns, child, 'dotted')


def populate(defs):
    from mistral.db.v2 import api as db_api
    _DRV['rows_defs'] = False
    _DRV['env_defs'] = False
    with db_api.transaction():
        db_api.delete_workflow_definitions()
        for i, (n, ns) in enumerate(defs):
            db_api.create_workflow_definition({'name': n, 'namespace': ns, 'definition': 'x', 'spec': {}, 'scope': 'private'})


def real_resolve(q):
    from mistral.db.v2 import api as db_api
    from mistral.engine import utils as engine_utils
    from mistral import exceptions as exc
    with db_api.transaction():
        try:
            d = engine_utils.resolve_workflow_definition(q[0], q[1], q[2], q[3])
            return (d.name, d.namespace)
        except exc.WorkflowException:
            return None


def expected_resolve(defs, q):
    """The documented lookup order, for names of the grammar."""
    parent, spec, ns, child, kind = q
    cands = []
    if kind == 'workbook':
        wb = parent[:-(len(spec) + 1)]
        cands += [(wb + '.' + child, ns), (wb + '.' + child, '')]
    cands += [(child, ns), (child, '')]
    for c in cands:
        if c in defs:
            return c
    return None


def suite_resolve(ctx):
    rng = ctx.rng
    d = driver()
    d.reset(0)
    corpus = [([('wb.child', ''), ('child', '')], ('wb.a.b', 'a.b', '', 'child', 'dotted')),
              ([('wb.child', ''), ('child', '')], ('wb.ab', 'ab', '', 'child', 'workbook')),
              ([('child', ''), ('child', 'ns1')], ('wb.p', 'p', 'ns1', 'child', 'workbook')),
              ([('wb.child', ''), ('child', 'ns1')], ('wb.p', 'p', 'ns1', 'child', 'workbook'))]
    batches = [(defs, [q]) for defs, q in corpus]
    for _ in range(ctx.n(25, 400)):
        batches.append((gen_db(rng), [gen_query(rng) for _ in range(60)]))
    exprs, flat = [], []
    for defs, qs in batches:
        dbx = coq_list(['(mkDef %s %s %d)' % (coq_str(n), coq_str(ns), i) for i, (n, ns) in enumerate(defs)])
        for q in qs:
            exprs.append('opt_show (resolve %s %s %s %s %s)' % (dbx, coq_str(q[0]), coq_str(q[1]), coq_str(q[2]), coq_str(q[3])))
            flat.append((defs, q))
    res = []
    for g in packed_eval('c09resolve', exprs, k=6):
        res += core.re.findall(r'\d+', g)
    assert len(res) == len(flat), (len(res), len(flat))
    kinds, found = {}, 0
    cur = None
    for (defs, q), r in zip(flat, res):
        if cur is not defs:
            populate(defs)
            cur = defs
        n = int(r)
        model = None if n == 0 else defs[n - 1]
        impl = real_resolve(q)
        kinds[q[4]] = kinds.get(q[4], 0) + 1
        found += impl is not None
        ctx.count('resolve', (tuple(defs), q), nontrivial=True)
        ctx.cov['disagreements_checked'] += 1
        if q[4] != 'dotted':
            exp = expected_resolve(defs, q)
            if impl != exp:
                ctx.fail('resolve:wrong-definition', 'resolve_workflow_definition%r finds %r, the lookup order requires %r' % (q[:4], impl, exp),
                         {'kind': 'resolve', 'definitions': defs, 'query': q})
        if impl != model:
            ctx.disagree('resolve', {'definitions': defs, 'query': q}, model, impl)
    populate([])
    ctx.cov['suites']['resolve']['query_kinds'] = kinds
    ctx.cov['suites']['resolve']['found'] = found
    ctx.sample({'suite': 'resolve', 'definitions': flat[0][0], 'query': flat[0][1]})


# ---------------------------------------------------------------------------
# WorkflowAction.schedule: system params + split, real method on recording stubs

class _Obj(object):
    def __init__(self, **kw):
        self.__dict__.update(kw)


def real_schedule(case):
    """case: declared(list) input(dict) parent_root(None|int) notify(bool) index(int) via_rpc(bool)"""
    from unittest import mock
    from oslo_config import cfg
    from mistral.db.v2 import api as db_api  # noqa
    from mistral.engine import actions
    from mistral import exceptions as exc
    started = []
    parent_params = {'namespace': 92}
    if case['notify']:
        parent_params['notify'] = 93
    parent = _Obj(id=90, root_execution_id=case['parent_root'], params=parent_params, workflow_name='wb.p')
    task_ex = _Obj(id=91, workflow_execution=parent)
    wf_def = _Obj(id='def-1', namespace='defns', updated_at=None, checksum=None, name='child')
    child_spec = _Obj(get_input=lambda: {k: None for k in case['declared']})
    fake_parser = _Obj(get_workflow_spec_by_execution_id=lambda i: _Obj(get_name=lambda: 'p'),
                       get_workflow_spec_by_definition_id=lambda i, u: child_spec)
    fake_utils = _Obj(resolve_workflow_definition=lambda *a, **k: wf_def)

    def start(wf_id, ns, ex_id, inp, desc, params):
        started.append((dict(inp), dict(params), ex_id))
    fake_handler = _Obj(start_workflow=start)

    class Client:
        def start_workflow(self, wf_id, ns, ex_id, inp, desc, async_=False, **params):
            started.append((dict(inp), dict(params), ex_id))
    queued = []
    fake_ptq = _Obj(register_operation=lambda f, in_tx=False: queued.append(f))
    act = actions.WorkflowAction(wf_name='child', task_ex=task_ex)
    cfg.CONF.set_override('start_subworkflows_via_rpc', bool(case.get('via_rpc')), group='engine')
    try:
        with mock.patch.object(actions, 'spec_parser', fake_parser), mock.patch.object(actions, 'engine_utils', fake_utils), \
                mock.patch.object(actions, 'wf_handler', fake_handler), mock.patch.object(actions, 'post_tx_queue', fake_ptq), \
                mock.patch.object(actions.rpc, 'get_engine_client', lambda: Client()):
            try:
                act.schedule(dict(case['input']), None, index=case['index'])
            except exc.MistralException:
                return []        # refused with a declared error: the engine fails the calling task
            for f in queued:
                f()
    finally:
        cfg.CONF.clear_override('start_subworkflows_via_rpc', group='engine')
    return started


def gen_split_case(rng):
    plain = [k for k in KEYS if k not in SYS]
    keys = rng.sample(plain, rng.randrange(0, 5))
    if rng.random() < 0.3:
        keys += rng.sample(sorted(SYS), rng.randrange(1, 3))
        rng.shuffle(keys)
    declared = [k for k in KEYS if rng.random() < 0.3]
    if rng.random() < 0.5:
        declared = [k for k in declared if k not in SYS]
    return {'declared': declared, 'input': {k: rng.randrange(1, 60) for k in keys},
            'parent_root': rng.choice([None, None, 89]), 'notify': rng.random() < 0.3, 'index': rng.choice([0, 0, 1, 5]),
            'via_rpc': rng.random() < 0.3}


SPLIT_CORPUS = [
    {'declared': ['a', 'b'], 'input': {'a': 1, 'zz': 3, 'b': 2}, 'parent_root': None, 'notify': False, 'index': 0, 'via_rpc': False},
    {'declared': ['a'], 'input': {'a': 1, 'root_execution_id': 7, 'namespace': 8}, 'parent_root': None, 'notify': False, 'index': 0, 'via_rpc': False},
    {'declared': ['a', 'index'], 'input': {'a': 1, 'index': 7}, 'parent_root': 89, 'notify': True, 'index': 2, 'via_rpc': True},
    {'declared': [], 'input': {}, 'parent_root': 89, 'notify': False, 'index': 0, 'via_rpc': False},
]


def reserved_hit(case):
    """undeclared input keys that carry the name of a param the engine sets for this call"""
    res = {'root_execution_id', 'task_execution_id', 'index', 'namespace'} | ({'notify'} if case['notify'] else set())
    return sorted(k for k in case['input'] if k in res and k not in case['declared'])


def split_oracle(ctx, case, started):
    """The property's sentences on what the child is started with (started: list of (input, params, ex_id))."""
    rep = {'kind': 'param_split', 'case': case}
    hit = reserved_hit(case)
    if not started:
        if not hit:
            ctx.fail('subwf:call-refused', 'the sub-workflow call is refused although no input key collides with an engine parameter', rep)
        return
    if len(started) != 1:
        ctx.fail('subwf:started-twice', 'the sub-workflow is started %d times by one call' % len(started), rep)
        return
    inp, params = started[0][0], started[0][1]
    for k, v in case['input'].items():
        if k in case['declared']:
            if inp.get(k) != v:
                ctx.fail('subwf:declared-input-lost', 'declared input key %r=%r does not reach the child as input (input %r)' % (k, v, inp), rep)
        elif k not in hit and (params.get(k) != v or k in inp):
            ctx.fail('subwf:undeclared-input-dropped', 'input key %r=%r not declared by the child is not passed on as an execution '
                     'parameter (params %r, input %r)' % (k, v, params, inp), rep)
    want = {'root_execution_id': case['parent_root'] or 90, 'task_execution_id': 91, 'index': case['index'], 'namespace': 92}
    if case['notify']:
        want['notify'] = 93
    for k, v in want.items():
        if params.get(k) != v:
            if k in hit:
                ctx.fail('subwf:system-param-overridden', 'the child is started with %s=%r instead of the engine\'s %r because the caller '
                         'passed an input key of that name that the child does not declare' % (k, params.get(k), v), rep)
            else:
                ctx.fail('subwf:system-param-wrong', 'the child is started with %s=%r, required %r' % (k, params.get(k), v), rep)


def suite_param_split(ctx):
    rng = ctx.rng
    cases = list(SPLIT_CORPUS) + [gen_split_case(rng) for _ in range(ctx.n(2000, 30000))]
    exprs = []
    for c in cases:
        sysx = '(sys_params (root_of %s 90) 91 %d 92 %s)' % (
            'None' if c['parent_root'] is None else '(Some %d)' % c['parent_root'], c['index'], '(Some 93)' if c['notify'] else 'None')
        exprs.append('show_split (param_split %s %s %s)' % (coq_list([coq_str(k) for k in c['declared']]), coq_dict(c['input']), sysx))
    res = []
    for g in packed_eval('c09split', exprs):
        res += [((parse_dict(a), parse_dict(b)) if ok == 'true' else 'refused')
                for ok, a, b in core.re.findall(r'\((true|false),\s*\(\[(.*?)\],\s*\[(.*?)\]\)\)', g)]
    assert len(res) == len(cases), (len(res), len(cases))
    shapes = {'sys_key_undeclared': 0, 'sys_key_declared': 0, 'plain': 0}
    for c, model in zip(cases, res):
        started = real_schedule(c)
        impl = (started[0][0], started[0][1]) if len(started) == 1 else ('refused' if not started else 'started %d times' % len(started))
        sk = [k for k in c['input'] if k in SYS]
        shapes['sys_key_undeclared' if any(k not in c['declared'] for k in sk) else ('sys_key_declared' if sk else 'plain')] += 1
        ctx.count('param_split', json.dumps(c, sort_keys=True), nontrivial=bool(c['input']))
        ctx.cov['disagreements_checked'] += 1
        split_oracle(ctx, c, started)
        if len(started) == 1:
            if started[0][2] is not None:
                ctx.disagree('param_split', c, 'no execution id', started[0][2])
        if impl != model:
            ctx.disagree('param_split', c, model, impl)
    ctx.cov['suites']['param_split']['shapes'] = shapes
    ctx.sample({'suite': 'param_split', 'case': cases[0]})


# ---------------------------------------------------------------------------
# Workflow._send_result_to_parent_workflow

def real_send_result(state, info):
    from unittest import mock
    from mistral.db.v2 import api as db_api  # noqa
    from mistral.engine import workflows
    sent, queued = [], []

    class Client:
        def on_action_complete(self, ex_id, result, wf_action=False, async_=False):
            sent.append((ex_id, result, wf_action))
    wf = workflows.Workflow.__new__(workflows.Workflow)
    wf.wf_ex = _Obj(id='child-1', state=state, state_info=info, task_execution_id='t-1')
    wf.wf_spec = None
    with mock.patch.object(workflows.post_tx_queue, 'register_operation', lambda f, in_tx=False: queued.append(f)), \
            mock.patch.object(workflows.rpc, 'get_engine_client', lambda: Client()):
        try:
            wf._send_result_to_parent_workflow()
        except RuntimeError:
            return 'refused'
        for f in queued:
            f()
    if len(sent) != 1 or sent[0][0] != 'child-1' or sent[0][2] is not True:
        return 'bad:%r' % (sent,)
    r = sent[0][1]
    if r is None:
        return 'stored'
    return 'cancel' if r.is_cancel() else ('error' if r.is_error() else 'data')


def suite_result_to_parent(ctx):
    cases = [(s, i) for s in STATE_NAMES for i in (None, '', 'some message')]
    res = core.coq_eval('c09send', IMPORTS, ['sent_name (result_to_parent %s)' % coq_state(s) for s, _ in cases])
    for (s, i), r in zip(cases, res):
        model = core.unquote(r)
        impl = real_send_result(s, i)
        ctx.count('result_to_parent', (s, i))
        ctx.cov['disagreements_checked'] += 1
        want = {'SUCCESS': 'stored', 'ERROR': 'error', 'CANCELLED': 'cancel'}.get(s)
        if want and impl != want:
            ctx.fail('subwf:wrong-result-class', 'a %s sub-workflow hands %r to its parent, required %r' % (s, impl, want),
                     {'kind': 'result_to_parent', 'state': s, 'state_info': i})
        if impl != model:
            ctx.disagree('result_to_parent', {'state': s, 'state_info': i}, model, impl)


# ---------------------------------------------------------------------------
# real engine runs

WF_ROWS = """
version: '2.0'
parent:
  input: [d, {items: [1, 2]}]
  tasks:
    t1:
      workflow: mid
      input: <% $.d %>
      publish: {r: <% task().result %>}
mid:
  input: [a, {b: 5}]
  output: {o: <% $.a %>, inner: <% $.inner %>}
  tasks:
    m1:
      workflow: child a=<% $.a %>
      publish: {inner: <% task().result %>}
child:
  input: [a, {b: 5}]
  output: {o: <% $.a %>}
  tasks:
    c1:
      action: verif.act tag="c" value=<% $.a %>
flat:
  input: [d]
  tasks:
    t1:
      workflow: child
      input: <% $.d %>
      publish: {r: <% task().result %>}
items:
  input: [d, {items: [1, 2, 3]}]
  tasks:
    t1:
      with-items: i in <% $.items %>
      workflow: child a=<% $.i %>
      publish: {r: <% task().result %>}
"""

ROW_CASES = [
    # (top workflow, namespace, child input dict, outcome of the leaf action, via_rpc)
    ('flat', '', {'a': 1, 'root_execution_id': 'OTHER'}, 'ok', False),
    ('flat', '', {'a': 1, 'namespace': 'nsx'}, 'ok', False),
    ('flat', '', {'a': 1, 'index': 7}, 'ok', False),
    ('flat', '', {'a': 1}, 'ok', False),
    ('flat', '', {'a': 1, 'b': 2, 'zz': 3}, 'ok', False),
    ('flat', '', {'a': 1, 'zz': 3}, 'err', False),
    ('flat', '', {'a': 1}, 'cancel', False),
    ('parent', '', {'a': 4, 'yy': 9}, 'ok', False),
    ('parent', 'ns1', {'a': 4}, 'ok', False),
    ('parent', 'ns1', {'a': 4}, 'err', True),
    ('items', '', {}, 'ok', False),
    ('items', 'ns1', {}, 'ok', True),
    ('flat', '', {'b': 1}, 'ok', False),
    ('flat', '', {'a': 1, 'root_execution_id': 'bogus'}, 'ok', False),
    ('flat', '', {'a': 1, 'task_execution_id': 'bogus'}, 'ok', False),
]


def run_rows(case, seed=0):
    from oslo_config import cfg
    from mistral.db.v2 import api as db_api
    top, ns, inp, outcome, via_rpc = case
    d = rows_driver(seed)
    if outcome != 'ok':
        d.oracle[('c', None, None)] = {'err': ('err', 'leaf failed'), 'cancel': ('cancel',)}[outcome]
    cfg.CONF.set_override('start_subworkflows_via_rpc', via_rpc, group='engine')
    try:
        inp = dict(inp)
        if inp.get('root_execution_id') == 'OTHER':
            _, other = d.start_workflow('child', {'a': 0}, namespace=ns)
            d.run_schedule(random.Random(1))
            inp['root_execution_id'] = other
        out, wid = d.start_workflow(top, {'d': inp}, namespace=ns)
        d.run_schedule(random.Random(seed))
    finally:
        cfg.CONF.clear_override('start_subworkflows_via_rpc', group='engine')
    rows = []
    with db_api.transaction():
        wfs = {w.id: w for w in db_api.get_workflow_executions()}
        tasks = {t.id: t for t in db_api.get_task_executions()}

        def depth(w):
            n = 0
            while w.task_execution_id and w.task_execution_id in tasks:
                w = wfs[tasks[w.task_execution_id].workflow_execution_id]
                n += 1
            return n

        def top_of(w):
            while w.task_execution_id and w.task_execution_id in tasks:
                w = wfs[tasks[w.task_execution_id].workflow_execution_id]
            return w.id
        for w in wfs.values():
            if top_of(w) != wid:
                continue
            pt = tasks.get(w.task_execution_id)
            rows.append({
                'name': w.workflow_name, 'depth': depth(w), 'state': w.state, 'input': dict(w.input or {}),
                'params': {k: v for k, v in (w.params or {}).items() if k not in ('env',)},
                'root_ok': (w.root_execution_id == wid) if depth(w) else (w.root_execution_id is None),
                'parent_task_ok': (w.params or {}).get('task_execution_id') == w.task_execution_id if depth(w) else True,
                'ns_param': (w.params or {}).get('namespace'), 'index_rc': (w.runtime_context or {}).get('index'),
                'output': w.output, 'parent_task': None if pt is None else {
                    'name': pt.name, 'state': pt.state, 'type': pt.type, 'with_items': 'with_items' in (pt.runtime_context or {}),
                    'published': dict(pt.published or {})},
            })
    rows.sort(key=lambda r: (r['depth'], r['index_rc'] or 0))
    return {'start': out, 'rows': rows, 'entry_errors': [(e['event'], e['type']) for e in d.entry_errors]}


def rows_oracle(ctx, case, res):
    top, ns, inp, outcome, via_rpc = case
    rep = {'kind': 'subwf_rows', 'case': list(case)}
    hit = sorted(k for k in inp if k in ('root_execution_id', 'task_execution_id', 'index', 'namespace'))
    if hit and top != 'items':
        tops = [r for r in res['rows'] if r['depth'] == 0]
        if any(r['depth'] for r in res['rows']) or res['entry_errors'] or not tops or tops[0]['state'] != 'ERROR':
            ctx.fail('subwf:system-param-overridden', 'caller input %r names engine parameters the child does not declare: the call must be '
                     'refused and the calling workflow fail; observed %r, escaped errors %r' % (
                         hit, [(r['name'], r['depth'], r['state'], r['root_ok'], r['ns_param'], r['index_rc']) for r in res['rows']],
                         res['entry_errors']), rep)
        return
    for r in res['rows']:
        if r['depth'] == 0:
            continue
        if not r['root_ok'] or r['ns_param'] != ns:
            over = [k for k in ('root_execution_id', 'namespace') if k in inp]
            sig = 'subwf:system-param-overridden' if over else 'subwf:system-param-wrong'
            ctx.fail(sig, 'descendant %s (depth %d) records root_ok=%s namespace=%r; required the root of the tree and the caller\'s '
                     'namespace %r' % (r['name'], r['depth'], r['root_ok'], r['ns_param'], ns), rep)
        if not r['parent_task_ok']:
            ctx.fail('subwf:system-param-wrong', 'descendant %s is not linked to the task that called it' % r['name'], rep)
        pt = r['parent_task']
        if pt and not pt['with_items']:
            if r['index_rc'] != 0:
                sig = 'subwf:system-param-overridden' if 'index' in inp else 'subwf:system-param-wrong'
                ctx.fail(sig, 'sub-workflow of a plain task has index %r' % r['index_rc'], rep)
            if r['state'] in ('SUCCESS', 'ERROR', 'CANCELLED') and pt['state'] != r['state']:
                ctx.fail('subwf:parent-state-differs', 'sub-workflow %s is %s, its parent task %s is %s' % (r['name'], r['state'], pt['name'], pt['state']), rep)
            if r['state'] == 'SUCCESS' and 'r' in pt['published'] and pt['published']['r'] != r['output']:
                ctx.fail('subwf:parent-result-differs', 'parent task result %r is not the sub-workflow output %r' % (pt['published']['r'], r['output']), rep)
    if top == 'items' and outcome == 'ok':
        kids = [r for r in res['rows'] if r['depth'] == 1]
        if sorted(k['index_rc'] for k in kids) != [0, 1, 2] or any(k['input'].get('a') != k['index_rc'] + 1 for k in kids):
            ctx.fail('subwf:system-param-wrong', 'with-items sub-workflows do not carry their item index: %r' % [(k['index_rc'], k['input']) for k in kids], rep)


def suite_subwf_rows(ctx):
    rng = ctx.rng
    cases = list(ROW_CASES)
    for _ in range(ctx.n(12, 200)):
        inp = {'a': rng.randrange(1, 9)}
        for k in ('b', 'zz', 'yy'):
            if rng.random() < 0.4:
                inp[k] = rng.randrange(1, 9)
        top = rng.choice(['flat', 'parent', 'items'])
        cases.append((top, rng.choice(['', 'ns1']), {} if top == 'items' else inp, rng.choice(['ok', 'ok', 'err', 'cancel']), rng.random() < 0.3))
    exprs, idx = [], []
    for i, c in enumerate(cases):
        top, ns, inp, outcome, via_rpc = c
        if top == 'items' or any(not isinstance(v, int) for v in inp.values()):
            continue
        # the model's view of the first hand-over: declared [a, b], caller values as given
        exprs.append('show_split (param_split ["a"; "b"] %s (sys_params 90 91 0 92 None))' % coq_dict(inp))
        idx.append(i)
    model = {}
    for i, r in zip(idx, core.coq_eval('c09rows', IMPORTS, exprs)):
        m = core.re.match(r'\((true|false),\s*\((.*)\)\)$', r)
        model[i] = parse_two_dicts(m.group(2)) if m.group(1) == 'true' else None
    for i, c in enumerate(cases):
        res = run_rows(c, seed=i)
        ctx.count('subwf_rows', json.dumps(c, sort_keys=True))
        ctx.cov['traces_validated_against_impl'] += 1
        ctx.cov['disagreements_checked'] += 1
        rows_oracle(ctx, c, res)
        if i in model:
            kid = next((r for r in res['rows'] if r['depth'] == 1), None)
            if model[i] is None:
                if kid is not None:
                    ctx.disagree('subwf_rows', list(c), 'refused', 'child started: %r' % (kid['params'],))
                continue
            minp, mpar = model[i]
            if kid is None:
                if 'a' in c[2]:
                    ctx.disagree('subwf_rows', list(c), 'a child execution', 'none created: %r' % (res['entry_errors'],))
                continue
            iinp = {k: v for k, v in kid['input'].items() if not (k == 'b' and 'b' not in c[2])}
            ipar = {k: v for k, v in kid['params'].items() if k not in SYS or k in c[2]}
            mpar = {k: v for k, v in mpar.items() if k not in SYS or k in c[2]}
            if (iinp, ipar) != (minp, mpar):
                ctx.disagree('subwf_rows', list(c), [minp, mpar], [iinp, ipar])
    ctx.sample({'suite': 'subwf_rows', 'case': list(cases[4])})


# ---------------------------------------------------------------------------
# the environment every expression of an execution tree is evaluated against (Model/EnvTree.v, Gen/EnvSites.v)

ENV_IMPORTS = ['Gen.EnvSites', 'Model.EnvTree']

ENV_ACTIONS = """
version: '2.0'
env_adhoc:
  base: verif.act
  base-input:
    tag: adhoc
    value: <% env() %>
env_adhoc_j:
  base: verif.act
  base-input:
    tag: adhoc_j
    value: "{{ env() }}"
"""

_ENV_WF_SITES = """
  vars:
    s_vars_y: <% env() %>
    s_vars_j: "{{ env() }}"
  output:
    s_output_y: <% env() %>
    s_output_j: "{{ env() }}"
  output-on-error:
    s_outerr_y: <% env() %>
    s_outerr_j: "{{ env() }}"
"""
_ENV_COND = """
      on-success:
        - t_yes: <% env().get(tok) = 'ROOT' %>
        - t_no: <% env().get(tok) != 'ROOT' %>
"""
_ENV_ECOND = """
      on-error:
        - t_eyes: "{{ env().get('tok') == 'ROOT' }}"
        - t_eno: "{{ env().get('tok') != 'ROOT' }}"
"""
_ENV_PUB = """
      publish:
        s_publish_y: <% env() %>
        s_publish_j: "{{ env() }}"
      publish-on-error:
        s_puberr_y: <% env() %>
        s_puberr_j: "{{ env() }}"
"""
_ENV_TAIL = """
    t_yes:
      action: verif.act
      input:
        tag: "yes"
        value: "{{ env() }}"
      target: <% env().get(tgt) %>
      wait-before: <% env().get(wb) %>
      timeout: <% env().get(to) %>
      on-success: NEXT
    t_no:
      action: verif.act tag="no"
      on-success: NEXT
    t_adhoc:
      action: env_adhoc
      on-success: t_adhoc_j
    t_adhoc_j:
      action: env_adhoc_j
    t_eyes:
      action: verif.act tag="eyes"
      on-success: fail
    t_eno:
      action: verif.act tag="eno"
      on-success: fail
"""
ENV_MID = {'tok': 'MID', 'items': [7, 8, 9], 'wb': 0, 'tgt': 'midtgt', 'region': 'mid', 'to': 99, 'rc': 3}


def _env_caller(name, withitems, passenv):
    s = name + ':\n  input: [chain, {dflt: "<% env() %>"}]' + _ENV_WF_SITES + '  tasks:\n'
    s += '    t_act:\n      action: verif.act tag="act" value=<% env() %>' + _ENV_PUB + _ENV_COND
    s += _ENV_TAIL.replace('NEXT', 't_call')
    s += '    t_call:\n'
    if withitems:
        s += '      with-items: i in <% env().get(items) %>\n'
    s += '      workflow: <% $.chain[0] %>\n      input:\n        chain: <% $.chain.skip(1) %>\n'
    if passenv:
        s += '        env: %s\n' % json.dumps(ENV_MID)
    s += _ENV_PUB.replace('s_pub', 's_call_pub') + _ENV_ECOND
    s += '      on-success: t_adhoc\n'
    return s


def _env_leaf():
    s = 'envL:\n  input: [chain, {dflt: "<% env() %>"}]' + _ENV_WF_SITES + '  tasks:\n'
    s += '    t_act:\n      action: verif.act tag="boom" value=<% env() %>\n      retry:\n        count: <% env().get(rc) %>\n        delay: 0'
    s += _ENV_PUB + _ENV_COND + _ENV_ECOND
    s += _ENV_TAIL.replace('NEXT', 't_adhoc')
    return s


# P: plain caller, W: with-items caller (one child per item of env().items), E: plain caller that hands the
# child an environment of its own (input key `env`, not declared by the child), L: leaf
WF_ENV = "version: '2.0'\n" + _env_caller('envP', False, False) + _env_caller('envW', True, False) + \
    _env_caller('envE', False, True) + _env_leaf()

# observation -> the translated site (Gen/EnvSites.v site_name) that builds the context of that expression
ENV_OBS_SITE = {
    'vars': 'data_flow.add_workflow_variables_to_context',
    'output': 'data_flow.evaluate_workflow_output', 'outerr': 'data_flow.evaluate_workflow_output',
    'publish': 'data_flow.publish_variables', 'puberr': 'data_flow.publish_variables',
    'call_publish': 'data_flow.publish_variables', 'call_puberr': 'data_flow.publish_variables',
    'input': 'tasks.Task.get_expression_context', 'with_items': 'tasks.Task.get_expression_context',
    'wait_before': 'tasks.Task.get_expression_context', 'retry': 'tasks.Task.get_expression_context',
    'timeout': '@use:tasks.RegularTask._get_timeout:',     # the site the translated env_uses names for that caller
    'target': 'tasks.RegularTask._get_target',
    'cond': 'direct_workflow.DirectWorkflowController._find_next_tasks',
    'adhoc': 'actions.RegularAction.schedule',
}
MISSING = '<no value: not evaluated or evaluation failed>'
_ENV_SIGS = set()


def env_obs_site(obs, uses=()):
    base = obs[:-2] if obs.endswith(('_y', '_j')) else obs
    site = ENV_OBS_SITE[base]
    if site.startswith('@use:'):
        hits = sorted({s for u, s in uses if u.startswith(site[5:])})
        return hits[0] if len(hits) == 1 else 'no single use %s in env_uses: %r' % (site[5:], hits)
    return site


def env_project(obs, env):
    """what the observable of `obs` is when env() yields `env` there (None: env() is null)"""
    base = obs[:-2] if obs.endswith(('_y', '_j')) else obs
    if base in ('cond', 'with_items', 'wait_before', 'target', 'timeout', 'retry'):
        if env is None:
            return MISSING            # .get on null fails the expression
        if base == 'cond':
            return env.get('tok') == 'ROOT'
        if base == 'with_items':
            return len(env['items']) if isinstance(env.get('items'), list) else MISSING
        if base == 'wait_before':
            return bool(env['wb']) if isinstance(env.get('wb'), int) else MISSING
        if base == 'timeout':        # the timeout the task hands to the executor with the action
            return env['to'] if isinstance(env.get('to'), int) else MISSING
        if base == 'retry':          # attempts of the failing leaf action = 1 + retry count
            return 1 + env['rc'] if isinstance(env.get('rc'), int) else MISSING
        return env.get('tgt')
    return env


def env_expected_obs(kind, outcome):
    obs = ['vars_y', 'vars_j', 'input_y']
    if kind == 'L' and outcome == 'err':
        return obs + ['retry', 'puberr_y', 'puberr_j', 'cond_j', 'outerr_y', 'outerr_j']
    obs += ['publish_y', 'publish_j', 'cond_y', 'timeout', 'wait_before', 'input_j', 'target']
    if kind == 'W':
        obs.append('with_items')
    if outcome == 'ok':
        if kind != 'L':
            obs += ['call_publish_y', 'call_publish_j']
        return obs + ['adhoc_y', 'adhoc_j', 'output_y', 'output_j']
    return obs + ['call_puberr_y', 'call_puberr_j', 'cond_j', 'outerr_y', 'outerr_j']


def env_driver(seed):
    """The engine with the WF_ENV definitions and the two ad-hoc actions present (created once)."""
    d = driver()
    if not _DRV.get('env_defs'):
        from mistral.services import adhoc_actions
        d.reset(0)
        _DRV['rows_defs'] = False
        adhoc_actions.create_actions(ENV_ACTIONS)
        d.create_workflows(WF_ENV)
        _DRV['env_defs'] = True
    soft_reset(d, seed)
    return d


def run_env(case, seed=0):
    """case: chain (list of 'P'/'W'/'E', the callers from the root down; a leaf is appended), env (dict: the
    root's environment), outcome ('ok' / 'err': the leaf action fails), via_rpc, env_by_name.
    Returns the executions of the tree with what env() evaluated to at every expression site."""
    from oslo_config import cfg
    from mistral.db.v2 import api as db_api
    d = env_driver(seed)
    if case['outcome'] == 'err':
        d.oracle[('boom', None, None)] = ('err', 'leaf failed')
    names = ['env' + k for k in case['chain']] + ['envL']
    targets, timeouts = {}, {}
    orig = d.add_pending

    def rec(kind, payload):
        if kind == 'exec':
            targets[payload['action_ex_id']] = payload['target']
            timeouts[payload['action_ex_id']] = payload['timeout']
        return orig(kind, payload)
    d.add_pending = rec
    cfg.CONF.set_override('start_subworkflows_via_rpc', bool(case.get('via_rpc')), group='engine')
    try:
        env_param = case['env']
        if case.get('env_by_name'):
            with db_api.transaction():
                db_api.delete_environments()
                db_api.create_environment({'name': 'c09env', 'variables': case['env'], 'scope': 'private'})
            env_param = 'c09env'
        out, wid = d.start_workflow(names[0], {'chain': names[1:]}, env=env_param)
        d.run_schedule(random.Random(seed))
    finally:
        cfg.CONF.clear_override('start_subworkflows_via_rpc', group='engine')
        del d.add_pending
    execs = []
    with db_api.transaction():
        wfs = {w.id: w for w in db_api.get_workflow_executions()}
        tasks = {t.id: t for t in db_api.get_task_executions()}
        acts = {}
        for a in db_api.get_action_executions():
            acts.setdefault(a.task_execution_id, []).append(a)

        def parent(w):
            t = tasks.get(w.task_execution_id)
            return wfs.get(t.workflow_execution_id) if t is not None else None

        def chain_up(w):
            res = []
            while w is not None:
                res.append(w)
                w = parent(w)
            return res[::-1]
        for w in wfs.values():
            up = chain_up(w)
            depth = len(up) - 1
            by_name = {}
            for t in tasks.values():
                if t.workflow_execution_id == w.id:
                    by_name.setdefault(t.name, []).append(t)
            obs = {}

            def one(name):
                ts = by_name.get(name, [])
                return ts[0] if len(ts) == 1 else None

            def act_of(t, field):
                al = acts.get(t.id, []) if t is not None else []
                if not al or (len(al) != 1 and field != 'input'):
                    return MISSING
                if field == 'input':
                    return (al[0].input or {}).get('value', MISSING)
                if field == 'result':
                    return (al[0].output or {}).get('result', MISSING)
                if field == 'timeout':
                    return timeouts.get(al[0].id, MISSING)
                return targets.get(al[0].id, MISSING)
            for lang in ('y', 'j'):
                obs['vars_' + lang] = (w.context or {}).get('s_vars_' + lang, MISSING)
                if w.state == 'SUCCESS':
                    obs['output_' + lang] = (w.output or {}).get('s_output_' + lang, MISSING)
                if w.state == 'ERROR':
                    obs['outerr_' + lang] = (w.output or {}).get('s_outerr_' + lang, MISSING)
            t_act, t_yes, t_no, t_call = one('t_act'), one('t_yes'), one('t_no'), one('t_call')
            obs['input_y'] = act_of(t_act, 'input')
            for t, pre in ((t_act, ''), (t_call, 'call_')):
                if t is not None and t.state in ('SUCCESS', 'ERROR'):
                    for lang in ('y', 'j'):
                        key = 's_%s%s_%s' % (pre, 'publish' if t.state == 'SUCCESS' else 'puberr', lang)
                        obs['%s%s_%s' % (pre, 'publish' if t.state == 'SUCCESS' else 'puberr', lang)] = \
                            (t.published or {}).get(key, MISSING)
            if t_act is not None and t_act.state == 'SUCCESS' and ((t_yes is None) != (t_no is None)):
                obs['cond_y'] = t_yes is not None
            failed = [t for t in (t_act, t_call) if t is not None and t.state == 'ERROR']
            if failed and (('t_eyes' in by_name) != ('t_eno' in by_name)):
                obs['cond_j'] = 't_eyes' in by_name
            if t_yes is not None and t_yes.state == 'SUCCESS':
                obs['input_j'] = act_of(t_yes, 'input')
                obs['target'] = act_of(t_yes, 'target')
                obs['timeout'] = act_of(t_yes, 'timeout')
                obs['wait_before'] = 'wait_before_policy' in (t_yes.runtime_context or {})
            if w.workflow_name == 'envL' and t_act is not None and t_act.state == 'ERROR':
                obs['retry'] = len(acts.get(t_act.id, []))
            if t_call is not None and 'with_items' in (t_call.runtime_context or {}):
                obs['with_items'] = (t_call.runtime_context['with_items'] or {}).get('count', MISSING)
            for nm, key in (('t_adhoc', 'adhoc_y'), ('t_adhoc_j', 'adhoc_j')):
                t = one(nm)
                if t is not None and t.state == 'SUCCESS':
                    obs[key] = act_of(t, 'result')
            execs.append({
                'name': w.workflow_name, 'kind': w.workflow_name[3:], 'depth': depth, 'state': w.state,
                'state_info': (w.state_info or '')[:300],
                'in_tree': up[0].id == wid, 'root_ok': (w.root_execution_id == wid) if depth else (w.root_execution_id is None),
                'path': [(x.runtime_context or {}).get('index', 0) for x in up[1:]],
                'owns': [dict((x.params or {}).get('env') or {}) for x in up[1:]],
                'obs': obs,
                'task_errors': sorted((t.name, (t.state_info or '')[:200]) for ts in by_name.values() for t in ts
                                      if t.state == 'ERROR' and t.name != 't_call')})
    execs = [e for e in execs if e['in_tree']]
    execs.sort(key=lambda e: (e['depth'], e['path']))
    return {'start': out, 'execs': execs, 'entry_errors': [(e['event'], e['type']) for e in d.entry_errors]}


def env_oracle(ctx, case, res):
    """The property text on the real engine: at every depth every expression sees the ROOT execution's environment
    (also below a caller that handed its child an environment of its own); every descendant records the root."""
    rep = {'kind': 'env_tree', 'case': case}
    root_env = case['env']
    kinds = list(case['chain']) + ['L']
    if res['start'] != 'ok' or res['entry_errors']:
        ctx.fail('env:run-failed', 'the tree could not be run: start=%s escaped=%r' % (res['start'], res['entry_errors']), rep)
        return
    want = 1
    before = len(ctx.failures)
    for depth, kind in enumerate(kinds):
        level = [e for e in res['execs'] if e['depth'] == depth]
        for e in level:
            if e['kind'] != kind:
                ctx.fail('env:run-failed', 'execution %s at depth %d, expected env%s' % (e['name'], depth, kind), rep)
                continue
            if not e['root_ok']:
                ctx.fail('subwf:system-param-wrong', 'descendant %s (depth %d) does not record the root of the tree' % (e['name'], depth), rep)
            for o in env_expected_obs(kind, case['outcome']):
                got = e['obs'].get(o, MISSING)
                exp = env_project(o, root_env)
                if got != exp:
                    sig = 'env:site-not-root-env:%s:%d' % (o[:-2] if o.endswith(('_y', '_j')) else o, depth)
                    if sig not in _ENV_SIGS and len(_ENV_SIGS) >= 6:
                        continue          # a handful of distinct failing sites is enough for one report
                    _ENV_SIGS.add(sig)
                    ctx.fail(sig,
                             '%s of %s at depth %d (path %r, own params env %r) saw %r; the root execution\'s environment gives %r '
                             '[execution %s %s; failed tasks %r]' % (
                                 o, e['name'], depth, e['path'], e['owns'][-1] if e['owns'] else None, got, exp,
                                 e['state'], e['state_info'][:150], e['task_errors'][:2]), rep)
                    if got == MISSING:
                        break             # what follows in this execution did not run: knock-on, not a site of its own
        if len(level) != want and len(ctx.failures) == before:
            ctx.fail('env:site-not-root-env:tree:%d' % depth, '%d executions at depth %d, the root environment (items %r) requires %d' % (
                len(level), depth, root_env.get('items'), want), rep)
        if kind == 'W':
            want *= len(root_env['items'])


def env_enc(v):
    return json.dumps(v, sort_keys=True, separators=(',', ':')).replace('"', "'")


def env_dec(s):
    return json.loads(s.replace("'", '"'))


def coq_env(env):
    return coq_list(['(%s, %s)' % (coq_str(k), coq_str(env_enc(env[k]))) for k in sorted(env)]) if env else '[]'


def parse_seen_all(text):
    out = {}
    for name, val in core.re.findall(r'\("([^"]*)",\s*"([^"]*)"\)', text):
        if val == 'NONE':
            out[name] = None
        else:
            assert val.startswith('ENV:'), val
            out[name] = {kv.split('=', 1)[0]: env_dec(kv.split('=', 1)[1]) for kv in val[4:].split(';') if kv}
    return out


ENV_KEYS = ['region', 'n', 'cfg', 'zone', 'a_b', 'items2']
ENV_VALS = ['eu', 'us-east', 0, 1, 42, [1, 2], [], {'k': 'v'}, {'deep': {'x': [1, {'y': 2}]}}, 'ROOT', 'MID', True, None]


def gen_env_case(rng, depth=None):
    depth = rng.choice([0, 1, 1, 2, 2, 3, 3]) if depth is None else depth
    env = {'tok': 'ROOT', 'items': rng.choice([[1], [1, 2], [5, 6], [3]]), 'wb': rng.choice([0, 0, 1]),
           'tgt': rng.choice(['roottgt', 'grp-a', 'x1']), 'to': rng.choice([30, 60, 600]), 'rc': rng.choice([0, 1, 1, 2])}
    for k in rng.sample(ENV_KEYS, rng.randrange(0, 4)):
        env[k] = rng.choice(ENV_VALS)
    return {'chain': [rng.choice(['P', 'P', 'W', 'E']) for _ in range(depth)], 'env': env,
            'outcome': rng.choice(['ok', 'ok', 'err']), 'via_rpc': rng.random() < 0.3, 'env_by_name': rng.random() < 0.15}


def env_corpus():
    import os
    p = os.path.join(core.VERIF, 'corpus', 'C09', 'env_tree.json')
    return [c['case'] for c in json.load(open(p))]


def suite_env_tree(ctx):
    """Real engine runs of generated trees (depth 0-3; plain / with-items / environment-passing callers; in-process and
    via rpc; leaf ok / failing) with env() read at every expression site of every level.  Oracle first (no model), then
    the same observations against Model/EnvTree.v env_seen over the translated Gen/EnvSites.v."""
    rng = ctx.rng
    cases = env_corpus() + [gen_env_case(rng) for _ in range(ctx.n(22, 200))]
    runs, exprs, keys = [], [], {}
    shapes = {}
    for i, c in enumerate(cases):
        res = run_env(c, seed=i)
        ctx.count('env_tree', json.dumps(c, sort_keys=True), nontrivial=bool(c['chain']))
        ctx.cov['traces_validated_against_impl'] += 1
        sk = '%d:%s:%s' % (len(c['chain']), ''.join(c['chain']), c['outcome'])
        shapes[sk] = shapes.get(sk, 0) + 1
        env_oracle(ctx, c, res)
        runs.append(res)
        for e in res['execs']:
            k = json.dumps([c['env'], e['owns']], sort_keys=True)
            if k not in keys:
                keys[k] = len(exprs)
                steps = coq_list(['(%d, %s)' % (j + 1, coq_env(o)) for j, o in enumerate(e['owns'])]) if e['owns'] else '[]'
                exprs.append('seen_all %s %s' % (coq_env(c['env']), steps))
    ctx.cov['suites']['env_tree']['shapes'] = shapes
    ctx.sample({'suite': 'env_tree', 'case': cases[0]})
    try:
        raw = core.coq_eval('c09env', ENV_IMPORTS, exprs + ['env_uses'], chunk=40)
    except core.CoqEvalError as e:
        ctx.obligation('correspondence:env-model-evaluates', False, str(e))
        return
    model = [parse_seen_all(r) for r in raw[:-1]]
    uses = core.re.findall(r'\("([^"]*)",\s*"([^"]*)"\)', raw[-1])
    nobs = 0
    for c, res in zip(cases, runs):
        for e in res['execs']:
            m = model[keys[json.dumps([c['env'], e['owns']], sort_keys=True)]]
            for o, got in sorted(e['obs'].items()):
                site = env_obs_site(o, uses)
                if site not in m:
                    ctx.disagree('env_tree', {'case': c, 'obs': o}, 'site %s is not in the translated list' % site, got)
                    continue
                nobs += 1
                ctx.cov['disagreements_checked'] += 1
                exp = env_project(o, m[site])
                if got != exp:
                    ctx.disagree('env_tree', {'case': c, 'depth': e['depth'], 'path': e['path'], 'obs': o, 'site': site}, exp, got)
    ctx.count('env_tree_obs', None, evaluations=nobs)
    ctx.cov['suites']['env_tree']['observations_vs_model'] = nobs


def engine_traces(ctx):
    """Real engine, oracle only (the core engine model has no sub-workflows): parent task mirrors child,
    root id, quiescent => final, no lost post-commit operation; plain and with-items callers, pause/resume."""
    from harness import engine_explore as ee
    ee.explore(ctx, ['C09', 'C01'], ['subwf'], ctx.n(24, 240), 4, suite='engine_explore_C09')


def suite_lost_handoff(ctx):
    """"The parent continues exactly once per sub-workflow completion", also when the hand-off message of a finished child
    is lost (engine crash between the commit and the post-commit operation, transport loss): the periodic integrity check
    completes the parent task from the child's result - once.  The integrity scenarios of the C20 suite (real engine
    driver, tasks whose executions - actions and sub-workflows - finished without the completion being delivered, all
    check delays / batch sizes / both schedulers) run here with their oracle and their model correspondence."""
    from harness.suites import C20
    keys = ['%s/c09-handoff/%d' % (ctx.seed, i) for i in range(ctx.n(48, 480))]
    per_suite = C20.run_jobs(ctx, [('integrity', {'keys': c}) for c in C20.chunks(keys, core.NPROC)])
    C20.evaluate(ctx, per_suite)


def run(ctx):
    import time
    ctx.cov['rule'] = ('rstrip/resolve: seeded names over a small alphabet incl. dots, workbook-qualified / standalone / malformed '
                       'parents, 2 namespaces, definitions in a real DB; param split: seeded dictionaries over a key pool that '
                       'contains the system param names, declared lists, root present/absent, notify, index, rpc/in-process, on the '
                       'real WorkflowAction.schedule; rows: real engine runs (flat, 3-deep, with-items; namespaces; leaf ok/err/cancel); '
                       'env_tree: corpus + seeded trees of depth 0-3 over caller kinds P/W/E, seeded root environments (fixed keys tok / '
                       'items / wb / tgt + random keys with scalar, list, nested values), leaf ok/err, rpc, environment by name; '
                       'distinct = distinct (suite, input)')
    # suite_lost_handoff first: its workers are forked, which is only safe while this process has not booted mistral
    for s in (suite_lost_handoff, suite_subwf_rows, suite_env_tree, suite_param_split, suite_rstrip, suite_resolve, suite_result_to_parent,
              engine_traces):
        t0 = time.time()
        s(ctx)
        ctx.cov['suites'].setdefault(s.__name__, {})['wall_s'] = round(time.time() - t0, 1)
    ctx.assumptions += ['values are only copied by the code under test (numbers stand for ids / namespaces in the schedule correspondence)',
                        'workbook workflow names follow the workbook grammar [\\w-]+ (validation_mode default: mandatory)']


def search(ctx):
    rng = ctx.rng
    for i, c in enumerate(env_corpus() + [gen_env_case(rng, depth=dp) for dp in (1, 2, 3) for _ in range(10)]):
        env_oracle(ctx, c, run_env(c, seed=i))
    for c in SPLIT_CORPUS + [gen_split_case(rng) for _ in range(5000)]:
        split_oracle(ctx, c, real_schedule(c))
    for i, c in enumerate(ROW_CASES):
        rows_oracle(ctx, c, run_rows(c, seed=i))
    for s, i in [(s, i) for s in ('SUCCESS', 'ERROR', 'CANCELLED') for i in (None, 'm')]:
        want = {'SUCCESS': 'stored', 'ERROR': 'error', 'CANCELLED': 'cancel'}[s]
        impl = real_send_result(s, i)
        if impl != want:
            ctx.fail('subwf:wrong-result-class', 'a %s sub-workflow hands %r to its parent, required %r' % (s, impl, want),
                     {'kind': 'result_to_parent', 'state': s, 'state_info': i})
    d = driver()
    d.reset(0)
    for _ in range(60):
        defs = gen_db(rng)
        populate(defs)
        for _ in range(40):
            q = gen_query(rng)
            if q[4] != 'dotted':
                impl, exp = real_resolve(q), expected_resolve(defs, q)
                if impl != exp:
                    ctx.fail('resolve:wrong-definition', 'resolve_workflow_definition%r finds %r, required %r' % (q[:4], impl, exp),
                             {'kind': 'resolve', 'definitions': defs, 'query': q})
    populate([])


def replay(obj):
    r = obj.get('replay', {})
    kind = r.get('kind')
    if r.get('suite') == 'integrity' or (isinstance(r.get('key'), str) and '/c09-handoff/' in r.get('key', '')):
        from harness.suites import C20          # lost hand-off scenarios are run by the integrity harness of C20
        return C20.replay(obj)
    ctx = core.Ctx('C09', 'quick', 0)
    if kind == 'subwf_rows':
        c = r['case']
        c = (c[0], c[1], c[2], c[3], c[4])
        res = run_rows(c)
        for row in res['rows']:
            print(json.dumps({k: row[k] for k in ('name', 'depth', 'state', 'input', 'params', 'root_ok', 'ns_param', 'index_rc')}, default=str))
        print('entry errors: %r' % (res['entry_errors'],))
        rows_oracle(ctx, c, res)
    elif kind == 'env_tree':
        c = r['case']
        res = run_env(c)
        print('root environment: %s' % json.dumps(c['env'], sort_keys=True))
        for e in res['execs']:
            print('depth %d %s path=%r state=%s own params env=%s' % (e['depth'], e['name'], e['path'], e['state'],
                                                                      json.dumps(e['owns'][-1] if e['owns'] else c['env'], sort_keys=True)))
            for o, v in sorted(e['obs'].items()):
                ok = v == env_project(o, c['env'])
                print('    %-16s %s %s' % (o, 'root-env' if ok else 'NOT-ROOT-ENV', '' if ok else json.dumps(v, sort_keys=True, default=str)))
        print('entry errors: %r' % (res['entry_errors'],))
        env_oracle(ctx, c, res)
    elif kind == 'param_split':
        c = r['case']
        st = real_schedule(c)
        print('WorkflowAction.schedule(%r) -> %s' % (c, 'refused (InputException)' if not st else 'child started with input=%r params=%r' % (st[0][0], st[0][1])))
        split_oracle(ctx, c, st)
    elif kind == 'resolve':
        driver().reset(0)
        defs = [tuple(x) for x in r['definitions']]
        populate(defs)
        q = tuple(r['query'])
        impl, exp = real_resolve(q), expected_resolve(defs, q)
        print('definitions %r; resolve%r -> %r, required %r' % (defs, q[:4], impl, exp))
        if impl != exp:
            ctx.fail('resolve', 'wrong definition', r)
    elif kind == 'result_to_parent':
        impl = real_send_result(r['state'], r['state_info'])
        print('%s sub-workflow hands over: %s' % (r['state'], impl))
        if impl != {'SUCCESS': 'stored', 'ERROR': 'error', 'CANCELLED': 'cancel'}.get(r['state']):
            ctx.fail('class', 'wrong class', r)
    else:
        print(json.dumps(obj, indent=1)[:3000])
        return 1
    for f in ctx.failures:
        print('FAIL %s: %s' % (f['signature'], f['what']))
    return 1 if ctx.failures else 0
