"""C03 - engine-level check: Coq theorems over coq/Model/Engine.v (Properties/C03.v), trace
correspondence between the model and the REAL engine driven by harness/engine_driver.py, and the
implementation-side oracles of harness/engine_trace.py (Observer) restricted to this property.

Self-test (scratch worktrees, VERIF_REPO): reverting any of the engine fix commits recorded in
known_findings.json makes this or a sibling engine check report a VIOLATION (see DESIGN.md appendix).
"""
from harness import engine_trace as et

GEN = ['States', 'WfGuards']
PROPS = ['C03'] + []

MANIFEST = {
    'level_text': 'Coq theorems for every program, uid oracle, state, event and event list: each workflow state change is an edge of the table translated from states.py, only documented moves occur in reachable states (IDLE->ERROR/CANCELLED unreachable), SUCCESS is never left, ERROR/CANCELLED are left only by rerun/skip, an action result is accepted at most once, a finished workflow is not altered by late results/timers/duplicates; tied to the code by the states.py translator, trace correspondence with operator commands and duplicates injected at random positions, and an oracle on every individual compare-and-swap logged from the DB layer. "a task that reached SUCCESS never changes state again" is checked by the oracle only (joins inside cycles re-use their row by design).',
    'level_note': 'Model = control-flow core of the engine (one direct-workflow execution, action tasks, joins all/one/N, on-success/on-error/on-complete with guards whose value is part of the program, engine commands fail/succeed/pause/noop, operator pause/resume/stop/rerun/skip, duplicate deliveries). One event = one committed transaction (tx_lock); data flow, policies, with-items and sub-workflows are outside this model (component models / oracles). Trusted: the harness interception points (rpc client, executor, post_tx_queue threads, scheduler rows, clock, uuid source), view abstraction, Gen/States translator.',
    'technique': 'Coq induction over event lists + states.py translator + trace correspondence + CAS-level oracle',
    'design_ref': '6 C03, 4, 5',
    'engine': 'coq+engine-harness',
}


def run(ctx):
    ctx.cov['rule'] = ('programs: seeded generator of direct workflows (1-6 tasks, forks, joins all/one/N, guards true/false/raising in '
                       'YAQL or Jinja, engine commands, 20% with cycles), outcome oracle per task attempt; schedules: seeded random walks over the '
                       'enabled events of the real engine with injection profiles [operator, operator, dup, stop] (both scheduler types); '
                       'distinct = distinct (program, event list); non-trivial = at least 6 events')
    et.trace_suite(ctx, ['C03'], ['operator', 'operator', 'dup', 'stop'], 220, 3000, suite='engine_trace_C03')
    # sub-workflows, with-items, policies, data flow (real engine, oracle only): a finished workflow execution - root or
    # sub-workflow - keeps its state and output whatever is delivered afterwards (keep-result: false on the calling task,
    # late results, the parent's own completion, pauses and cache evictions in between)
    from harness import engine_explore as ee
    ee.explore(ctx, ['C03'], ee.FEATURES + ['subwf', 'defaults'], ctx.n(32, 320), 3, suite='engine_explore_C03')


def search(ctx):
    """wider oracle search on the real engine (no model involved)"""
    import random
    rng = random.Random('search/C03/%d' % ctx.seed)
    jobs = []
    for i in range(1500):
        prof = ['operator', 'operator', 'dup', 'stop'][i % 4]
        prog = et.gen_program(rng, max_tasks=6, allow_cycles=(rng.random() < 0.2))
        jobs.append({'tasks': prog.tasks, 'seed': 7000003 + i, 'inject': et.PROFILES[prof], 'max_events': 160})
    for t in et.run_jobs(jobs):
        for f in t.failures:
            if f['property'] in PROPS:
                ctx.fail(f['signature'], f['what'], dict(t.to_json(), events=t.labels[:f['at_event'] + 1], kind='engine-trace'))


def replay(obj):
    return et.replay_case(obj)
