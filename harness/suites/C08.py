"""C08 - task policies bound and shape execution as documented.

Ties Model/Policy.v to the real policy code (nothing of it is re-implemented here):
  validate        TaskPolicy._validate of every policy class on a pool of evaluated values  vs  int_ok / bool_ok
                  (+ Python truthiness / int() vs truthy / as_N)
  build           policies.build_policies on parsed task / task-defaults specs               vs  build
  retry_decision  RetryPolicy.after_task_complete on a real RegularTask over a fake row,
                  exhaustive over count, retry_no, task state, continue-on / break-on
                  presence and truth, delay, join                                              vs  retry_view (h_retry_after)
  traces          a whole task life: the REAL task_handler.run_task / _on_action_complete /
                  continue_task / complete_task, tasks.RegularTask (complete, set_state,
                  _run_new, _run_existing, _reset_actions), every policy class and the real
                  job functions policies._continue_task / _complete_task /
                  _fail_task_if_incomplete run over fake DB rows, a recording scheduler, a
                  recording dispatcher and a virtual clock, under generated schedules
                  (action results, job firings in every order, clock ticks, resume)           vs  trace (build t d) init evs
Oracle (no model): the property text stated on the recorded rows - attempts <= count+1, no
attempt after a final outcome, verdict = last attempt, delays kept (never early), wait-before /
wait-after postpone and dispatch follow-ups exactly once, timeout both firing orders, fail-on,
pause-before, ill-typed evaluated values give the declared error and nothing escapes.

Findings. Fixed by /repo 5a4083bf (state guards in _continue_task / _complete_task, running action executions are
abandoned when the timer fails the task): a continue / wait-after job acting on a task that is not DELAYED any more
(completed task revived, on-error dispatched twice, task SUCCESS while attempt 2 runs) and the late result of a
timed-out attempt deciding the task; their witnesses are regression cases of CORPUS and Properties/C08.v now.
OPEN (known_findings.json; witnesses = first three CORPUS traces and the *_refuted theorems):
  stale-wait-after-job   after the timer failed a task during its wait-after delay and the retry policy delayed it again,
                         the wait-after job still finds it DELAYED and completes it with the pre-timeout result
  stale-continue-job     after the timer failed a task during its retry / wait-before delay and retry / wait-after delayed
                         it again, the older continue job still finds it DELAYED and starts the next attempt (a retry is
                         consumed without an attempt; with wait-before + wait-after the timeout is undone)
Both need a timeout shorter than the other delay and a second delay in flight; the signatures are raised only when a
delayed job acts on a task that IS DELAYED but was changed since the job was scheduled.
Once such a root cause acted in a trace the rest of that trace is not judged (consequences of the same defect).
Observations that are NOT reported as violations: wait-after is served only after the first completion of a retried task;
wait-before is dropped when pause-before pauses first (the unit suite expects that); after a timeout-triggered retry no
timer is armed for the new attempts; FailOnPolicy._schema names "fail-on" while the field is fail_on, so a non-boolean
evaluated value is never rejected and is used by truthiness; a literal 0 / false at task level cannot switch a
task-default off; RegularTask._get_timeout raises TypeError on an ill-typed evaluated timeout (not reachable any more: the
policy validation force-fails the task first and the continue job of a failed task is ignored); `del policy_ctx['retry_no']` in RetryPolicy is never persisted (nested dict of a MutableDict column,
no touch_runtime_context()): retry_no never decreases, which the proof of the attempt bound uses.

Self-test (run before the fix 5a4083bf; scratch worktree, VERIF_REPO=/tmp/wt_C08_mut ./check C08; "new" = signatures the unchanged tree does not give;
every one also breaks the correspondence):
  M1  RetryPolicy `retries_remain = retry_no <= self.count`             new: attempts-exceed-count+1, attempt-after-final-outcome
  M2  RetryPolicy break_triggered tests `states.SUCCESS`                new: retry-not-continued, final-state-differs-from-last-outcome
  M3  WaitAfterPolicy job scheduled with `'state': states.SUCCESS`      new: wait-after-not-applied, success-without-successful-last-attempt
  M4  _fail_task_if_incomplete condition inverted                       new: timeout-not-applied (+3)
  M5  FailOnPolicy `if task.get_state() != states.ERROR: return`        new: fail-on-task-ends-SUCCESS (+3)
  M6  TaskPolicy._validate swallows the schema error                    new: ill-typed-value-accepted, crash:TypeError
  M7  RetryPolicy continue job `run_after=0`                            new: retry-delay-not-kept
  M9  Task.complete: the `RUNNING_DELAYED: return` removed              new: follow-ups-dispatched-twice, wait-after-delay-not-kept
  M10 get_policy_factories: retry before fail-on                        new: retry-not-continued (+2)
  M11 RetryPolicy continue-on test inverted                             new: retry-not-continued (+3)
  M12 construct_policies_list: task-defaults override the task level    new: *-delay-not-kept, attempts-exceed-count+1 (+6)
  M13 RetryPolicy without touch_runtime_context() (retry_no not stored) new: attempts-exceed-count+1 (+2)
  M14 Task.complete: "ignore if already completed" removed              new: completed-task-changed, follow-ups-dispatched-twice (+3)
  M8  WaitBeforePolicy does not set its skip flag                       correspondence only (415 trace disagreements): the
                                                                        flag matters for rerun (C12), no C08 clause fails
"""
import contextlib
import importlib
import json
import math

from harness import core
from harness.core import coq_list, coq_bool

GEN = ['States']

MANIFEST = {
    'level_text': 'Coq theorems over Model/Policy.v (a per-task machine: policies in factory order, scheduler jobs, attempts, '
                  'virtual clock), for ALL policy values, ALL event sequences (action results with any continue-on/break-on '
                  'truth values, job firings in any order, ticks, resume): attempts <= count+1, every non-last attempt was a '
                  '"go on" outcome and the last one not, final state = effective outcome of the last attempt, retry/wait-before/'
                  'wait-after delays kept when no job runs early, follow-ups dispatched exactly once, fail-on never ends SUCCESS, '
                  'pause-before creates no action before resume (timeout off); timeout step theorems for both firing orders from '
                  'ANY state; ill-typed evaluated values give the declared error; plus *_refuted theorems with witnesses for the '
                  'timeout x retry / wait-before / wait-after interplay. Model tied to the code by running the real '
                  'task_handler/tasks/policies code over fake rows against the model after every event.',
    'level_note': 'Trusted/modelled-not-verified: YAQL/Jinja evaluation (truth values and evaluated parameter values are inputs), '
                  'jsonschema, DB rows and CAS replaced by in-memory fakes (single engine, one event = one transaction), '
                  'workflow controller replaced by a stub that maps the final task state to follow-up commands, with-items '
                  'and join tasks outside the machine (join only in the retry decision), rerun outside (C12).',
    'technique': 'Coq proof (phase invariant by induction over event sequences) + differential execution of the real policy code',
    'design_ref': '6 C08',
}

IMPORTS = ['Gen.States', 'Model.Policy']

STATE_CODE = {'IDLE': 1, 'WAITING': 2, 'RUNNING': 3, 'DELAYED': 4, 'PAUSED': 5, 'SUCCESS': 6, 'CANCELLED': 7, 'ERROR': 8,
              'SKIPPED': 9}
COQ_STATE = {'IDLE': 'IDLE', 'WAITING': 'WAITING', 'RUNNING': 'RUNNING', 'DELAYED': 'RUNNING_DELAYED', 'PAUSED': 'PAUSED',
             'SUCCESS': 'SUCCESS', 'CANCELLED': 'CANCELLED', 'ERROR': 'ERROR', 'SKIPPED': 'SKIPPED'}
COMPLETED = ('SUCCESS', 'ERROR', 'CANCELLED', 'SKIPPED')


# ---------------------------------------------------------------------------
# values

def coq_Z(n):
    return '(%d)%%Z' % n


def coq_pval(v):
    if isinstance(v, bool):
        return '(PBool %s)' % coq_bool(v)
    if isinstance(v, int):
        return '(PInt %s)' % coq_Z(v)
    if isinstance(v, float):
        if math.isfinite(v) and v.is_integer():
            return '(PFloat true %s)' % coq_Z(int(v))
        return '(PFloat false %s)' % coq_Z(0)
    if isinstance(v, str):
        return '(PStr %s)' % coq_bool(bool(v))
    if v is None:
        return 'PNull'
    if isinstance(v, (list, dict, tuple)):
        return '(PColl %s)' % coq_bool(bool(v))
    raise ValueError(v)


def nums(s):
    return [int(x) for x in core.re.findall(r'\d+', s)]


def parse_coq(s):
    """Parse a printed Coq value made of nested lists of numerals / booleans into Python lists."""
    toks = core.re.findall(r'\[|\]|\d+|true|false', s)
    pos = [0]

    def item():
        t = toks[pos[0]]
        pos[0] += 1
        if t == '[':
            out = []
            while toks[pos[0]] != ']':
                out.append(item())
            pos[0] += 1
            return out
        if t == 'true':
            return True
        if t == 'false':
            return False
        return int(t)
    return item()


def coq_eval_packed(name, exprs, pack):
    """core.coq_eval with `pack` expressions of one type evaluated as one Coq list (per-statement overhead of coqc
    dominates otherwise); returns the parsed values in order."""
    packed = [coq_list(exprs[i:i + pack]) for i in range(0, len(exprs), pack)]
    out = []
    for r in core.coq_eval(name, IMPORTS, packed, chunk=8):
        if r is None:
            raise core.CoqEvalError('no result for a packed expression of %s' % name)
        out.extend(parse_coq(r))
    return out


VALUE_POOL = [0, 1, 2, 3, 7, 10 ** 12, -1, -5, True, False, '', '1', 'abc', 'true', None, 0.0, -0.0, 1.0, 2.0, 3.0, 1.5, -1.0,
              -2.5, float('inf'), float('nan'), [], [1], {}, {'a': 1}]
INT_GOOD = [0, 1, 2, 3, 5, 2.0, 0.0]
INT_BAD = [-1, True, '2', None, 1.5, [1], 'abc', -3.0]
BOOL_BAD = [0, 1, 'true', '', None, [], 2.0]


# ---------------------------------------------------------------------------
# the rig: real engine code over fake rows

class Obj(object):
    def __init__(self, **kw):
        self.__dict__.update(kw)


class Mods(object):
    _m = None

    @classmethod
    def get(cls):
        if cls._m is None:
            from mistral.db.v2 import api as db_api  # first: circular import otherwise
            from mistral import config  # noqa: registers options
            from mistral.engine import policies, tasks, task_handler, post_tx_queue, dispatcher
            from mistral.engine import workflow_handler as wf_handler
            from mistral.engine import base as engine_base
            from mistral.lang import parser as spec_parser
            from mistral.scheduler import base as sched_base
            from mistral.workflow import base as wf_base
            from mistral.workflow import states
            from mistral import exceptions as exc
            cls._m = Obj(db_api=db_api, policies=policies, tasks=tasks, task_handler=task_handler, post_tx_queue=post_tx_queue,
                         dispatcher=dispatcher, wf_handler=wf_handler, engine_base=engine_base, spec_parser=spec_parser,
                         sched_base=sched_base, wf_base=wf_base, states=states, exc=exc)
        return cls._m


JOB_KIND = {'_continue_task': 1, '_complete_task': 2, '_fail_task_if_incomplete': 3, '_refresh_task_state': 4}


def wf_text(task_pol, dflt_pol, join=False):
    t1 = {'action': 'std.noop', 'on-success': ['ok'], 'on-error': ['err']}
    t1.update(task_pol)
    if join:
        t1['join'] = 'all'
    wf = {'type': 'direct', 'tasks': {'t1': t1, 'ok': {'action': 'std.noop'}, 'err': {'action': 'std.noop'}}}
    if dflt_pol is not None:
        wf['task-defaults'] = dflt_pol
    return json.dumps({'version': '2.0', 'wf': wf})


_SPEC_CACHE = {}


def parse_wf(text):
    m = Mods.get()
    if text not in _SPEC_CACHE:
        if len(_SPEC_CACHE) > 5000:
            _SPEC_CACHE.clear()
        # validate=False: the engine itself instantiates execution specs without validation; full
        # schema validation (1.5 s per workflow) is the subject of C14. The generator only emits
        # schema-valid policy values; suite_build validates a sample with the real PoliciesSpec schema.
        _SPEC_CACHE[text] = m.spec_parser.get_workflow_list_spec_from_yaml(text, validate=False).get_workflows()[0]
    return _SPEC_CACHE[text]


def schema_valid(pol):
    """Does the real PoliciesSpec schema accept this rendered policies dict?"""
    from mistral.lang import base as lang_base
    from mistral.lang.v2 import policies as lang_policies
    m = Mods.get()
    try:
        lang_base.instantiate_spec(lang_policies.PoliciesSpec, dict(pol), True)
        return True
    except m.exc.InvalidModelException:
        return False


def _tracked_dict_cls():
    # the column type of runtime_context is sqlalchemy MutableDict (mistral/db/sqlalchemy/types.py): only
    # top-level mutations mark the row dirty; a transaction that only mutated a nested dict persists nothing.
    # The fake row uses the real MutableDict class for the set of tracked mutators.
    from sqlalchemy.ext.mutable import MutableDict

    class TrackedDict(MutableDict):
        dirty = False

        def changed(self):
            self.dirty = True
    return TrackedDict


class TaskRow(Obj):
    _TD = None

    @property
    def runtime_context(self):
        return self._rc

    @runtime_context.setter
    def runtime_context(self, v):
        if TaskRow._TD is None:
            TaskRow._TD = _tracked_dict_cls()
        self._rc = TaskRow._TD(v or {})
        self._rc.dirty = True

    def begin(self):
        self._snap = json.dumps(self._rc)
        self._rc.dirty = False

    def commit(self):
        """End of the transaction: a dirty column is written (JSON round trip), a clean one is not."""
        dirty = self._rc.dirty
        self._rc = TaskRow._TD(json.loads(json.dumps(self._rc) if dirty else self._snap))
        self._rc.dirty = False


CURRENT = [None]
_INSTALLED = [0]


@contextlib.contextmanager
def installed():
    """Replace the DB / scheduler / dispatcher / controller / action entry points of the engine modules by
    fakes that delegate to the current rig (module attributes only; /repo is not touched)."""
    if _INSTALLED[0]:
        _INSTALLED[0] += 1
        try:
            yield
        finally:
            _INSTALLED[0] -= 1
        return
    from unittest import mock
    m = Mods.get()
    cur = lambda: CURRENT[0]
    nullctx = lambda *a, **k: contextlib.nullcontext()
    with contextlib.ExitStack() as st:
        P = lambda o, n, v: st.enter_context(mock.patch.object(o, n, v))
        P(m.db_api, 'update_task_execution_state', lambda id, cur_state, state: cur()._update_state(id, cur_state, state))
        P(m.db_api, 'named_lock', nullctx)
        P(m.db_api, 'transaction', nullctx)
        P(m.db_api, 'refresh', lambda o: None)
        P(m.db_api, 'load_task_execution', lambda id: cur().task_ex)
        P(m.db_api, 'get_task_execution', lambda id: cur().task_ex)
        P(m.spec_parser, 'get_workflow_spec_by_execution_id', lambda id: cur().wf_spec)
        P(m.wf_base, 'get_controller', lambda wf_ex, wf_spec=None: cur()._controller(wf_ex, wf_spec))
        P(m.dispatcher, 'dispatch_workflow_commands', lambda wf_ex, cmds: cur()._dispatch(wf_ex, cmds))
        P(m.sched_base, 'get_system_scheduler', lambda: cur())
        P(m.wf_handler, 'pause_workflow', lambda wf_ex, msg=None: cur()._pause(wf_ex, msg))
        P(m.wf_handler, 'force_fail_workflow', lambda wf_ex, msg=None: cur()._force_fail(wf_ex, msg))
        P(m.tasks.RegularTask, '_build_action', lambda t: cur()._build_action(t))
        _INSTALLED[0] = 1
        try:
            yield
        finally:
            _INSTALLED[0] = 0


class Rig(object):
    """One task execution row, its workflow row, a clock, a recording scheduler and dispatcher."""

    def __init__(self, text, in_ctx):
        self.m = Mods.get()
        self.wf_spec = parse_wf(text)
        self.task_spec = self.wf_spec.get_tasks()['t1']
        self.wf_ex = Obj(id='wf1', name='wf', state='RUNNING', state_info=None, params={'env': {}}, context={}, input={},
                         workflow_namespace='', workflow_name='wf', workflow_id='wfid', project_id='p', runtime_context={},
                         task_executions=[], task_execution_id=None, root_execution_id=None)
        self.task_ex = TaskRow(id='t1id', name='t1', state='IDLE', state_info=None, in_context=dict(in_ctx),
                           published={}, spec=self.task_spec.to_dict(), workflow_execution=self.wf_ex,
                           workflow_execution_id='wf1', executions=[], processed=False, next_tasks=[], has_next_tasks=False,
                           error_handled=False, started_at=None, finished_at=None, type='ACTION', workflow_name='wf',
                           workflow_namespace='', workflow_id='wfid', project_id='p', unique_key=None, created_at=None,
                           updated_at=None, tags=[])
        self.task_ex.runtime_context = {}
        self.task_ex.action_executions = self.task_ex.executions
        self.wf_ex.task_executions.append(self.task_ex)
        self.now = 0
        self.jobs = []        # dict(at, name, args, run_after, born)
        self.dispatched = []  # (time, task state)
        self.forced = 0
        self.nevent = 0

    # -- fakes ----------------------------------------------------------------
    def _update_state(self, id, cur_state, state):
        if self.task_ex.state != cur_state:
            return None
        self.task_ex.state = state
        return self.task_ex

    def schedule(self, job):
        self.jobs.append({'at': self.now + job.run_after, 'name': job.func_name.rsplit('.', 1)[1], 'path': job.func_name,
                          'args': dict(job.func_args), 'run_after': job.run_after, 'born': self.nevent})

    def has_scheduled_jobs(self, **kw):
        return False

    def _controller(self, wf_ex, wf_spec=None):
        rig = self

        class Ctrl(object):
            def get_task_inbound_context(self, task_spec, triggered_by=None):
                return {}

            def continue_workflow(self, task_ex=None):
                return [Obj(task_spec=Obj(get_name=lambda: {'SUCCESS': 'ok', 'ERROR': 'err'}.get(task_ex.state, 'none')),
                            triggered_by=None, handles_error=(task_ex.state == 'ERROR'), c08_state=task_ex.state)]

            def may_complete_workflow(self, task_ex):
                return False

            def find_indirectly_affected_task_executions(self, name):
                return []

            def get_logical_task_state(self, task_ex):
                return Obj(state='RUNNING', state_info=None, triggered_by=[])
        return Ctrl()

    def _build_action(self, task):
        rig = self

        class Act(object):
            def schedule(self, input_dict, target, index=0, safe_rerun=False, timeout=None):
                rig.task_ex.executions.append(
                    Obj(id='a%d' % len(rig.task_ex.executions), name='std.noop', state='RUNNING', accepted=False, output={},
                        task_execution=rig.task_ex, task_execution_id=rig.task_ex.id, runtime_context={'index': index},
                        started=rig.now))
        return Act()

    def _pause(self, wf_ex, msg=None):
        wf_ex.state = 'PAUSED'

    def _force_fail(self, wf_ex, msg=None):
        wf_ex.state = 'ERROR'
        self.forced += 1

    def _dispatch(self, wf_ex, cmds):
        st = cmds[0].c08_state if cmds else self.task_ex.state
        self.dispatched.append((self.now, st))

    @contextlib.contextmanager
    def patched(self):
        """Make this rig the one the (once installed) fakes delegate to."""
        with installed():
            prev = CURRENT[0]
            CURRENT[0] = self
            try:
                yield
            finally:
                CURRENT[0] = prev

    # -- events ------------------------------------------------------------------
    def _in_queue(self, f):
        return self.m.post_tx_queue.run(f)()

    def apply(self, ev):
        """ev: ['start'] | ['resume'] | ['act', i, state, cont, brk] | ['fire', j] | ['tick', d]"""
        self.nevent += 1
        self.task_ex.begin()
        try:
            self._apply(ev)
        finally:
            self.task_ex.commit()

    def _apply(self, ev):
        th = self.m.task_handler
        k = ev[0]
        if k == 'start':
            self._in_queue(lambda: th.run_task('t1id', None, None, False, False, first_run=True))
        elif k == 'resume':
            if self.wf_ex.state == 'PAUSED':
                self.wf_ex.state = 'RUNNING'
                if self.task_ex.state == 'IDLE':
                    self._in_queue(lambda: th.run_task('t1id', None, None, False, False, first_run=False))
        elif k == 'act':
            _, i, state, cont, brk = ev
            if 0 <= i < len(self.task_ex.executions) and state in ('SUCCESS', 'ERROR', 'CANCELLED'):
                a = self.task_ex.executions[i]
                if a.state == 'RUNNING':
                    a.state = state
                    a.accepted = True
                    a.output = {'result': 'fine' if state == 'SUCCESS' else 'boom'}
                    self.task_ex.in_context['cont'] = cont
                    self.task_ex.in_context['brk'] = brk
                    self._in_queue(lambda: th._on_action_complete(a))
        elif k == 'fire':
            j = ev[1]
            if 0 <= j < len(self.jobs):
                job = self.jobs.pop(j)
                mod, name = job['path'].rsplit('.', 1)
                getattr(importlib.import_module(mod), name)(**job['args'])
        elif k == 'tick':
            self.now += ev[1]

    # -- views ---------------------------------------------------------------------
    @staticmethod
    def info_code(info):
        if info is None:
            return 0
        return 1 if 'timed out' in str(info).lower() else 2

    def snap(self):
        t = self.task_ex
        rc = t.runtime_context or {}
        return {
            'state': t.state, 'info': t.state_info,
            'rno': (rc.get('retry_task_policy') or {}).get('retry_no'),
            'wbskip': bool((rc.get('wait_before_policy') or {}).get('skip')),
            'waskip': bool((rc.get('wait_after_policy') or {}).get('skip')),
            'conc': rc.get('concurrency'), 'proc': bool(t.processed), 'wf': self.wf_ex.state, 'now': self.now,
            'jobs': [dict(j) for j in self.jobs],
            'acts': [(a.state, bool(a.accepted), a.started) for a in t.executions],
            'disp': list(self.dispatched), 'forced': self.forced,
        }


def flat_view(s):
    out = [STATE_CODE.get(s['state'], 0), Rig.info_code(s['info']), 0 if s['rno'] is None else int(s['rno']) + 1,
           int(s['wbskip']), int(s['waskip']), 0 if s['conc'] is None else int(s['conc']) + 1, int(s['proc']),
           STATE_CODE.get(s['wf'], 0), int(s['now']), len(s['jobs'])]
    for j in s['jobs']:
        k = JOB_KIND.get(j['name'], 9)
        if k == 2:
            out += [int(j['at']), 2, STATE_CODE.get(j['args'].get('state'), 0), Rig.info_code(j['args'].get('state_info'))]
        else:
            out += [int(j['at']), k, 0, 0]
    out.append(len(s['acts']))
    for a in s['acts']:
        out += [STATE_CODE.get(a[0], 0), int(a[1]), int(a[2])]
    out.append(len(s['disp']))
    for d in s['disp']:
        out += [int(d[0]), STATE_CODE.get(d[1], 0)]
    return out


# ---------------------------------------------------------------------------
# policy specifications: python description -> workflow text, in_context, Coq term

INT_KEYS = ['wait-before', 'wait-after', 'timeout', 'concurrency']
BOOL_KEYS = ['pause-before', 'fail-on']


class SpecGen(object):
    """A policies description is a dict key -> ('lit', v) | ('expr', v); retry -> dict(count, delay, cont, brk)."""

    def __init__(self):
        self.ctx = {}
        self.n = 0

    def expr(self, v):
        self.n += 1
        k = 'v%d' % self.n
        self.ctx[k] = v
        return '<% $.' + k + ' %>'

    def render(self, desc):
        if desc is None:
            return None
        out = {}
        for k, sv in desc.items():
            if k == 'retry':
                r = {'count': self.rv(sv['count']), 'delay': self.rv(sv['delay'])}
                if sv['cont']:
                    r['continue-on'] = '<% $.cont %>'
                if sv['brk']:
                    r['break-on'] = '<% $.brk %>'
                out['retry'] = r
            else:
                out[k] = self.rv(sv)
        return out

    def rv(self, sv):
        return sv[1] if sv[0] == 'lit' else self.expr(sv[1])


def coq_sval(sv):
    return '(%s %s)' % ('Lit' if sv[0] == 'lit' else 'Expr', coq_pval(sv[1]))


def coq_pspec(desc):
    if desc is None:
        return 'None'
    g = lambda k, d: coq_sval(desc.get(k, ('lit', d)))
    if 'retry' in desc:
        r = desc['retry']
        rs = '(Some (mkRSpec %s %s %s %s))' % (coq_sval(r['count']), coq_sval(r['delay']), coq_bool(r['cont']), coq_bool(r['brk']))
    else:
        rs = 'None'
    return '(Some (mkPSpec %s %s %s %s %s %s %s))' % (rs, g('wait-before', 0), g('wait-after', 0), g('timeout', 0),
                                                      g('pause-before', False), g('concurrency', 0), g('fail-on', False))


def eff_cfg(task, dflt):
    """What the generator intends (used by the ORACLE only; independent of the model):
    the first of task-level / task-defaults that defines the policy; evaluated values."""
    def present(k, sv):
        if sv is None:
            return False
        if sv[0] == 'expr':
            return True
        v = sv[1]
        if k in INT_KEYS[:3]:
            return v > 0
        return bool(v)
    out = {}
    for k in INT_KEYS + BOOL_KEYS:
        for d in (task, dflt):
            if d is not None and present(k, d.get(k)):
                out[k] = d[k][1]
                break
    for d in (task, dflt):
        if d is not None and d.get('retry'):
            r = d['retry']
            out['retry'] = {'count': r['count'][1], 'delay': r['delay'][1], 'cont': r['cont'], 'brk': r['brk']}
            break
    return out


def int_valid(v):
    if isinstance(v, bool):
        return False
    if isinstance(v, int):
        return v >= 0
    if isinstance(v, float):
        return math.isfinite(v) and v.is_integer() and v >= 0
    return False


def ill_typed(cfg):
    """Names of validated policy fields whose evaluated value does not fit the schema."""
    bad = []
    for k in INT_KEYS:
        if k in cfg and not int_valid(cfg[k]):
            bad.append(k)
    if 'pause-before' in cfg and not isinstance(cfg['pause-before'], bool):
        bad.append('pause-before')
    if 'retry' in cfg:
        if not int_valid(cfg['retry']['count']):
            bad.append('retry.count')
        if not int_valid(cfg['retry']['delay']):
            bad.append('retry.delay')
    return bad


def gen_value(rng, key, p_bad):
    if key in BOOL_KEYS:
        if rng.random() < p_bad:
            return rng.choice(BOOL_BAD)
        return rng.random() < 0.7
    if rng.random() < p_bad:
        return rng.choice(INT_BAD)
    return rng.choice([0, 1, 1, 2, 2, 3, 4, 5, 7, 2.0])


def gen_desc(rng, p_key, p_expr, p_bad, timeout_ok=True):
    d = {}
    for k in INT_KEYS + BOOL_KEYS:
        if k == 'timeout' and not timeout_ok:
            continue
        if rng.random() < p_key.get(k, 0.3):
            if rng.random() < p_expr:
                d[k] = ('expr', gen_value(rng, k, p_bad))
            else:
                v = gen_value(rng, k, 0)
                d[k] = ('lit', int(v) if k in INT_KEYS else v)
    if rng.random() < p_key.get('retry', 0.5):
        def rv(pool):
            if rng.random() < p_expr:
                return ('expr', rng.choice(INT_BAD) if rng.random() < p_bad else rng.choice(pool))
            return ('lit', int(rng.choice(pool)))
        d['retry'] = {'count': rv([0, 1, 1, 2, 2, 3, 4]), 'delay': rv([0, 1, 2, 3, 5]),
                      'cont': rng.random() < 0.3, 'brk': rng.random() < 0.3}
    return d


# ---------------------------------------------------------------------------
# suite: validate

def suite_validate(ctx):
    m = Mods.get()
    P = m.policies
    mk = {
        'WaitBeforePolicy': lambda v: P.WaitBeforePolicy(v), 'WaitAfterPolicy': lambda v: P.WaitAfterPolicy(v),
        'TimeoutPolicy': lambda v: P.TimeoutPolicy(v), 'ConcurrencyPolicy': lambda v: P.ConcurrencyPolicy(v),
        'RetryPolicy.count': lambda v: P.RetryPolicy(v, 1, None, None), 'RetryPolicy.delay': lambda v: P.RetryPolicy(1, v, None, None),
        'PauseBeforePolicy': lambda v: P.PauseBeforePolicy(v), 'FailOnPolicy': lambda v: P.FailOnPolicy(v),
    }
    model_pred = {'PauseBeforePolicy': 'bool_ok %s', 'FailOnPolicy': '(fun _ : pval => true) %s'}
    cases, exprs = [], []
    for name, f in mk.items():
        for v in VALUE_POOL:
            try:
                f(v)._validate()
                impl = True
            except m.exc.InvalidModelException:
                impl = False
            except Exception as e:
                impl = 'Crash:%s' % type(e).__name__
                ctx.fail('crash:validate:%s' % type(e).__name__, '%s._validate raises %r on %r' % (name, e, v),
                         {'kind': 'validate', 'policy': name, 'value': repr(v)})
            cases.append((name, v, impl))
            exprs.append(model_pred.get(name, 'int_ok %s') % coq_pval(v))
    for v in VALUE_POOL:
        cases.append(('truthy', v, bool(v)))
        exprs.append('truthy %s' % coq_pval(v))
    for v in VALUE_POOL:
        if int_valid(v):
            cases.append(('as_N', v, int(v)))
            exprs.append('as_N %s' % coq_pval(v))
    nb = sum(1 for c in cases if c[0] != 'as_N')
    res = coq_eval_packed('c08validate', exprs[:nb], 100) + coq_eval_packed('c08validaten', exprs[nb:], 100)
    for c, r in zip(cases, res):
        ctx.count('validate', (c[0], repr(c[1])))
        ctx.cov['disagreements_checked'] += 1
        if r != c[2] or type(r) is not type(c[2]):
            ctx.disagree('validate', {'what': c[0], 'value': repr(c[1])}, r, c[2])
    ctx.sample({'suite': 'validate', 'policy': cases[3][0], 'value': repr(cases[3][1]), 'impl_accepts': cases[3][2]})


# ---------------------------------------------------------------------------
# suite: build_policies

ABSENT = ('absent',)


def pv_key(v):
    """Canonical form of an evaluated value as the model prints it (tag, payload)."""
    s = coq_pval(v)
    return core.re.sub(r'[()%Z\s]', '', s)


def real_build_view(text, gen):
    m = Mods.get()
    wf_spec = parse_wf(text)
    pols = m.policies.build_policies(wf_spec.get_tasks()['t1'].get_policies(), wf_spec)

    def val(x):
        if isinstance(x, str):
            k = core.re.match(r'<% \$\.(\w+) %>$', x)
            return gen.ctx[k.group(1)]
        return x
    slots = [ABSENT] * 10
    order = []
    for p in pols:
        n = type(p).__name__
        order.append(n)
        if n == 'PauseBeforePolicy':
            slots[0] = val(p.expr)
        elif n == 'WaitBeforePolicy':
            slots[1] = val(p.delay)
        elif n == 'WaitAfterPolicy':
            slots[2] = val(p.delay)
        elif n == 'FailOnPolicy':
            slots[3] = val(p.fail_on)
        elif n == 'RetryPolicy':
            slots[4], slots[5] = val(p.count), val(p.delay)
            slots[6], slots[7] = bool(p._continue_on_clause), bool(p._break_on_clause)
        elif n == 'TimeoutPolicy':
            slots[8] = val(p.delay)
        elif n == 'ConcurrencyPolicy':
            slots[9] = val(p.concurrency)
    return slots, order


FACTORY_ORDER = ['PauseBeforePolicy', 'WaitBeforePolicy', 'WaitAfterPolicy', 'FailOnPolicy', 'RetryPolicy', 'TimeoutPolicy',
                 'ConcurrencyPolicy']


def suite_build(ctx):
    rng = ctx.rng
    n = ctx.n(400, 4000)
    cases, exprs = [], []
    pk = {k: 0.4 for k in INT_KEYS + BOOL_KEYS}
    pk['retry'] = 0.4
    for i in range(n):
        task = gen_desc(rng, pk, 0.4, 0.3)
        dflt = (gen_desc(rng, pk, 0.4, 0.3) or None) if rng.random() < 0.6 else None
        if rng.random() < 0.3:   # literal zeros / false at task level must fall through to the defaults
            for k in rng.sample(INT_KEYS + BOOL_KEYS, 2):
                task[k] = ('lit', 0 if k in INT_KEYS else False)
        g = SpecGen()
        text = wf_text(g.render(task), g.render(dflt))
        slots, order = real_build_view(text, g)
        if i < ctx.n(40, 400):
            for pol in (g.render(task), g.render(dflt)):
                if pol and not schema_valid(pol):
                    ctx.disagree('build', {'policies': pol}, 'generator: schema-valid', 'PoliciesSpec schema rejects it')
        cases.append((task, dflt, slots, order))
        exprs.append('cfg_view (build %s %s)' % (coq_pspec(task), coq_pspec(dflt)))
    res = core.coq_eval('c08build', IMPORTS, exprs)
    for c, r in zip(cases, res):
        task, dflt, slots, order = c
        ctx.count('build', (repr(task), repr(dflt)), nontrivial=bool(dflt))
        ctx.cov['disagreements_checked'] += 1
        want = '[' + '; '.join('None' if v is ABSENT else 'Some ' + coq_pval(v) for v in slots) + ']'
        norm = lambda s: core.re.sub(r'[()\s]|%Z', '', s)
        if norm(r) != norm(want):
            ctx.disagree('build', {'task': task, 'defaults': dflt}, r, want)
        if order != [x for x in FACTORY_ORDER if x in order]:
            ctx.disagree('build', {'task': task, 'defaults': dflt}, 'factory order', order)
    ctx.sample({'suite': 'build', 'task': cases[0][0], 'defaults': cases[0][1], 'impl_policies': cases[0][3]})


# ---------------------------------------------------------------------------
# suite: the retry decision alone, exhaustively

def suite_retry_decision(ctx):
    m = Mods.get()
    states_pool = ['SUCCESS', 'ERROR', 'CANCELLED', 'RUNNING', 'DELAYED', 'IDLE', 'WAITING', 'SKIPPED', 'PAUSED']
    counts = [0, 1, 2, 3, 4] if not ctx.thorough() else [0, 1, 2, 3, 4, 5, 9]
    rnos = [None, 0, 1, 2, 3, 4, 5]
    delays = [0, 3]
    cases, exprs, impls = [], [], []
    texts = {False: wf_text({}, None, join=False), True: wf_text({}, None, join=True)}
    for join in (False, True):
        for cnt in counts:
            for rno in rnos:
                for x in states_pool:
                    for hc, co in ((False, False), (False, True), (True, False), (True, True)):
                        for hb, br in ((False, True), (True, False), (True, True)):
                            for dl in delays:
                                if join and (dl == 0 or x in ('IDLE', 'PAUSED', 'WAITING')):
                                    continue
                                cases.append((join, cnt, rno, x, hc, co, hb, br, dl))
    # ill-typed count / delay at this hook
    for bad in INT_BAD:
        cases.append((False, bad, None, 'ERROR', False, False, False, False, 1))
        cases.append((False, 2, None, 'ERROR', False, False, False, False, bad))
    for c in cases:
        join, cnt, rno, x, hc, co, hb, br, dl = c
        rig = Rig(texts[join], {'cont': co, 'brk': br})
        rig.task_ex.state = x
        if rno is not None:
            rig.task_ex.runtime_context = {'retry_task_policy': {'retry_no': rno}}
        rig.task_ex.executions.append(Obj(id='a0', state=x if x in COMPLETED else 'RUNNING', accepted=True, output={},
                                          runtime_context={}, started=0))
        pol = m.policies.RetryPolicy(cnt, dl, '<% $.brk %>' if hb else None, '<% $.cont %>' if hc else None)
        task = m.tasks.RegularTask(rig.wf_ex, rig.wf_spec, rig.task_spec, {}, task_ex=rig.task_ex)
        with rig.patched():
            try:
                rig.task_ex.begin()
                try:
                    pol.after_task_complete(task)
                finally:
                    rig.task_ex.commit()
                s = rig.snap()
                job = s['jobs'][0] if s['jobs'] else None
                impl = [STATE_CODE[s['state']], 0 if s['rno'] is None else s['rno'] + 1,
                        JOB_KIND[job['name']] if job else 0, int(job['at']) if job else 0]
                retried = job is not None
                acc = rig.task_ex.executions[0].accepted
                if retried and acc:
                    ctx.fail('retry-without-invalidate', 'a retried task keeps an accepted result', {'kind': 'retry_decision', 'case': list(map(str, c))})
            except m.exc.InvalidModelException:
                impl = [99]
            except Exception as e:
                impl = ['Crash:%s' % type(e).__name__]
                ctx.fail('crash:retry:%s' % type(e).__name__, 'RetryPolicy.after_task_complete raises %r' % (e,),
                         {'kind': 'retry_decision', 'case': list(map(str, c))})
        impls.append(impl)
        exprs.append('retry_view %s (mkRCfg %s %s %s %s) %s %s %s %s' % (
            coq_bool(join), coq_pval(cnt), coq_pval(dl), coq_bool(hc), coq_bool(hb), COQ_STATE[x],
            'None' if rno is None else '(Some %d%%N)' % rno, coq_bool(co), coq_bool(br)))
    res = coq_eval_packed('c08retry', exprs, 150)
    hist = {}
    for c, impl, model in zip(cases, impls, res):
        ctx.count('retry_decision', tuple(map(str, c)), nontrivial=(c[3] in ('SUCCESS', 'ERROR') and c[1] not in (0,)))
        ctx.cov['disagreements_checked'] += 1
        key = 'retried' if (len(impl) == 4 and impl[2]) else ('invalid' if impl == [99] else 'stopped')
        hist[key] = hist.get(key, 0) + 1
        if model != impl:
            ctx.disagree('retry_decision', {'join': c[0], 'count': repr(c[1]), 'retry_no': c[2], 'state': c[3], 'continue-on': c[4:6],
                                            'break-on': c[6:8], 'delay': repr(c[8])}, model, impl)
    ctx.cov['suites']['retry_decision']['outcomes'] = hist


# ---------------------------------------------------------------------------
# suite: traces

def coq_event(ev):
    k = ev[0]
    if k == 'start':
        return 'EStart'
    if k == 'resume':
        return 'EResume'
    if k == 'act':
        return '(EAct %d%%nat %s %s %s)' % (ev[1], COQ_STATE[ev[2]], coq_bool(ev[3]), coq_bool(ev[4]))
    if k == 'fire':
        return '(EFire %d%%nat)' % ev[1]
    return '(ETick %d%%N)' % ev[1]


def gen_trace_case(rng, profile):
    """Return (task_desc, dflt_desc, mode). Profiles steer which policies are present."""
    if profile == 'retry':
        pk = {'retry': 1.0, 'wait-before': 0.2, 'wait-after': 0.3, 'fail-on': 0.2, 'pause-before': 0.1, 'concurrency': 0.1}
        task = gen_desc(rng, pk, 0.3, 0.0, timeout_ok=False)
    elif profile == 'waits':
        pk = {'retry': 0.3, 'wait-before': 0.7, 'wait-after': 0.7, 'fail-on': 0.2, 'pause-before': 0.2, 'concurrency': 0.1}
        task = gen_desc(rng, pk, 0.3, 0.0, timeout_ok=False)
    elif profile == 'timeout':
        pk = {'retry': 0.0, 'wait-before': 0.0, 'wait-after': 0.4, 'fail-on': 0.3, 'pause-before': 0.1, 'timeout': 1.0}
        task = gen_desc(rng, pk, 0.3, 0.0)
    elif profile == 'mix':
        pk = {'retry': 0.6, 'wait-before': 0.3, 'wait-after': 0.4, 'fail-on': 0.2, 'pause-before': 0.15, 'timeout': 0.7,
              'concurrency': 0.1}
        task = gen_desc(rng, pk, 0.3, 0.0)
    else:  # 'typing'
        pk = {'retry': 0.5, 'wait-before': 0.4, 'wait-after': 0.4, 'fail-on': 0.3, 'pause-before': 0.3, 'timeout': 0.3,
              'concurrency': 0.3}
        task = gen_desc(rng, pk, 0.8, 0.35)
    dflt = None
    if rng.random() < 0.3:
        # move some keys into task-defaults
        dflt = {}
        for k in list(task):
            if rng.random() < 0.5:
                dflt[k] = task.pop(k)
            elif rng.random() < 0.4:
                # the same policy at both levels with different values: the task level wins
                other = gen_desc(rng, {k: 1.0}, 0.3, 0.0, timeout_ok=(k == 'timeout'))
                if k in other and other[k] != task[k]:
                    dflt[k] = other[k]
        dflt = dflt or None
    mode = rng.choice(['due', 'due', 'due', 'late', 'any'])
    return task, dflt, mode


def drive(rng, rig, mode, max_events):
    """Generate a schedule adaptively on the real rig; return (events, snapshots, crash)."""
    events, snaps = [], []
    crash = None

    def do(ev):
        nonlocal crash
        pre = rig.snap()
        try:
            rig.apply(ev)
        except Exception as e:  # nothing may escape an engine entry point
            crash = (ev, '%s: %s' % (type(e).__name__, e))
        events.append(ev)
        snaps.append((pre, rig.snap()))
    do(['start'])
    outcome_pool = ['ERROR', 'ERROR', 'ERROR', 'SUCCESS', 'SUCCESS', 'CANCELLED'] if rng.random() < 0.3 else \
        ['ERROR', 'ERROR', 'SUCCESS']
    while len(events) < max_events and crash is None:
        running = [i for i, a in enumerate(rig.task_ex.executions) if a.state == 'RUNNING']
        due = [j for j, jb in enumerate(rig.jobs) if jb['at'] <= rig.now]
        choices = []
        if running:
            choices += ['act'] * 3
        if mode == 'any' and rig.jobs:
            choices += ['fireany'] * 2
        if due:
            choices += ['fire'] * (4 if mode != 'late' else 1)
        if rig.jobs and not due:
            choices += ['next'] * 3
        if rig.wf_ex.state == 'PAUSED':
            choices += ['resume'] * 2
        choices += ['tick']
        if rng.random() < 0.06:
            choices = ['noop']
        if not running and not rig.jobs and rig.wf_ex.state != 'PAUSED':
            if rng.random() < 0.5:
                break
        c = rng.choice(choices)
        if c == 'act':
            do(['act', rng.choice(running), rng.choice(outcome_pool), rng.random() < 0.6, rng.random() < 0.3])
        elif c == 'fire':
            do(['fire', rng.choice(due)])
        elif c == 'fireany':
            do(['fire', rng.randrange(len(rig.jobs))])
        elif c == 'next':
            nxt = min(jb['at'] for jb in rig.jobs)
            do(['tick', int(max(1, math.ceil(nxt - rig.now)))])
        elif c == 'resume':
            do(['resume'])
        elif c == 'tick':
            do(['tick', rng.choice([1, 1, 2, 3])])
        else:
            do(rng.choice([['start'], ['resume'], ['fire', len(rig.jobs) + 1], ['act', len(rig.task_ex.executions), 'SUCCESS', True, False],
                           ['act', 0, 'ERROR', False, True], ['act', 0, 'RUNNING', False, False], ['tick', 0]]))
    return events, snaps, crash


def run_trace_real(task, dflt, events=None, rng=None, mode='due', max_events=28):
    g = SpecGen()
    text = wf_text(g.render(task), g.render(dflt))
    rig = Rig(text, dict(g.ctx, cont=False, brk=False))
    with rig.patched():
        if events is None:
            return drive(rng, rig, mode, max_events)
        snaps, crash = [], None
        for ev in events:
            pre = rig.snap()
            try:
                rig.apply(ev)
            except Exception as e:
                crash = (ev, '%s: %s' % (type(e).__name__, e))
            snaps.append((pre, rig.snap()))
            if crash:
                break
        return events, snaps, crash


# -- the property oracle (model-free) ---------------------------------------------

def task_sig(s):
    return (s['state'], s['info'], s['rno'], len(s['acts']), len(s['disp']))


def oracle_trace(ctx, task, dflt, mode, events, snaps, crash):
    """The property text stated on the recorded rows of one task life (no model involved).
    Returns [(signature, what)]. Once a root-cause violation is found (a delayed job of a superseded attempt acts,
    or the late result of a timed-out attempt changes the task) the rest of the trace is not judged: everything
    after it is a consequence of the same defect."""
    cfg = eff_cfg(task, dflt)
    bad = ill_typed(cfg)
    out = []

    def fail(sig, what):
        out.append((sig, what))
    retry = cfg.get('retry') if not bad else None
    count = int(retry['count']) if retry else 0
    rdelay = int(retry['delay']) if retry else 0
    fail_on = cfg.get('fail-on')
    fo_unknown = fail_on is not None and not isinstance(fail_on, bool)   # not a boolean: no expectation on SUCCESS results
    wb = int(cfg['wait-before']) if 'wait-before' in cfg and not bad else 0
    wa = int(cfg['wait-after']) if 'wait-after' in cfg and not bad else 0
    pause = cfg.get('pause-before') is True
    has_timeout = 'timeout' in cfg
    last_change = 0             # index of the last event that changed the task
    final_after = None          # reason why no further attempt may start
    zombies = set()             # attempts that were RUNNING when the timer failed the task
    timed_out = False           # the timer expired on the incomplete task
    first_completion = None
    last_completion = None
    completions = 0
    t0 = None
    resumed = False
    early = False
    co_now, br_now = False, False
    for idx, (ev, (pre, post)) in enumerate(zip(events, snaps), 1):
        if ev[0] == 'resume':
            resumed = True
        fired = None
        if ev[0] == 'fire' and 0 <= ev[1] < len(pre['jobs']):
            fired = pre['jobs'][ev[1]]
            if fired['at'] > pre['now']:
                early = True
        new_acts = len(post['acts']) - len(pre['acts'])
        new_disp = len(post['disp']) - len(pre['disp'])
        changed = task_sig(pre) != task_sig(post)
        newjobs = [jb for jb in post['jobs'] if jb['born'] == idx]
        if ev[0] == 'start' and pre['state'] == 'IDLE' and t0 is None:
            t0 = pre['now']
        is_act = (ev[0] == 'act' and 0 <= ev[1] < len(pre['acts']) and pre['acts'][ev[1]][0] == 'RUNNING'
                  and ev[2] in ('SUCCESS', 'ERROR', 'CANCELLED'))
        crashed_here = crash is not None and idx == len(snaps)
        # --- root causes ------------------------------------------------------------------------------
        # a delayed job is stale when the task is no longer in the delay it was scheduled for: the task must still be
        # DELAYED and untouched since the job was scheduled
        stale = fired is not None and (
            (fired['name'] == '_continue_task' and (pre['state'] != 'DELAYED' or last_change > fired['born'])) or
            (fired['name'] == '_complete_task' and (pre['state'] != 'DELAYED' or last_change > fired['born'])))
        if stale and (changed or crashed_here):
            # (a completion job that finds the task completed is ignored by Task.complete: if it is not, that is
            # judged below as completed-task-changed, not as this root cause)
            if fired['name'] == '_continue_task' or pre['state'] not in COMPLETED:
                sig = 'stale-continue-job' if fired['name'] == '_continue_task' else 'stale-wait-after-job'
                cons = []
                if pre['state'] in COMPLETED:
                    cons.append('the task left its final state %s (now %s)' % (pre['state'], post['state']))
                if new_acts:
                    cons.append('attempt %d was started' % len(post['acts']))
                if any(a[0] == 'RUNNING' for a in post['acts']) and post['state'] in COMPLETED:
                    cons.append('the task ended %s while its last attempt is still RUNNING' % post['state'])
                if new_disp and pre['disp']:
                    cons.append('follow-up commands were dispatched a second time')
                if crashed_here:
                    cons.append('the job raised %s' % crash[1])
                fail(sig, '%s job scheduled at event %d ran at event %d although the task was %s then and had been changed '
                          'since (timeout / forced failure): %s' % (fired['name'], fired['born'], idx, pre['state'],
                                                                   '; '.join(cons) or 'the task changed'))
                return out
        if is_act and ev[1] in zombies and changed and pre['state'] not in COMPLETED:
            fail('late-result-of-timed-out-attempt',
                 'attempt %d was RUNNING when the timeout expired (task failed by the timer%s); its late result %s at event %d '
                 'changed the task: %s -> %s%s' % (ev[1] + 1, ', then retried' if len(pre['acts']) > ev[1] + 1 else '', ev[2], idx,
                                                   pre['state'], post['state'],
                                                   ' while attempt %d is RUNNING' % len(post['acts'])
                                                   if post['acts'][-1][0] == 'RUNNING' else ''))
            return out
        if crashed_here:
            fail('crash:%s' % crash[1].split(':')[0], 'exception escapes the engine entry point on %r: %s' % (crash[0], crash[1]))
            return out
        if changed:
            last_change = idx
        # --- finished results final ------------------------------------------------------------------------
        if pre['state'] in COMPLETED and (post['state'] != pre['state'] or new_acts or new_disp):
            fail('completed-task-changed', 'event %r changed a task that was %s: state %s, +%d attempts, +%d dispatches' % (
                ev, pre['state'], post['state'], new_acts, new_disp))
        # --- at most count+1 attempts, one at a time, none after a final outcome -----------------------
        if not bad and len(post['acts']) > count + 1:
            fail('attempts-exceed-count+1', '%d attempts with retry count %d' % (len(post['acts']), count))
        if new_acts > 1 or (new_acts and not zombies and any(a[0] == 'RUNNING' for a in pre['acts'])):
            fail('concurrent-attempts', 'attempt started while another attempt is RUNNING (event %r)' % (ev,))
        if new_acts and final_after is not None:
            fail('attempt-after-final-outcome', 'attempt %d started although %s' % (len(post['acts']), final_after))
        # --- an attempt completed: what must follow -----------------------------------------------------
        if is_act:
            _, i, r, co, br = ev
            co_now, br_now = co, br
            completions += 1
            if first_completion is None:
                first_completion = pre['now']
            last_completion = pre['now']
        outcome = None      # the task-level outcome produced by this event, before retry decides
        if is_act and pre['state'] in COMPLETED:
            pass        # a result that arrives after the task completed is ignored (checked by completed-task-changed)
        elif is_act and not fo_unknown:
            outcome = 'ERROR' if (ev[2] == 'SUCCESS' and fail_on is True) else ev[2]
            delayed_by_wa = wa > 0 and completions == 1 and not timed_out
        elif fired is not None and fired['name'] == '_complete_task' and not stale and not fo_unknown:
            x = fired['args'].get('state')
            outcome = 'ERROR' if (x == 'SUCCESS' and fail_on is True) else x
            delayed_by_wa = False
        elif fired is not None and fired['name'] == '_fail_task_if_incomplete' and pre['state'] not in COMPLETED:
            outcome = 'ERROR'
            delayed_by_wa = wa > 0 and not pre['waskip']
        if outcome is not None and not bad:
            attempts = len(pre['acts'])
            if delayed_by_wa:
                want_x = ev[2] if is_act else 'ERROR'
                if not (post['state'] == 'DELAYED' and any(jb['name'] == '_complete_task' and jb['args'].get('state') == want_x
                                                            for jb in newjobs)):
                    fail('wait-after-not-applied', 'first completion (%s) with wait-after %d: task is %s, new jobs %s' % (
                        want_x, wa, post['state'], [jb['name'] for jb in newjobs]))
            else:
                if outcome == 'CANCELLED':
                    final_after = 'an attempt was CANCELLED'
                elif retry and count > 0 and retry['cont'] and not co_now:
                    final_after = 'continue-on was false'
                elif outcome == 'SUCCESS' and not (retry and count > 0 and retry['cont']):
                    final_after = 'attempt %d succeeded and there is no continue-on' % attempts
                elif outcome == 'ERROR' and retry and retry['brk'] and br_now:
                    final_after = 'break-on was true after a failed attempt'
                elif not retry or count == 0:
                    final_after = 'there is no retry policy'
                elif not has_timeout and attempts > count:
                    final_after = 'all %d attempts are used' % (count + 1)
                elif has_timeout and (pre['rno'] or 0) >= count:
                    final_after = 'all retries are used'
                else:
                    final_after = None
                if final_after is None:
                    if not (post['state'] == 'DELAYED' and any(jb['name'] == '_continue_task' for jb in newjobs)):
                        fail('retry-not-continued', 'outcome %s of attempt %d (count %d, continue-on=%s, break-on=%s): the task is %s '
                                                    'and no continue job was scheduled' % (outcome, attempts, count, co_now, br_now, post['state']))
                else:
                    if post['state'] != outcome:
                        fail('final-state-differs-from-last-outcome', 'last outcome %s (%s) but the task is %s' % (
                            outcome, final_after, post['state']))
        # --- verdict = last attempt (direct reading of the rows) ---------------------------------------------
        if (post['state'] != pre['state'] or new_disp) and not zombies:
            la = post['acts'][-1][0] if post['acts'] else None
            if post['state'] == 'SUCCESS':
                if la != 'SUCCESS':
                    fail('success-without-successful-last-attempt', 'task SUCCESS while its last attempt is %s' % la)
                if fail_on is True:
                    fail('fail-on-task-ends-SUCCESS', 'fail-on is true and the task is SUCCESS')
            if post['state'] == 'ERROR' and post['wf'] != 'ERROR' and Rig.info_code(post['info']) != 1 and la == 'SUCCESS' \
                    and not fail_on:
                fail('error-with-successful-last-attempt', 'task ERROR (%r) while its last attempt is SUCCESS, no fail-on, no timeout' % (
                    post['info'],))
            if post['state'] == 'CANCELLED' and la != 'CANCELLED':
                fail('cancelled-verdict', 'task CANCELLED while last attempt is %s' % la)
        # --- delays ------------------------------------------------------------------------------------------
        for jb in newjobs:
            if jb['name'] == '_continue_task' and ev[0] == 'start' and wb and jb['run_after'] != wb:
                fail('wait-before-delay-not-kept', 'continue job run_after=%r, wait-before=%r' % (jb['run_after'], wb))
            if jb['name'] == '_continue_task' and ev[0] != 'start' and retry and jb['run_after'] != rdelay:
                fail('retry-delay-not-kept', 'continue job run_after=%r, retry delay=%r' % (jb['run_after'], rdelay))
            if jb['name'] == '_complete_task' and wa and jb['run_after'] != wa:
                fail('wait-after-delay-not-kept', 'complete job run_after=%r, wait-after=%r' % (jb['run_after'], wa))
        if ev[0] == 'start' and pre['state'] == 'IDLE' and wb and not pause and not bad:
            if not (post['state'] == 'DELAYED' and not post['acts'] and any(jb['name'] == '_continue_task' for jb in newjobs)):
                fail('wait-before-not-applied', 'wait-before %d: after start the task is %s with %d actions' % (wb, post['state'], len(post['acts'])))
        if new_acts and not early and not bad and mode != 'any' and not has_timeout:
            n_after = len(post['acts'])
            if n_after == 1 and wb and not pause and t0 is not None and post['now'] < t0 + wb:
                fail('wait-before-delay-not-kept', 'first attempt started at %d, task started at %d, wait-before %d' % (post['now'], t0, wb))
            if n_after > 1 and retry and last_completion is not None and post['now'] < last_completion + rdelay:
                fail('retry-delay-not-kept', 'attempt %d started at %d, previous attempt completed at %d, delay %d' % (
                    n_after, post['now'], last_completion, rdelay))
        if new_disp and not early and not bad and mode != 'any' and wa and not has_timeout and first_completion is not None:
            if post['now'] < first_completion + wa:
                fail('wait-after-delay-not-kept', 'follow-ups dispatched at %d, first completion at %d, wait-after %d' % (
                    post['now'], first_completion, wa))
        # --- follow-up commands: exactly once, for the final state ------------------------------------------
        if new_disp > 1 or (new_disp and pre['disp']):
            fail('follow-ups-dispatched-twice', 'dispatch no %d at event %r' % (len(post['disp']), ev))
        if new_disp and post['disp'][-1][1] != post['state']:
            fail('follow-ups-for-wrong-state', 'dispatched for %s, task is %s' % (post['disp'][-1][1], post['state']))
        if post['state'] in ('SUCCESS', 'ERROR') and post['state'] != pre['state'] and post['wf'] == 'RUNNING' and not new_disp \
                and post['forced'] == pre['forced']:
            fail('follow-ups-lost', 'task became %s, workflow RUNNING, nothing dispatched' % post['state'])
        # --- timeout, both firing orders -----------------------------------------------------------------------
        if fired is not None and fired['name'] == '_fail_task_if_incomplete':
            if pre['state'] in COMPLETED:
                if changed or len(post['jobs']) != len(pre['jobs']) - 1:
                    fail('timeout-fired-on-completed-task', 'the timer changed a task that had completed in time (%s -> %s)' % (
                        pre['state'], post['state']))
            else:
                timed_out = True
                zombies |= {i for i, a in enumerate(pre['acts']) if a[0] == 'RUNNING'}
                if not bad:
                    ok_error = post['state'] == 'ERROR' and Rig.info_code(post['info']) == 1
                    ok_wa = post['state'] == 'DELAYED' and any(
                        jb['name'] == '_complete_task' and jb['args'].get('state') == 'ERROR'
                        and Rig.info_code(jb['args'].get('state_info')) == 1 for jb in newjobs)
                    ok_retry = post['state'] == 'DELAYED' and final_after is None and any(jb['name'] == '_continue_task' for jb in newjobs)
                    if not (ok_error or ok_wa or ok_retry):
                        fail('timeout-not-applied', 'the timer expired on a task in %s; afterwards it is %s (%r)' % (
                            pre['state'], post['state'], post['info']))
        if timed_out and not zombies and post['state'] == 'SUCCESS' and final_after is not None and not retry:
            fail('timeout-not-applied', 'the timer expired on the incomplete task but it ended SUCCESS')
        # --- pause-before --------------------------------------------------------------------------------------
        if ev[0] == 'start' and pre['state'] == 'IDLE' and pause and not bad:
            if post['wf'] != 'PAUSED' or post['acts'] or post['state'] != 'IDLE':
                fail('pause-before-not-applied', 'after start: workflow %s, task %s, %d actions' % (post['wf'], post['state'], len(post['acts'])))
        if pause and not bad and not resumed and not has_timeout and post['acts']:
            fail('action-before-resume', 'pause-before: an action exists before the workflow was resumed')
        # --- ill-typed evaluated values: the declared error ------------------------------------------------------
        if ev[0] == 'start' and pre['state'] == 'IDLE' and bad:
            if not (post['state'] == 'ERROR' and post['wf'] == 'ERROR' and post['forced'] == pre['forced'] + 1):
                fail('ill-typed-value-accepted', 'evaluated %s ill-typed (%r) but after start task=%s workflow=%s' % (
                    bad, {k: cfg.get(k.split('.')[0]) for k in bad}, post['state'], post['wf']))
            if post['acts']:
                fail('ill-typed-value-accepted', 'action started although %s is ill-typed' % bad)
    return out


CORPUS = [
    # --- open findings (the KNOWN-FINDING lines are reproduced from these on every run) ---
    # stale-wait-after-job: wait-after 5, retry 2/10, timeout 2 (r1 of Proofs/PolicyRefuted.v)
    {'task': {'wait-after': ('lit', 5), 'retry': {'count': ('lit', 2), 'delay': ('lit', 10), 'cont': False, 'brk': False},
              'timeout': ('lit', 2)}, 'dflt': None,
     'events': [['start'], ['tick', 1], ['act', 0, 'SUCCESS', False, False], ['tick', 1], ['fire', 0], ['tick', 4], ['fire', 0],
                ['tick', 6], ['fire', 0]]},
    # stale-continue-job: wait-before 5, wait-after 4, timeout 3 (r2) and retry 2/5, timeout 3 (r3)
    {'task': {'wait-before': ('lit', 5), 'wait-after': ('lit', 4), 'timeout': ('lit', 3)}, 'dflt': None,
     'events': [['start'], ['tick', 3], ['fire', 1], ['tick', 2], ['fire', 0], ['tick', 1], ['act', 0, 'SUCCESS', False, False],
                ['tick', 1], ['fire', 0]]},
    {'task': {'retry': {'count': ('lit', 2), 'delay': ('lit', 5), 'cont': False, 'brk': False}, 'timeout': ('lit', 3)}, 'dflt': None,
     'events': [['start'], ['tick', 1], ['act', 0, 'ERROR', False, False], ['tick', 2], ['fire', 0], ['tick', 3], ['fire', 0],
                ['tick', 2], ['fire', 0], ['act', 1, 'ERROR', False, False]]},
    # --- regression: witnesses of the findings fixed by /repo 5a4083bf (must be clean) ---
    # timeout expires during the retry delay; the continue job must not revive the failed task
    {'task': {'retry': {'count': ('lit', 1), 'delay': ('lit', 5), 'cont': False, 'brk': False}, 'timeout': ('lit', 3)}, 'dflt': None,
     'events': [['start'], ['tick', 1], ['act', 0, 'ERROR', False, False], ['tick', 2], ['fire', 0], ['tick', 3], ['fire', 0],
                ['tick', 1], ['act', 1, 'ERROR', False, False], ['tick', 5], ['fire', 0], ['tick', 1], ['act', 2, 'ERROR', False, False]]},
    # timeout during wait-after, retried: the wait-after job of attempt 1 must not complete the task while attempt 2 runs
    {'task': {'retry': {'count': ('lit', 2), 'delay': ('lit', 3), 'cont': False, 'brk': False}, 'wait-after': ('lit', 10),
              'timeout': ('lit', 5)}, 'dflt': None,
     'events': [['start'], ['tick', 1], ['act', 0, 'SUCCESS', False, False], ['tick', 4], ['fire', 0], ['tick', 3], ['fire', 1],
                ['tick', 3], ['fire', 0]]},
    # the late result of the attempt that was running when the timer expired must not undo the timeout
    {'task': {'wait-after': ('lit', 2), 'timeout': ('lit', 5)}, 'dflt': None,
     'events': [['start'], ['tick', 5], ['fire', 0], ['tick', 1], ['act', 0, 'SUCCESS', False, False], ['tick', 1], ['fire', 0]]},
    # timeout shorter than wait-before
    {'task': {'wait-before': ('lit', 5), 'timeout': ('lit', 3)}, 'dflt': None,
     'events': [['start'], ['tick', 3], ['fire', 1], ['tick', 2], ['fire', 0], ['tick', 1], ['act', 0, 'SUCCESS', False, False]]},
    # plain retry to exhaustion, then success path, break-on, continue-on
    {'task': {'retry': {'count': ('lit', 2), 'delay': ('lit', 2), 'cont': False, 'brk': False}}, 'dflt': None,
     'events': [['start'], ['act', 0, 'ERROR', False, False], ['tick', 2], ['fire', 0], ['act', 1, 'ERROR', False, False],
                ['tick', 2], ['fire', 0], ['act', 2, 'ERROR', False, False], ['tick', 5], ['act', 2, 'SUCCESS', False, False]]},
    {'task': {'retry': {'count': ('expr', 3), 'delay': ('expr', 1), 'cont': True, 'brk': True}, 'fail-on': ('expr', True),
              'wait-after': ('lit', 2)}, 'dflt': None,
     'events': [['start'], ['act', 0, 'SUCCESS', True, False], ['tick', 2], ['fire', 0], ['tick', 1], ['fire', 0],
                ['act', 1, 'SUCCESS', True, True]]},
    {'task': {'pause-before': ('lit', True), 'wait-before': ('lit', 2), 'timeout': ('lit', 4)},
     'dflt': {'retry': {'count': ('lit', 1), 'delay': ('lit', 1), 'cont': False, 'brk': False}, 'wait-before': ('lit', 9)},
     'events': [['start'], ['tick', 1], ['start'], ['resume'], ['act', 0, 'ERROR', False, False], ['tick', 1], ['fire', 2],
                ['tick', 2], ['fire', 0], ['fire', 0], ['act', 1, 'SUCCESS', False, False]]},
    {'task': {'wait-before': ('lit', 2), 'timeout': ('expr', 'abc')}, 'dflt': None,
     'events': [['start'], ['tick', 2], ['fire', 0], ['act', 0, 'SUCCESS', False, False]]},
    {'task': {'retry': {'count': ('expr', 2.0), 'delay': ('expr', True), 'cont': False, 'brk': False}}, 'dflt': None,
     'events': [['start'], ['act', 0, 'ERROR', False, False]]},
]


def trace_replay_obj(task, dflt, mode, events):
    return {'kind': 'trace', 'task_policies': task, 'task_defaults': dflt, 'schedule_mode': mode, 'events': events}


def suite_traces(ctx, cases, tag='traces', batch=1500):
    """cases: list of dict(task, dflt, events|None, mode). Real run (generating the schedule when absent), oracle, model.
    Processed in batches so that the recorded rows of a thorough run do not pile up in memory."""
    for i in range(0, len(cases), batch):
        _suite_traces(ctx, cases[i:i + batch], tag)


def _suite_traces(ctx, cases, tag):
    rng = ctx.rng
    exprs, done = [], []
    s0 = ctx.cov['suites'].setdefault(tag, {'evaluations': 0, 'distinct_nontrivial': 0})
    sigs = s0.setdefault('oracle_signatures', {})
    nev = 0
    profiles = s0.setdefault('profiles', {})
    for c in cases:
        task, dflt = c['task'], c['dflt']
        events, snaps, crash = run_trace_real(task, dflt, events=c.get('events'), rng=rng, mode=c.get('mode', 'due'),
                                              max_events=c.get('max_events', 28))
        events = events[:len(snaps)]
        nev += len(events)
        profiles[c.get('profile', 'corpus')] = profiles.get(c.get('profile', 'corpus'), 0) + 1
        for sig, what in oracle_trace(ctx, task, dflt, c.get('mode', 'due'), events, snaps, crash):
            sigs[sig] = sigs.get(sig, 0) + 1
            if sigs[sig] <= 3:      # a few witnesses per signature are kept, all are counted
                ctx.fail(sig, what, trace_replay_obj(task, dflt, c.get('mode', 'due'), events))
        exprs.append('trace (build %s %s) init %s' % (coq_pspec(task), coq_pspec(dflt), coq_list([coq_event(e) for e in events])))
        done.append((task, dflt, events, snaps, crash))
    res = coq_eval_packed('c08' + tag, exprs, 25)
    attempts_hist = s0.setdefault('attempts_histogram', {})
    for (task, dflt, events, snaps, crash), model in zip(done, res):
        impl = [flat_view(post) for _, post in snaps]
        na = str(len(snaps[-1][1]['acts']) if snaps else 0)
        attempts_hist[na] = attempts_hist.get(na, 0) + 1
        ctx.count(tag, (repr(task), repr(dflt), repr(events)), nontrivial=len(events) > 2, evaluations=len(events))
        ctx.cov['disagreements_checked'] += len(events)
        ctx.cov['traces_validated_against_impl'] += 1
        if crash is not None:       # the crashing event has no defined view; everything before it is compared
            model, impl = model[:len(impl) - 1], impl[:-1]
        if model != impl:
            k = next((i for i in range(min(len(model), len(impl))) if model[i] != impl[i]), min(len(model), len(impl)))
            ctx.disagree(tag, {'task': task, 'defaults': dflt, 'events': events[:k + 1], 'first_difference_at_event': k + 1},
                         model[k] if k < len(model) else None, impl[k] if k < len(impl) else None)
    s0['events'] = s0.get('events', 0) + nev
    if done:
        ctx.sample({'suite': tag, 'task': done[-1][0], 'defaults': done[-1][1], 'events': done[-1][2]})


def gen_cases(ctx, n):
    rng = ctx.rng
    out = []
    profs = ['retry'] * 4 + ['waits'] * 2 + ['timeout'] * 2 + ['mix'] * 3 + ['typing'] * 2
    for i in range(n):
        p = profs[i % len(profs)]
        task, dflt, mode = gen_trace_case(rng, p)
        out.append({'task': task, 'dflt': dflt, 'mode': mode, 'profile': p})
    return out


def engine_traces(ctx):
    """The real engine (DB, scheduler, executor) under the lead's deterministic driver: oracle only."""
    from harness import engine_explore as ee
    ee.explore(ctx, ['C08'], ['retry', 'policies'], ctx.n(24, 240), 4, suite='engine_explore_C08')


def run(ctx):
    ctx.cov['rule'] = ('validate: every policy class x value pool; build: random task/task-defaults policy specs (literals, '
                       'expressions, absent, literal zeros); retry_decision: exhaustive count x retry_no x state x clause '
                       'presence/truth x delay x join; traces: profiles retry/waits/timeout/mix/typing, schedules generated on the '
                       'real code (due / late / any-order job firing, ticks, resume, no-op events), model compared after every '
                       'event; distinct = distinct (suite, input)')
    with installed():
        suite_validate(ctx)
        suite_build(ctx)
        suite_retry_decision(ctx)
        suite_traces(ctx, [dict(c, mode='due') for c in CORPUS], tag='traces_corpus')
        suite_traces(ctx, gen_cases(ctx, ctx.n(1800, 24000)))
    engine_traces(ctx)
    ctx.assumptions += ['expressions evaluate to the values the generator put into the task context (real YAQL evaluates them)',
                        'one engine process: a scheduler job or an action result is processed in one transaction',
                        'the workflow controller maps the final task state to the follow-up commands (stub)']


def search(ctx):
    """Widened oracle-only search (no model)."""
    rng = ctx.rng
    seen = {}
    with installed():
        for c in gen_cases(ctx, 6000):
            events, snaps, crash = run_trace_real(c['task'], c['dflt'], rng=rng, mode=c['mode'], max_events=36)
            for sig, what in oracle_trace(ctx, c['task'], c['dflt'], c['mode'], events, snaps, crash):
                seen[sig] = seen.get(sig, 0) + 1
                if seen[sig] <= 3:
                    ctx.fail(sig, what, trace_replay_obj(c['task'], c['dflt'], c['mode'], events))


def _untuple(d):
    if d is None:
        return None
    out = {}
    for k, v in d.items():
        if k == 'retry':
            out[k] = {'count': tuple(v['count']), 'delay': tuple(v['delay']), 'cont': v['cont'], 'brk': v['brk']}
        else:
            out[k] = tuple(v)
    return out


def replay(obj):
    r = obj.get('replay', {})
    if r.get('kind') != 'trace':
        print(json.dumps(obj, indent=1)[:4000])
        return 1
    task, dflt = _untuple(r['task_policies']), _untuple(r['task_defaults'])
    events = [list(e) for e in r['events']]
    events, snaps, crash = run_trace_real(task, dflt, events=events)
    print('task policies: %r\ntask-defaults: %r' % (task, dflt))
    for ev, (pre, post) in zip(events, snaps):
        print('%-40r -> t=%-3d task=%-9s info=%-45r retry_no=%-4r attempts=%s jobs=%s dispatched=%s wf=%s' % (
            ev, post['now'], post['state'], post['info'], post['rno'], [a[0] for a in post['acts']],
            [(j['at'], j['name']) for j in post['jobs']], post['disp'], post['wf']))
    fails = oracle_trace(None, task, dflt, r.get('schedule_mode', 'due'), events, snaps, crash)
    for sig, what in fails:
        print('PROPERTY FAILS [%s]: %s' % (sig, what))
    if not fails:
        print('property holds on this trace')
    return 1 if fails else 0
