"""C10 - engine-level check: Coq theorems over coq/Model/Engine.v (Properties/C10.v), trace
correspondence between the model and the REAL engine driven by harness/engine_driver.py, and the
implementation-side oracles of harness/engine_trace.py (Observer) restricted to this property.

Pause clause over the execution tree ("after a pause request is acknowledged the workflow and its running sub-workflows
are PAUSED"): harness/engine_stoptree.py with coq/Model/StopTree.v (module Tree of Properties/C10.v) - pause / resume on the
root or a nested execution of call chains of depth 0-3, mixed with stops; correspondence of pause / resume requests with
the model - also of the scheduled job that reports the pause / resume of one item's sub-workflow to its with-items parent
task (notify_at) -, oracle: right after an acknowledged pause the execution and every unfinished execution below it is
PAUSED, and whenever an execution BECOMES PAUSED (request or upward report) no sub-workflow below it is left RUNNING.
Seeded change "_pause_subworkflows skips task executions that are not RUNNING" (a PAUSED with-items task with a RUNNING
sibling item): VIOLATION (pause:running-sub-workflow-below-newly-paused-workflow:with-items-task, pause:sub-workflow-not-PAUSED,
model disagreements on notify_at / pause_at); it was missed before the upward report was observed and modelled.

Self-test (scratch worktrees, VERIF_REPO): reverting any of the engine fix commits recorded in
known_findings.json makes this or a sibling engine check report a VIOLATION (see DESIGN.md appendix).
"""
from harness import engine_stoptree
from harness import engine_trace as et

GEN = ['States']
PROPS = ['C10'] + ['C01']

MANIFEST = {
    'level_text': 'Coq theorems (all programs/states/events/histories): no task execution is created while PAUSED by any event except resume, the pause is held, results are still recorded and final; a join-free run with pauses/resumes/stops anywhere never hangs; "resume reaches the same result as the unpaused run" is proved for join-free forward command-free definitions with constant guards (same executions per task, same final task states, same workflow state; C10_pause_resume_same_result_simple) and not proved beyond that class nor for the output, the pause clause over the execution tree is proved on Model/StopTree.v (every tree / address / state: closed form of the pause walk - exactly the RUNNING executions of the subtree become PAUSED, also below finished ones; after an accepted pause at any address the subtree of that execution is its paused form; the pause of the sub-workflow of one item, reported to a with-items task, comes down again to the sibling items whatever the task states are; finished executions are never touched) and tied to the engine by correspondence of every pause / resume request on generated call chains (depth 0-3, plain / with-items) plus the oracle "acknowledged => the execution and all unfinished executions below it PAUSED"; the other sub-workflow clauses are not proved: trace correspondence with pause/resume at random positions plus oracle (no creation while PAUSED on committed states; quiescent => final after resume).',
    'level_note': 'Model = control-flow core of the engine (one direct-workflow execution, action tasks, joins all/one/N, on-success/on-error/on-complete with guards whose value is part of the program, engine commands fail/succeed/pause/noop, operator pause/resume/stop/rerun/skip, duplicate deliveries). One event = one committed transaction (tx_lock); data flow, policies, with-items and sub-workflows are outside this model (component models / oracles). Trusted: the harness interception points (rpc client, executor, post_tx_queue threads, scheduler rows, clock, uuid source), view abstraction, Gen/States translator.',
    'technique': 'Coq per-step + history induction; trace correspondence with pause/resume injection; oracle',
    'design_ref': '6 C10, 4, 5',
    'engine': 'coq+engine-harness',
}


def run(ctx):
    ctx.cov['rule'] = ('programs: seeded generator of direct workflows (1-6 tasks, forks, joins all/one/N, guards true/false/raising in '
                       'YAQL or Jinja, engine commands, 20% with cycles), outcome oracle per task attempt; schedules: seeded random walks over the '
                       'enabled events of the real engine with injection profiles [pause, pause, operator] (both scheduler types); '
                       'distinct = distinct (program, event list); non-trivial = at least 6 events')
    et.trace_suite(ctx, ['C10'], ['pause', 'pause', 'operator'], 220, 3000, suite='engine_trace_C10')
    # feature level (with-items, retry / wait / timeout, sub-workflows, data flow), real engine, oracle only:
    # quiescent => final, no lost message, no internal error; for C10 also: runs with pause/resume end like runs without
    from harness import engine_explore as ee
    ee.explore(ctx, ['C10', 'C01'], ee.FEATURES, ctx.n(30, 300), 4, suite='engine_explore_C10')
    # "tasks created before the pause may still start and finish, including their retries, delays and remaining items":
    # the features with attempts / delays / items, paused on three of four schedules at rates 6 / 12 / 25 % per step
    # (results delivered while PAUSED), compared with the never-paused schedule of the same program
    ee.explore(ctx, ['C10', 'C01'], ['retry', 'retry', 'policies', 'with_items', 'retry'], ctx.n(25, 300), 4,
               suite='engine_explore_C10_paused', pause_heavy=True)
    ctx.cov['rule'] += '; tree part: ' + engine_stoptree.RULE
    engine_stoptree.run(ctx, ctx.n(160, 2000), suite='engine_stoptree_C10', props=('C10',))


def search(ctx):
    """wider oracle search on the real engine (no model involved)"""
    import random
    rng = random.Random('search/C10/%d' % ctx.seed)
    jobs = []
    for i in range(1500):
        prof = ['pause', 'pause', 'operator'][i % 3]
        prog = et.gen_program(rng, max_tasks=6, allow_cycles=(rng.random() < 0.2))
        jobs.append({'tasks': prog.tasks, 'seed': 7000003 + i, 'inject': et.PROFILES[prof], 'max_events': 160})
    for t in et.run_jobs(jobs):
        for f in t.failures:
            if f['property'] in PROPS:
                ctx.fail(f['signature'], f['what'], dict(t.to_json(), events=t.labels[:f['at_event'] + 1], kind='engine-trace'))
    engine_stoptree.search(ctx, 800, props=('C10',))


def replay(obj):
    if obj.get('replay', obj).get('kind') == 'engine-stoptree':
        return engine_stoptree.replay(obj)
    return et.replay_case(obj)
