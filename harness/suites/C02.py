"""C02 - the result of a run does not depend on event order, timing or engine caches.

Theorems (Properties/C02.v): the versioned-context merge is commutative / idempotent (and the upstream
fold order-independent) on conflict-free contexts (Proofs/CtxProofs.v, tied to data_flow.py by the C05
suite), the command sort of dispatcher._rearrange_commands (exact model of list.sort with the
inconsistent comparator) only permutes, cache eviction is the identity in the engine model, the
"last execution by name" choice - the only dependence on the DB's id order - is id-independent
when task names are unique.  The global statement (every complete schedule of a den_class
program ends in the same view) is NOT proved; it is explored on the real engine: every generated
program is run under several delivery orders, with and without dropping the definition caches
between events, both scheduler types, and the final summaries must coincide; every such trace is
also replayed in the model (correspondence).
"""
from harness import core
from harness import engine_trace as et

GEN = ['States']

MANIFEST = {
    'level_text': 'Coq theorems for all contexts / command lists / states: merge-by-version commutative+idempotent on conflict-free contexts, '
                  'command sort is a permutation (exact model of CPython list.sort with the non-transitive comparator of the dispatcher), '
                  'cache eviction is the identity, id order irrelevant when task names are unique; the global order-independence of whole runs is '
                  'NOT proved (labelled partial): it is explored on the real engine (several delivery orders x cache eviction x scheduler type per '
                  'program, summaries must coincide) with every trace also checked against the engine model.',
    'level_note': 'Global confluence of the engine is not a theorem here; deterministic actions are modelled by a fixed outcome oracle; '
                  'den_class = acyclic, join: all, no fail/succeed/pause commands. Trusted: harness interception points, view abstraction.',
    'technique': 'Coq algebraic lemmas (Ctx merge, PySort permutation, eviction identity) + multi-schedule differential exploration of the real engine + trace correspondence',
    'design_ref': '6 C02',
    'engine': 'coq+engine-harness',
}


def suite_rearrange(ctx):
    """Model/PySort.py_sort + Engine.rearrange vs the real dispatcher._rearrange_commands on generated command lists."""
    import random
    from mistral.db.v2 import api as db_api  # noqa
    from mistral.engine import dispatcher
    from mistral.workflow import commands
    rng = ctx.rng
    n = ctx.n(600, 8000)

    class Spec:
        def __init__(self, name):
            self._n = name

        def get_name(self):
            return self._n

    def mk(kind, name):
        if kind == 'run':
            c = commands.RunTask.__new__(commands.RunTask)
            c.task_spec = Spec('t%d' % name)
            c.wait = False
            c.unique_key = None
            return c
        if kind == 'join':
            c = commands.RunTask.__new__(commands.RunTask)
            c.task_spec = Spec('t%d' % name)
            c.wait = True
            c.unique_key = 'join-task-WF-t%d' % name
            return c
        cls = {'fail': commands.FailWorkflow, 'succeed': commands.SucceedWorkflow, 'pause': commands.PauseWorkflow,
               'noop': commands.Noop}[kind]
        return cls.__new__(cls)
    exprs, cases = [], []
    for _ in range(n):
        k = rng.choice([0, 1, 2, 3, 4, 5, 6, 8])
        kinds = [rng.choice(['run', 'run', 'join', 'join', 'join', 'noop', 'fail', 'succeed', 'pause'] if rng.random() < 0.4
                            else ['run', 'join', 'join']) for _ in range(k)]
        names = [rng.randrange(10) for _ in range(k)]
        cmds = [mk(a, b) for a, b in zip(kinds, names)]
        real = dispatcher._rearrange_commands(list(cmds))

        def tok(c):
            if isinstance(c, commands.RunTask):
                return ('J' if c.wait else 'R') + c.task_spec.get_name()[1:]
            return type(c).__name__[0]
        coq = '[' + '; '.join({'run': 'CRunTask %d OnSuccess false None', 'join': 'CRunTask %d OnSuccess true None'}[a] % b
                               if a in ('run', 'join') else
                               {'fail': 'CSetState ERROR', 'succeed': 'CSetState SUCCESS', 'pause': 'CSetState PAUSED', 'noop': 'CNoop'}[a]
                               for a, b in zip(kinds, names)) + ']'
        exprs.append('map (fun c => match c with CRunTask n _ w _ => ((if w then 1 else 0), n) | CSetState ERROR => (2,0) '
                     '| CSetState SUCCESS => (3,0) | CSetState _ => (4,0) | CNoop => (5,0) | _ => (6,0) end) (rearrange %s)' % coq)
        cases.append((list(zip(kinds, names)), [tok(c) for c in real]))
    res = core.coq_eval('c02rearr', ['Gen.States', 'Model.Engine'], exprs)
    import re
    for (inp, real), r in zip(cases, res):
        pairs = re.findall(r'\((\d+), (\d+)\)', r)
        model = []
        for a, b in pairs:
            model.append({'0': 'R' + b, '1': 'J' + b, '2': 'F', '3': 'S', '4': 'P', '5': 'N', '6': '?'}[a])
        ctx.count('rearrange', tuple(inp), nontrivial=len(inp) >= 2)
        ctx.cov['disagreements_checked'] += 1
        if model != real:
            ctx.disagree('rearrange', {'commands': inp}, model, real)
    ctx.sample({'suite': 'rearrange', 'commands': cases[-1][0], 'real': cases[-1][1]})


def run(ctx):
    ctx.cov['rule'] = ('rearrange: seeded command lists (0-8 commands: plain/join RunTask over 10 names, engine commands); '
                       'schedule_independence: seeded den_class programs (acyclic, join: all, guards) each run under several seeded '
                       'delivery orders, odd ones with definition caches dropped with probability 0.3 before an event, legacy and default '
                       'scheduler; engine_explore_C02: composed feature programs (with-items, sub-workflows, retry, wait, pause-before, join) under 5 '
                       'delivery orders incl. a paused run and the default scheduler; distinct = distinct program / command list; non-trivial = >= 3 tasks / >= 2 commands')
    suite_rearrange(ctx)
    et.schedule_independence(ctx, ctx.n(40, 400), ctx.n(5, 8))
    et.trace_suite(ctx, ['C02'], ['evict', 'plain'], ctx.n(60, 600), ctx.n(60, 600), suite='engine_trace_C02')
    # feature level (real engine only): composed with-items / sub-workflow / retry / wait / pause-before / join
    # programs whose final summary must not depend on the delivery order, scheduler type or pause points
    from harness import engine_explore as ee
    ee.explore(ctx, ['C02', 'C01'], ['compose', 'dataflow', 'compose', 'defaults', 'nullflow'], ctx.n(20, 200), 5, suite='engine_explore_C02')


def search(ctx):
    et.schedule_independence(ctx, 300, 8, suite='schedule_independence_search')


def replay(obj):
    return et.replay_case(obj)
