"""C13 - scheduled jobs run once, not early, survive crashes, and only if committed.

Ties Model/Sched.v (default scheduler, scheduled_jobs_v2) and Model/SchedLegacy.v (legacy scheduler,
delayed_calls_v2) to the real code by driving REAL scheduler objects step by step, threads never started:

  DefaultScheduler.schedule / _persist_job / _schedule_in_memory   inside real db_api.transaction() blocks that are
                                                                   later committed or aborted          -> Persist/Commit/Rollback
  DefaultScheduler._dispatcher         the real loop, run until it would wait (fake Condition)          -> Dispatch
  DefaultScheduler._process_memory_job the real method in a gated thread (stops before _invoke_job and
                                       before _delete_scheduled_job; a crash kills it there)            -> MemStart/MemInvoke/MemDelete
  DefaultScheduler._process_store_jobs the same, incl. the real get_scheduled_jobs_to_start and
                                       _capture_scheduled_job (compare-and-swap)                        -> PollSelect/PollCapture/PollInvoke/PollDelete
  DefaultScheduler.has_scheduled_jobs  called inside/outside the open transaction                      -> Query
  LegacyScheduler.schedule, _process_delayed_calls (gated before every target call and before
  delete_calls), has_scheduled_jobs                                                                      -> LPersist .. LQuery
  virtual clock = mistral_lib.utils.utc_now_sec; in-memory sqlite booted like DbTestCase; worker processes.

A write by "another process" between the SELECT and the compare-and-swaps of a poll is injected behind the ORM's
back (ops pselect/lselect with a third argument) - the only way to exercise the compare-and-swap inside one process.

Suites: corpus (minimised cases), systematic (interleavings of per-actor tokens: memory path / store poll / crash /
clock jumps; exhaustive in the thorough tier where <= 10100 interleavings), default and legacy (seeded random scenarios, half of them
drained: everybody dies, the clock passes every boundary, a fresh instance polls until idle), components
(get_scheduled_jobs_to_start / _capture_scheduled_job / get_delayed_calls_to_start / _capture_calls on random tables
vs candidates / cas / lcandidates). Every scenario is compared with `view (run cfg steps init)` evaluated in Coq.

Oracle (no model): invocation log + rows of the real run judged against the property text - not early; never a job
whose transaction rolled back or is still open; more than one invocation only if some capturer did not delete the job
within the capture timeout; after a drain every committed job ran and no row is left; a store poll must take what is
past execute_at+pickup and uncaptured/captured longer than the timeout ago and nothing captured more recently;
has_scheduled_jobs(key, processing) == a row with that key the caller can see is (not) captured.

FIXED finding F8 (repo commit 75ec1054; signature pending-query:reports-in-memory-job-without-matching-row): DefaultScheduler.
has_scheduled_jobs used to answer True from its in-memory copy of a job whose scheduling transaction rolled back (also:
whose row was meanwhile captured or finished by another scheduler). Model: qmem flag of cfg, generated into
Gen/SchedQuery.v from the source by translate/tr_schedquery.py (now false); C13_pending_query_exact is unconditional for
the generated flag and stops compiling if the shortcut returns; the old witness stays in the corpus
(regression-F8-rollback-leaves-in-memory-copy) and must be clean; reverting 75ec1054 in a scratch worktree gives
obligation theorem:C13_pending_query_exact broken + VIOLATION with that witness as replay.

Self-test (scratch worktree of /repo, at the time with the candidate fix = 75ec1054 applied; VERIF_REPO=... ./check C13):
  m1  _capture_scheduled_job without query_filter            -> VIOLATION captured-although-taken-by-another-process (+930 disagreements)
  m2  get_scheduled_jobs_to_start: min_captured_at = now      -> VIOLATION recapture-within-timeout, early-or-recapture:store-query, ...
  m3  _dispatcher pops half a second early (delay - 0.5, >= 1) -> VIOLATION early
  m4  _process_memory_job deletes the row before invoking    -> VIOLATION never-ran (crash in between loses the job)
  m5  pickup filter `<=` instead of `<`                       -> VIOLATION ... no-failing-input-found (harmless boundary change, 545 disagreements)
  m6  legacy time_filter now + 2s                             -> VIOLATION early:legacy, early:legacy-poll
  m7  legacy _capture_calls without query_filter             -> VIOLATION captured-although-taken-by-another-process:legacy
  m8  _process_memory_job goes on after a failed capture     -> VIOLATION ran-twice, ran-rolled-back
  m9  capture always expects captured_at NULL                 -> VIOLATION poll-selected-but-not-captured, never-ran, rows-left-after-drain
  m13 has_scheduled_jobs eq/neq swapped                       -> VIOLATION pending-query:misses-job, pending-query:reports-nonexistent-job
  m3 on the then unpatched tree                               -> two VIOLATION lines (F8 + early)
Missed before the harness was strengthened: m7 (needed the injected foreign write), m4 (threads stopped at an
unexpected gate were not tracked), m1 as ran-twice (a failed delete did not count as "finished").
"""
import datetime
import json
import re
import threading

from harness import core
from harness.core import coq_N, coq_nat, coq_list, coq_bool

GEN = ['SchedQuery']

MANIFEST = {
    'level_text': 'Coq theorems over step-granular executable models of both schedulers, each quantified over ALL step lists '
                  '(any number of instances, jobs, transactions; any interleaving of persist/commit/rollback/dispatch/capture/'
                  'invoke/delete/poll/crash/tick) and all configurations, proved by invariants + induction: not early; only '
                  'committed jobs run, rolled back jobs never run; at most once under the explicit hypothesis that every capturer '
                  'deletes within the capture timeout and nobody dies between invoke and delete (and a witness that the hypothesis '
                  'is needed); eligibility after execute_at+pickup / captured_at+timeout and "an undisturbed poll of an idle '
                  'instance invokes exactly what it selected" in every reachable state, hence crash recovery; pending query '
                  'exact for the code as translated (flag generated from the source; regression statement for the old in-memory shortcut); legacy: not early, committed only, at most '
                  'once unconditionally, crash recovery refuted (stuck for ever). Models tied to the code by differential runs of '
                  'the real DefaultScheduler/LegacyScheduler methods under a virtual clock (thousands of step lists incl. crashes '
                  'between any two steps, recaptures, failed deletes, batch limits, injected foreign writes) and of the real '
                  'store query / compare-and-swap on random tables; implementation-side oracle states the property directly.',
    'level_note': 'Modelled, not exercised on the implementation: a capture attempt while the scheduling transaction is open and a '
                  'poll by another process over uncommitted rows (tx_lock + one shared sqlite connection serialise them); '
                  'interleavings between the SELECT and the compare-and-swaps of one poll other than the injected foreign write. '
                  'The model linearises each compare-and-swap; READ COMMITTED row locking of MySQL/PostgreSQL is trusted to make '
                  'that sound. Time is the scheduler\'s own clock (utc_now_sec, whole seconds): sub-second truncation and '
                  'fractional run_after are outside the model. Threads/GIL scheduling replaced by explicit steps; thread pool '
                  'size not modelled (any submitted job may start). Translator tr_schedquery.py (AST shape of has_scheduled_jobs).',
    'technique': 'Coq proof (invariants by induction over step lists) over hand models; source flag translator; '
                 'step-driven differential correspondence with gated threads; property oracle',
    'design_ref': '6 C13',
}

IMPORTS = ['Model.Sched', 'Gen.SchedQuery']
IMPORTS_LEGACY = ['Model.SchedLegacy']

T0 = datetime.datetime(2030, 1, 1)
CLOCK = [0]
STEPNO = [0]
INVOCATIONS = []          # (job number, clock, instance, step number) appended by the scheduled target function
CURRENT = [None]          # instance whose thread is being resumed
_BOOTED = [False]
THREAD_OF = {}            # thread ident -> Gated

TARGET = 'harness.suites.C13.c13_record'


def c13_record(tag):
    """The function every scheduled job invokes. Threads of the legacy scheduler stop here before each call
    (LegacyScheduler._invoke_calls is one loop over all captured calls)."""
    g = THREAD_OF.get(threading.get_ident())
    if g is not None and g.kind == 'legacy':
        g.pause(('invoke', tag))
    INVOCATIONS.append((tag, CLOCK[0], CURRENT[0], STEPNO[0]))


def virtual_now():
    return T0 + datetime.timedelta(seconds=CLOCK[0])


def ts(n):
    return None if n is None else T0 + datetime.timedelta(seconds=n)


def secs(dt):
    if dt is None:
        return None
    d = dt - T0
    return d.days * 86400 + d.seconds


def make_ctx():
    from mistral import context as auth_context
    return auth_context.MistralContext.from_dict({
        'user_name': 'test-user', 'user': '1-2-3-4', 'tenant': '<default-project>',
        'project_id': '<default-project>', 'project_name': 'test-project', 'is_admin': False})


def boot():
    """In-memory sqlite booted like mistral.tests.unit.base.DbTestCase; virtual clock."""
    if _BOOTED[0]:
        return
    try:
        import oslo_service.backend as service_backend
        service_backend.init_backend(service_backend.BackendType.THREADING)
    except Exception:
        pass
    from oslo_config import cfg
    from mistral.db.v2 import api as db_api
    from mistral import config  # noqa: registers options
    from mistral import context as auth_context
    import mistral_lib.utils as mlu
    cfg.CONF.set_default('connection', 'sqlite://', group='database')
    cfg.CONF.set_default('max_overflow', -1, group='database')
    cfg.CONF.set_default('max_pool_size', 1000, group='database')
    db_api.setup_db()
    auth_context.set_ctx(make_ctx())
    # the only time source of the anchored code is mistral_lib.utils.utc_now_sec, looked up at call time
    mlu.utc_now_sec = virtual_now
    _BOOTED[0] = True


def clear_stale_begin_marker():
    """oslo.db marks 'a BEGIN was emitted' on the (single, shared) sqlite connection; a session that is only cleaned up
    by the garbage collector leaves the marker set and the next transaction would silently run in autocommit. No
    transaction is open between two scenarios, so a marker found here is stale. Returns True if one was found."""
    from mistral.db.sqlalchemy import base as db_base
    c = db_base.get_engine().connect()
    try:
        return c.info.pop('in_transaction', None) is not None
    finally:
        c.close()


def set_sched_conf(cfgv):
    from oslo_config import cfg
    pickup, timeout, batch = cfgv
    cfg.CONF.set_override('pickup_job_after', float(pickup), group='scheduler')
    cfg.CONF.set_override('captured_job_timeout', float(timeout), group='scheduler')
    cfg.CONF.set_override('batch_size', batch, group='scheduler')


class Crash(BaseException):
    """Raised inside a gated thread to model the death of its process."""


class Gated:
    """Runs fn in a thread that stops at gates; exactly one thread runs at any time."""

    def __init__(self, inst, fn, kind):
        self.inst = inst
        self.fn = fn
        self.kind = kind
        self.to_worker = threading.Semaphore(0)
        self.to_main = threading.Semaphore(0)
        self.at = None           # ('invoke'|'delete', job number) | ('done'|'killed', None) | ('error', name)
        self.kill = False
        self.captures = []       # (job number, captured?, captured_at secs) in call order
        self.candidates = None   # job numbers returned by the store query (poll threads)
        self.ptr = 0             # captured jobs fully processed (poll threads)
        self.thread = threading.Thread(target=self._main, daemon=True)
        self.started = False

    def _main(self):
        THREAD_OF[threading.get_ident()] = self
        self.to_worker.acquire()
        try:
            if self.kill:
                raise Crash()
            self.fn()
            self.at = ('done', None)
        except Crash:
            self.at = ('killed', None)
        except BaseException as e:   # noqa: whatever the real thread would die of
            self.at = ('error', type(e).__name__)
        finally:
            THREAD_OF.pop(threading.get_ident(), None)
            self.to_main.release()

    def pause(self, label):
        self.at = label
        self.to_main.release()
        self.to_worker.acquire()
        if self.kill:
            raise Crash()

    def resume(self):
        prev = CURRENT[0]
        CURRENT[0] = self.inst.idx
        if not self.started:
            self.started = True
            self.thread.start()
        self.to_worker.release()
        if not self.to_main.acquire(timeout=120):
            raise RuntimeError('gated thread did not come back')
        CURRENT[0] = prev
        return self.at

    def finished(self):
        return self.at is not None and self.at[0] in ('done', 'killed', 'error')

    def crash(self):
        if self.finished():
            return
        self.kill = True
        self.resume()
        self.thread.join(timeout=10)

    def held(self):
        """Captured and not yet deleted jobs of this thread: [(job, cap, invoked?)]."""
        caps = [(j, c) for (j, ok, c) in self.captures if ok]
        out = []
        for idx, (j, c) in enumerate(caps):
            if idx < self.ptr:
                continue
            invoked = (idx == self.ptr and self.at is not None and self.at[0] == 'delete')
            out.append((j, c, invoked))
        return out


def current_gated():
    return THREAD_OF.get(threading.get_ident())


class FakeCond:
    """Condition replacement: the real dispatcher loop runs until it would wait, then stops."""

    def __init__(self, sched):
        self.sched = sched
        self.lock = threading.RLock()

    def __enter__(self):
        self.lock.acquire()
        return self

    def __exit__(self, *a):
        self.lock.release()

    def wait(self, timeout=None):
        self.sched._stopped = True

    def notify(self, n=1):
        pass

    def notify_all(self):
        pass


class FakeExecutor:
    def __init__(self, inst):
        self.inst = inst

    def submit(self, fn, *args):
        self.inst.world.pool.append((self.inst, fn, args))

    def shutdown(self, wait=False, **kw):
        pass


KEYS = [None, 'k1', 'k2']
FOREIGN = 9     # instance id of the process that only exists as an injected write
DRAINER = 7     # instance id of the fresh scheduler that polls until idle at the end of a drained scenario


class Inst:
    """One real DefaultScheduler object whose threads are never started."""

    def __init__(self, world, idx):
        from oslo_config import cfg
        from mistral.scheduler import default_scheduler as ds
        self.world = world
        self.idx = idx
        s = ds.DefaultScheduler(cfg.CONF.scheduler)
        s._executor.shutdown(wait=False)
        s._cond = FakeCond(s)
        s._executor = FakeExecutor(self)
        orig_capture = s._capture_scheduled_job
        orig_invoke = s._invoke_job
        orig_delete = s._delete_scheduled_job

        def capture(job):
            before = job.captured_at
            ok = orig_capture(job)
            g = current_gated()
            num = world.num_of.get(job.id)
            world.stat('capture_ok' if ok else 'capture_failed')
            if ok and before is not None:
                world.stat('recapture')
            if g is not None:
                g.captures.append((num, bool(ok), secs(job.captured_at) if ok else None))
            if ok:
                world.holders.append({'job': num, 'inst': idx, 'cap': CLOCK[0], 'thread': g, 'end': None, 'end_at': None})
            return ok

        def invoke(auth_ctx, func, args):
            g = current_gated()
            if g is not None:
                g.pause(('invoke', args.get('tag')))
            return orig_invoke(auth_ctx, func, args)

        def delete(job):
            g = current_gated()
            num = world.num_of.get(job.id)
            if g is not None:
                g.pause(('delete', num))
            try:
                return orig_delete(job)
            finally:
                # the capturer is done with the job now, whether or not the row was still there
                if g is not None:
                    g.ptr += 1
                    for h in world.holders:
                        if h['thread'] is g and h['job'] == num and h['end'] is None:
                            h['end'], h['end_at'] = 'deleted', CLOCK[0]

        s._capture_scheduled_job = capture
        s._invoke_job = invoke
        s._delete_scheduled_job = delete
        self.s = s


class World:
    """Drives 1..n real DefaultScheduler instances step by step and records the model steps."""

    def __init__(self, cfgv):
        boot()
        from mistral.db.v2 import api as db_api
        self.db_api = db_api
        self.cfgv = cfgv
        set_sched_conf(cfgv)
        stale = clear_stale_begin_marker()
        db_api.delete_scheduled_jobs()
        CLOCK[0] = 0
        STEPNO[0] = 0
        del INVOCATIONS[:]
        self.insts = {}
        self.jobs = []
        self.num_of = {}
        self.pool = []
        self.workers = []
        self.polls = []
        self.tx = None
        self.next_tx = 0
        self.obs = []
        self.msteps = []
        self.holders = []
        self.fails = []        # oracle failures found while running: (signature, what)
        self.stats = {'stale_sqlite_begin_marker_cleared': 1} if stale else {}
        self._orig_select = db_api.get_scheduled_jobs_to_start

        self.inject = 0

        def rec_select(*a, **kw):
            res = self._orig_select(*a, **kw)
            g = current_gated()
            if g is not None:
                g.candidates = [self.num_of.get(r.id) for r in res]
                g.injected = 0
                if self.inject:
                    # another process captures the first rows between this SELECT and the compare-and-swaps
                    # (what READ COMMITTED allows); written behind the ORM's back so the poller's objects stay stale
                    import sqlalchemy as sa
                    from mistral.db.sqlalchemy import base as db_base
                    from mistral.db.v2.sqlalchemy import models
                    t = models.ScheduledJob.__table__
                    ses = db_base._get_thread_local_session()
                    for r in res[:self.inject]:
                        ses.execute(sa.update(t).where(t.c.id == r.id).values(captured_at=virtual_now()))
                        g.injected += 1
                        self.holders.append({'job': self.num_of.get(r.id), 'inst': FOREIGN, 'cap': CLOCK[0], 'thread': None,
                                             'end': 'crash', 'end_at': CLOCK[0]})
            return res
        db_api.get_scheduled_jobs_to_start = rec_select

    def close(self):
        for g in self.workers + self.polls:
            g.crash()
        if self.tx is not None:
            self._end_tx(False)
        self.db_api.get_scheduled_jobs_to_start = self._orig_select

    def inst(self, i):
        if i not in self.insts:
            self.insts[i] = Inst(self, i)
        return self.insts[i]

    def stat(self, k, n=1):
        self.stats[k] = self.stats.get(k, 0) + n

    # -- observation -------------------------------------------------------
    def in_tx(self, fn):
        """get_scheduled_jobs / get_scheduled_jobs_count run their query on an already closed session when called
        outside a transaction (the session auto-begins and is only cleaned up by the garbage collector, which on
        sqlite leaves oslo.db's BEGIN marker set and breaks the next transaction). The engine calls them inside a
        transaction; so does the harness."""
        if self.tx is not None:
            return fn()
        with self.db_api.transaction():
            return fn()

    def rows(self):
        out = []
        for r in self.in_tx(self.db_api.get_scheduled_jobs):
            out.append((self.num_of.get(r.id), secs(r.execute_at), secs(r.captured_at), KEYS.index(r.key)))
        return sorted(out)

    def view(self):
        mem, heap = [], []
        for i, inst in sorted(self.insts.items()):
            for jid_, job in inst.s.in_memory_jobs.items():
                mem.append((i, self.num_of.get(jid_), KEYS.index(job.key), secs(job.captured_at)))
            for (ex, _seq, job) in inst.s._heap:
                heap.append((i, self.num_of.get(job.id), secs(ex)))
        return {
            'now': CLOCK[0],
            'rows': self.rows(),
            'log': [(j, t, i) for (j, t, i, _n) in INVOCATIONS],
            'obs': list(self.obs),
            'mem': sorted(mem),
            'heap': sorted(heap),
            'pool': [(inst.idx, self.num_of.get(args[0].id)) for (inst, _fn, args) in self.pool],
            'workers': [(g.inst.idx, [(j, c, inv) for (j, c, inv) in g.held()]) for g in self.workers],
            'polls': [(g.inst.idx, [(j, c, inv) for (j, c, inv) in g.held()]) for g in self.polls],
        }

    # -- enabledness (used by the generators) -----------------------------------
    def enabled(self, op):
        k = op[0]
        db_free = self.tx is None
        if k in ('tick', 'persist', 'dispatch', 'crash', 'query'):
            return True
        if k in ('commit', 'rollback'):
            return self.tx is not None
        if k == 'mstart':
            return db_free and op[1] < len(self.pool)
        if k == 'minvoke':
            return op[1] < len(self.workers) and self.workers[op[1]].at[0] == 'invoke'
        if k == 'mdelete':
            return db_free and op[1] < len(self.workers) and self.workers[op[1]].at[0] == 'delete'
        if k == 'pselect':
            return db_free and not any(g.inst.idx == op[1] for g in self.polls)
        if k == 'pinvoke':
            return op[1] < len(self.polls) and self.polls[op[1]].at[0] == 'invoke'
        if k == 'pdelete':
            return db_free and op[1] < len(self.polls) and self.polls[op[1]].at[0] == 'delete'
        return False

    # -- steps ---------------------------------------------------------------------
    def apply(self, op):
        """Execute one harness op on the real code (no-op when not enabled). Returns True if executed."""
        op = tuple(op)
        if not self.enabled(op):
            return False
        STEPNO[0] += 1
        getattr(self, 'op_' + op[0])(*op[1:])
        return True

    def op_tick(self, d):
        CLOCK[0] += d
        self.msteps.append('Tick %s' % coq_N(d))

    def _end_tx(self, commit):
        txid, cm = self.tx
        self.tx = None
        if commit:
            cm.__exit__(None, None, None)
        else:
            class Abort(Exception):
                pass
            try:
                cm.__exit__(Abort, Abort(), None)
            except Abort:
                pass
        for j in self.jobs:
            if j['tx'] == txid and j['state'] == 'open':
                j['state'] = 'committed' if commit else 'rolled'
                j['end_step'] = STEPNO[0]
        return txid

    def op_persist(self, i, delay, key, mode):
        from mistral.scheduler import base as sbase
        inst = self.inst(i)
        num = len(self.jobs)
        auto = self.tx is None and mode == 'auto'
        if self.tx is None:
            txid = self.next_tx
            self.next_tx += 1
            if not auto:
                cm = self.db_api.transaction()
                cm.__enter__()
                self.tx = (txid, cm)
        else:
            txid = self.tx[0]
        job = sbase.SchedulerJob(run_after=delay, func_name=TARGET, func_args={'tag': num}, key=KEYS[key])
        before = set(inst.s.in_memory_jobs)
        inst.s.schedule(job)
        new = [x for x in inst.s.in_memory_jobs if x not in before]
        assert len(new) == 1, new
        self.num_of[new[0]] = num
        self.jobs.append({'num': num, 'id': new[0], 'inst': i, 'tx': txid, 'delay': delay, 'key': key, 'at': CLOCK[0],
                          'state': 'committed' if auto else 'open', 'end_step': STEPNO[0]})
        self.msteps.append('Persist %s %s %s %s' % (coq_nat(i), coq_nat(txid), coq_N(delay), coq_nat(key)))
        if auto:
            self.msteps.append('Commit %s' % coq_nat(txid))

    def op_commit(self):
        self.msteps.append('Commit %s' % coq_nat(self._end_tx(True)))

    def op_rollback(self):
        self.stat('rollback')
        self.msteps.append('Rollback %s' % coq_nat(self._end_tx(False)))

    def op_dispatch(self, i):
        inst = self.inst(i)
        prev = CURRENT[0]
        CURRENT[0] = i
        inst.s._stopped = False
        inst.s._dispatcher()        # the real loop; FakeCond.wait() ends it where the real one would sleep
        inst.s._stopped = True
        CURRENT[0] = prev
        self.msteps.append('Dispatch %s' % coq_nat(i))

    def op_mstart(self, k):
        inst, fn, args = self.pool.pop(k)
        g = Gated(inst, lambda: fn(*args), 'mem')
        g.resume()
        if not g.finished():
            self.workers.append(g)
        self.msteps.append('MemStart %s' % coq_nat(k))

    def _after_thread_step(self, lst, k):
        g = lst[k]
        if g.finished():
            lst.pop(k)
            if g.at[0] == 'error':
                self.stat('thread_died:%s' % g.at[1])
            for h in self.holders:
                if h['thread'] is g and h['end'] is None:
                    h['end'], h['end_at'] = 'abandoned:%s' % (g.at[1],), CLOCK[0]

    def op_minvoke(self, k):
        self.workers[k].resume()
        self._after_thread_step(self.workers, k)
        self.msteps.append('MemInvoke %s' % coq_nat(k))

    def op_mdelete(self, k):
        self.workers[k].resume()
        self._after_thread_step(self.workers, k)
        self.msteps.append('MemDelete %s' % coq_nat(k))

    def op_pselect(self, i, race=0):
        inst = self.inst(i)
        rows_before = self.rows()
        g = Gated(inst, inst.s._process_store_jobs, 'poll')
        self.inject = race
        try:
            at = g.resume()
        finally:
            self.inject = 0
        cands = g.candidates if g.candidates is not None else []
        k = len(self.polls)
        if not g.finished():
            self.polls.append(g)
        ordl = coq_list([coq_nat(c) for c in cands])
        self.msteps.append('PollSelect %s %s' % (coq_nat(i), ordl))
        injected = getattr(g, 'injected', 0)
        if injected:
            # the foreign process: selects the same rows, captures the first ones, and is never heard of again
            self.stat('foreign_capture_between_select_and_cas', injected)
            self.msteps.append('PollSelect %s %s' % (coq_nat(FOREIGN), ordl))
            for _ in range(injected):
                self.msteps.append('PollCapture %s' % coq_nat(k + 1))
            self.msteps.append('Crash %s' % coq_nat(FOREIGN))
        for _ in cands:
            self.msteps.append('PollCapture %s' % coq_nat(k))
        self.oracle_poll(i, rows_before, cands, g, injected)
        return at

    def op_pinvoke(self, k):
        self.polls[k].resume()
        self._after_thread_step(self.polls, k)
        self.msteps.append('PollInvoke %s' % coq_nat(k))

    def op_pdelete(self, k):
        self.polls[k].resume()
        self._after_thread_step(self.polls, k)
        self.msteps.append('PollDelete %s' % coq_nat(k))

    def op_crash(self, i):
        self.stat('crash')
        for lst in (self.workers, self.polls):
            for g in [g for g in lst if g.inst.idx == i]:
                self.stat('crash_of_holder')
                g.crash()
                lst.remove(g)
                for h in self.holders:
                    if h['thread'] is g and h['end'] is None:
                        h['end'], h['end_at'] = 'crash', CLOCK[0]
        self.pool = [p for p in self.pool if p[0].idx != i]
        self.insts.pop(i, None)
        self.msteps.append('Crash %s' % coq_nat(i))

    def op_query(self, i, key, processing):
        inst = self.inst(i)
        res = bool(self.in_tx(lambda: inst.s.has_scheduled_jobs(key=KEYS[key], processing=processing)))
        self.obs.append(res)
        txid = self.tx[0] if self.tx is not None else None
        self.msteps.append('Query %s %s %s %s' % (coq_nat(i), 'None' if txid is None else '(Some %s)' % coq_nat(txid),
                                                  coq_nat(key), coq_bool(processing)))
        # property, stated on the rows the caller can see: a job with this key exists that is (not) being processed
        rows = self.rows()
        expect = any(r[3] == key and ((r[2] is not None) == processing) for r in rows)
        if res != expect and key != 0:
            memj = [(self.num_of.get(x), secs(j.captured_at)) for x, j in inst.s.in_memory_jobs.items() if j.key == KEYS[key]]
            if res and not expect:
                states = {j['num']: j['state'] for j in self.jobs}
                kinds = []
                for num, _c in memj:
                    row = [r for r in rows if r[0] == num]
                    if states.get(num) == 'rolled':
                        kinds.append('rolled-back')
                    elif not row:
                        kinds.append('already-run-and-deleted')
                    elif (row[0][2] is not None) != processing:
                        kinds.append('captured-by-another-thread' if not processing else 'not-captured')
                if memj:
                    sig = 'pending-query:reports-in-memory-job-without-matching-row'
                    what = ('has_scheduled_jobs(key=%r, processing=%s) on instance %d answers True although no visible row with that '
                            'key is %s; in-memory copies of jobs with that key held by the instance: %s' % (
                                KEYS[key], processing, i, 'being processed' if processing else 'waiting (uncaptured)',
                                sorted(set(kinds)) or memj))
                else:
                    sig = 'pending-query:reports-nonexistent-job'
                    what = ('has_scheduled_jobs(key=%r, processing=%s) on instance %d answers True although no visible row with that '
                            'key is %s' % (KEYS[key], processing, i, 'being processed' if processing else 'waiting (uncaptured)'))
            else:
                sig = 'pending-query:misses-job'
                what = ('has_scheduled_jobs(key=%r, processing=%s) on instance %d answers False although a visible row with that key '
                        'has captured_at %s' % (KEYS[key], processing, i, 'set' if processing else 'NULL'))
            self.fails.append((sig, what))

    # -- oracle ----------------------------------------------------------------------
    def oracle_poll(self, i, rows_before, cands, g, injected=0):
        pickup, timeout, batch = self.cfgv
        nowv = CLOCK[0]
        must = [r[0] for r in rows_before if r[1] + pickup < nowv and (r[2] is None or r[2] + timeout <= nowv)]
        for r in rows_before:
            if r[0] in cands:
                if nowv < r[1]:
                    self.fails.append(('early:store-poll', 'store poll at %d selected job %d due at %d' % (nowv, r[0], r[1])))
                if r[2] is not None and nowv < r[2] + timeout:
                    self.fails.append(('recapture-within-timeout', 'store poll at %d selected job %d captured at %d (timeout %d)' % (
                        nowv, r[0], r[2], timeout)))
        if batch is None or len(must) <= batch:
            missed = [j for j in must if j not in cands]
            if missed:
                self.fails.append(('poll-misses-eligible-job', 'store poll at %d by instance %d did not select jobs %s (rows %s)' % (
                    nowv, i, missed, rows_before)))
        else:
            if len(cands) < batch:
                self.fails.append(('poll-misses-eligible-job', 'store poll at %d selected %d < batch %d of %d eligible' % (
                    nowv, len(cands), batch, len(must))))
        captured = [j for (j, ok, _c) in g.captures if ok]
        lost = [j for j in cands[injected:] if j not in captured]
        if lost:
            self.fails.append(('poll-selected-but-not-captured', 'jobs %s selected by an uncontended store poll were not captured' % lost))
        stolen = [j for j in cands[:injected] if j in captured]
        if stolen:
            self.fails.append(('captured-although-taken-by-another-process',
                               'jobs %s were captured by another process between the SELECT and the compare-and-swap of instance %d, '
                               'which captured them as well' % (stolen, i)))

    def oracle_final(self, drained):
        pickup, timeout, batch = self.cfgv
        jobs = {j['num']: j for j in self.jobs}
        per = {}
        for (tag, t, inst, stepno) in INVOCATIONS:
            j = jobs.get(tag)
            per.setdefault(tag, []).append((t, inst, stepno))
            if j is None:
                self.fails.append(('ran-unknown-job', 'invocation of unknown job %r' % (tag,)))
                continue
            if t < j['at'] + j['delay']:
                self.fails.append(('early', 'job %d scheduled at %d with delay %d was invoked at %d' % (tag, j['at'], j['delay'], t)))
            if j['state'] == 'rolled':
                self.fails.append(('ran-rolled-back', 'job %d whose transaction rolled back was invoked at %d' % (tag, t)))
            elif j['state'] == 'open' or j['end_step'] > stepno:
                self.fails.append(('ran-uncommitted', 'job %d was invoked before its transaction committed' % tag))
        for tag, invs in per.items():
            if len(invs) > 1:
                self.stat('job_ran_more_than_once')
                hs = [h for h in self.holders if h['job'] == tag]
                excused = [h for h in hs if h['end'] != 'deleted' or h['end_at'] >= h['cap'] + timeout]
                if not excused:
                    self.fails.append(('ran-twice', 'job %d was invoked %d times (%s) although every scheduler that captured it '
                                       'deleted it within the capture timeout: %s' % (
                                           tag, len(invs), invs, [(h['inst'], h['cap'], h['end'], h['end_at']) for h in hs])))
        if drained:
            left = self.rows()
            for j in self.jobs:
                if j['state'] == 'committed' and j['num'] not in per:
                    self.fails.append(('never-ran', 'committed job %d was never invoked although a live scheduler kept polling '
                                       'past execute_at+pickup and captured_at+timeout (rows left: %s)' % (j['num'], left)))
            if left:
                self.fails.append(('rows-left-after-drain', 'rows %s remain after a live scheduler polled until idle' % (left,)))


# ---- model side -------------------------------------------------------------------------

def coq_cfg(cfgv):
    pickup, timeout, batch = cfgv
    return '(mkCfg %s %s %s query_uses_memory)' % (coq_N(pickup), coq_N(timeout), 'None' if batch is None else '(Some %s)' % coq_nat(batch))


def model_expr(cfgv, msteps):
    return 'view (run %s %s init)' % (coq_cfg(cfgv), coq_list(msteps))


TOKEN = re.compile(r'\s*(\(|\)|\[|\]|;|,|[A-Za-z_][A-Za-z0-9_\']*|\d+)(?:%[A-Za-z_]+)?')


def parse_term(s):
    """Parse Coq's printing of nested tuples / lists / options / numbers / booleans."""
    toks = TOKEN.findall(s)
    pos = [0]

    def peek():
        return toks[pos[0]] if pos[0] < len(toks) else None

    def nxt():
        t = toks[pos[0]]
        pos[0] += 1
        return t

    def atom():
        t = nxt()
        if t == '(':
            items = [term()]
            while peek() == ',':
                nxt()
                items.append(term())
            assert nxt() == ')'
            return items[0] if len(items) == 1 else tuple(items)
        if t == '[':
            items = []
            if peek() == ']':
                nxt()
                return items
            items.append(term())
            while peek() == ';':
                nxt()
                items.append(term())
            assert nxt() == ']'
            return items
        if t.isdigit():
            return int(t)
        if t == 'true':
            return True
        if t == 'false':
            return False
        if t == 'None':
            return None
        return ('@', t)

    def term():
        a = atom()
        if isinstance(a, tuple) and len(a) == 2 and a[0] == '@':
            if a[1] == 'Some':
                return ('some', atom())
            return a[1]
        return a
    r = term()
    assert pos[0] == len(toks), (pos[0], len(toks), s[:200])
    return r


def unsome(x):
    return x[1] if isinstance(x, tuple) and len(x) == 2 and x[0] == 'some' else x


def model_view(s):
    t = parse_term(s)
    nowv, rows, pend, log, obs, rest = t
    mem, heap, pool, workers, polls = rest
    return {
        'now': nowv,
        'rows': sorted((r[0], r[1], unsome(r[2]), r[3]) for r in rows),
        'pend': pend,
        'log': [tuple(e) for e in log],
        'obs': list(obs),
        'mem': sorted((m[0], m[1], m[2], unsome(m[3])) for m in mem),
        'heap': sorted(tuple(h) for h in heap),
        'pool': [tuple(p) for p in pool],
        'workers': [(w[0], [tuple(w[1])]) for w in workers],
        'polls': [(p[0], [(c[0], unsome(c[1])) for c in p[1]], [tuple(h) for h in p[2]]) for p in polls],
    }


def compare_views(m, im):
    """Returns a list of differing fields."""
    diffs = []
    for f in ('now', 'rows', 'log', 'obs', 'mem', 'heap', 'pool', 'workers'):
        if m[f] != im[f]:
            diffs.append(f)
    if m['pend']:
        diffs.append('pend')
    mp = [(p[0], p[2]) for p in m['polls']]
    if mp != im['polls'] or any(p[1] for p in m['polls']):
        diffs.append('polls')
    return diffs


# ---- scenario generation ---------------------------------------------------------------------

CONFIGS = [(60, 30, None), (2, 3, None), (1, 1, None), (3, 2, 1), (2, 2, 2), (5, 1, None), (1, 4, 2)]


def interesting_ticks(w):
    """Clock targets around the boundaries of the protocol (due time, pickup, capture timeout)."""
    pickup, timeout, _b = w.cfgv
    nowv = CLOCK[0]
    targets = set()
    for j in w.jobs:
        e = j['at'] + j['delay']
        targets.update([e - 1, e, e + 1, e + pickup, e + pickup + 1])
    for h in w.holders:
        targets.update([h['cap'] + timeout - 1, h['cap'] + timeout, h['cap'] + timeout + 1])
    return sorted(t - nowv for t in targets if t > nowv)


def choose_op(rng, w, ninst, maxjobs):
    """One enabled harness op, weighted towards making progress and towards races."""
    cands = []
    ticks = interesting_ticks(w)
    cands.append((3, ('tick', rng.choice(ticks) if ticks and rng.random() < 0.8 else rng.choice([0, 1, 1, 2, 3, 7]))))
    if len(w.jobs) < maxjobs:
        cands.append((4, ('persist', rng.randrange(ninst), rng.choice([0, 0, 1, 2, 3, 5]), rng.choice([0, 1, 1, 2]),
                          rng.choice(['auto', 'auto', 'tx']))))
    if w.tx is not None:
        cands.append((5, ('commit',)))
        cands.append((2, ('rollback',)))
    for i in range(ninst):
        heap_n = len(w.insts[i].s._heap) if i in w.insts else 0
        cands.append((3 if heap_n else 0.3, ('dispatch', i)))
        cands.append((2.5, ('pselect', i)))
        cands.append((0.4, ('pselect', i, rng.choice([1, 1, 2]))))
        cands.append((0.5, ('crash', i)))
        cands.append((1.2, ('query', i, rng.choice([1, 1, 2]), rng.random() < 0.25)))
    for k in range(len(w.pool)):
        cands.append((3, ('mstart', k)))
    for k, g in enumerate(w.workers):
        cands.append((3, ('minvoke', k) if g.at[0] == 'invoke' else ('mdelete', k)))
    for k, g in enumerate(w.polls):
        cands.append((3, ('pinvoke', k) if g.at[0] == 'invoke' else ('pdelete', k)))
    cands = [(wt, op) for (wt, op) in cands if w.enabled(op)]
    total = sum(wt for wt, _ in cands)
    x = rng.random() * total
    for wt, op in cands:
        x -= wt
        if x <= 0:
            return op
    return cands[-1][1]


def drain_ops(w, ninst=DRAINER):
    """Ops that let a live scheduler finish everything: end the transaction, optionally kill everybody,
    move the clock past every pickup/timeout boundary and poll until idle. Yields ops lazily."""
    pickup, timeout, batch = w.cfgv
    if w.tx is not None:
        yield ('commit',)
    for i in sorted(set(list(w.insts) + [g.inst.idx for g in w.workers + w.polls])):
        yield ('crash', i)
    yield ('tick', pickup + timeout + 2 + max([j['delay'] for j in w.jobs] or [0]))
    fresh = ninst
    for _ in range(len(w.jobs) + 2):
        yield ('pselect', fresh)
        guard = 0
        while w.polls and guard < 4 * len(w.jobs) + 4:
            guard += 1
            yield ('pinvoke', 0) if w.polls[0].at[0] == 'invoke' else ('pdelete', 0)
        if not w.rows():
            break


def run_ops(cfgv, ops, drained=False):
    """Replay a fixed op list on the real code (drained: the list ends with a drain, judge it as such)."""
    w = World(cfgv)
    try:
        done = []
        for op in ops:
            if w.apply(op):
                done.append(list(op))
        if drained:
            for op in drain_ops(w):
                w.apply(op)
        return finish_world(w, done, drained=drained)
    finally:
        w.close()


def finish_world(w, done, drained):
    w.oracle_final(drained)
    w.stat('invocations', len(INVOCATIONS))
    w.stat('jobs', len(w.jobs))
    w.stat('steps', len(w.msteps))
    return {'kind': 'default', 'cfg': list(w.cfgv), 'ops': done, 'msteps': list(w.msteps), 'view': w.view(),
            'fails': list(w.fails), 'stats': dict(w.stats), 'drained': drained}


def gen_scenario(rng, cfgv, nsteps, drain):
    ninst = rng.choice([1, 2, 2, 3])
    maxjobs = rng.choice([1, 2, 2, 3, 3, 4])
    w = World(cfgv)
    try:
        done = []
        for _ in range(nsteps):
            op = choose_op(rng, w, ninst, maxjobs)
            if w.apply(op):
                done.append(list(op))
        if drain:
            if w.tx is not None and rng.random() < 0.3:
                w.apply(('rollback',))
                done.append(['rollback'])
            for op in drain_ops(w):      # not recorded: a replay with drained=True generates the drain again
                w.apply(op)
        else:
            if w.tx is not None:
                op = ('commit',) if rng.random() < 0.6 else ('rollback',)
                w.apply(op)
                done.append(list(op))
        return finish_world(w, done, drain)
    finally:
        w.close()


# ---- legacy scheduler ------------------------------------------------------------------------------

class LInst:
    """One real LegacyScheduler object whose thread is never started."""

    def __init__(self, world, idx):
        from oslo_config import cfg
        from mistral.services import legacy_scheduler as ls
        self.world = world
        self.idx = idx
        s = ls.LegacyScheduler(cfg.CONF.scheduler)
        orig_delete = s.delete_calls

        def delete(db_calls):
            g = current_gated()
            if g is not None:
                g.pause(('delete', None))
            return orig_delete(db_calls)
        s.delete_calls = delete
        self.s = s


class LWorld:
    """Drives real LegacyScheduler instances step by step and records the model steps."""

    def __init__(self, cfgv):
        boot()
        from oslo_config import cfg
        from mistral.db.v2 import api as db_api
        self.db_api = db_api
        self.cfgv = cfgv            # (batch,)
        cfg.CONF.set_override('batch_size', cfgv[0], group='scheduler')
        clear_stale_begin_marker()
        db_api.delete_delayed_calls()
        CLOCK[0] = 0
        STEPNO[0] = 0
        del INVOCATIONS[:]
        self.insts = {}
        self.jobs = []
        self.num_of = {}
        self.threads = []
        self.tx = None
        self.next_tx = 0
        self.obs = []
        self.msteps = []
        self.fails = []
        self.captured = {}       # job -> [(inst, clock, thread)]
        self.foreign = set()     # calls flagged by the injected foreign process (which then died)
        self._orig_select = db_api.get_delayed_calls_to_start
        self._orig_update = db_api.update_delayed_call

        self.inject = 0

        def rec_select(*a, **kw):
            res = self._orig_select(*a, **kw)
            g = current_gated()
            if g is not None:
                g.candidates = [self.num_of.get(r.id) for r in res]
                g.injected = 0
                if self.inject:
                    import sqlalchemy as sa
                    from mistral.db.sqlalchemy import base as db_base
                    from mistral.db.v2.sqlalchemy import models
                    t = models.DelayedCall.__table__
                    ses = db_base._get_thread_local_session()
                    for r in res[:self.inject]:
                        ses.execute(sa.update(t).where(t.c.id == r.id).values(processing=True))
                        g.injected += 1
            return res

        def rec_update(id, values, query_filter=None, **kw):
            res = self._orig_update(id=id, values=values, query_filter=query_filter, **kw)
            g = current_gated()
            if g is not None:
                num = self.num_of.get(id)
                g.captures.append((num, res[1] == 1, CLOCK[0]))
                if res[1] == 1:
                    self.captured.setdefault(num, []).append((g.inst.idx, CLOCK[0], g))
            return res
        db_api.get_delayed_calls_to_start = rec_select
        db_api.update_delayed_call = rec_update

    def close(self):
        for g in self.threads:
            g.crash()
        if self.tx is not None:
            self._end_tx(False)
        self.db_api.get_delayed_calls_to_start = self._orig_select
        self.db_api.update_delayed_call = self._orig_update

    def inst(self, i):
        if i not in self.insts:
            self.insts[i] = LInst(self, i)
        return self.insts[i]

    def rows(self):
        out = []
        for r in self.db_api.get_delayed_calls():
            out.append((self.num_of.get(r.id), secs(r.execution_time), bool(r.processing), KEYS.index(r.key)))
        return sorted(out)

    def thread_view(self, g):
        caps = [j for (j, ok, _c) in g.captures if ok]
        done = getattr(g, 'invoked', 0)
        return (g.inst.idx, caps, caps[done:])

    def view(self):
        return {'now': CLOCK[0], 'rows': self.rows(), 'log': [(j, t, i) for (j, t, i, _n) in INVOCATIONS],
                'obs': list(self.obs), 'threads': [self.thread_view(g) for g in self.threads]}

    def enabled(self, op):
        k = op[0]
        db_free = self.tx is None
        if k in ('tick', 'persist', 'crash', 'query'):
            return True
        if k in ('commit', 'rollback'):
            return self.tx is not None
        if k == 'lselect':
            return db_free and not any(g.inst.idx == op[1] for g in self.threads)
        if k == 'linvoke':
            return op[1] < len(self.threads) and self.threads[op[1]].at[0] == 'invoke'
        if k == 'ldelete':
            return db_free and op[1] < len(self.threads) and self.threads[op[1]].at[0] == 'delete'
        return False

    def apply(self, op):
        op = tuple(op)
        if not self.enabled(op):
            return False
        STEPNO[0] += 1
        getattr(self, 'op_' + op[0])(*op[1:])
        return True

    def op_tick(self, d):
        CLOCK[0] += d
        self.msteps.append('LTick %s' % coq_N(d))

    def _end_tx(self, commit):
        txid, cm = self.tx
        self.tx = None
        if commit:
            cm.__exit__(None, None, None)
        else:
            class Abort(Exception):
                pass
            try:
                cm.__exit__(Abort, Abort(), None)
            except Abort:
                pass
        for j in self.jobs:
            if j['tx'] == txid and j['state'] == 'open':
                j['state'] = 'committed' if commit else 'rolled'
                j['end_step'] = STEPNO[0]
        return txid

    def op_persist(self, delay, key, mode):
        from mistral.scheduler import base as sbase
        inst = self.inst(0)
        num = len(self.jobs)
        auto = self.tx is None and mode == 'auto'
        if self.tx is None:
            txid = self.next_tx
            self.next_tx += 1
            if not auto:
                cm = self.db_api.transaction()
                cm.__enter__()
                self.tx = (txid, cm)
        else:
            txid = self.tx[0]
        job = sbase.SchedulerJob(run_after=delay, func_name=TARGET, func_args={'tag': num}, key=KEYS[key])
        before = set(r.id for r in self.db_api.get_delayed_calls())
        inst.s.schedule(job)
        new = [r.id for r in self.db_api.get_delayed_calls() if r.id not in before]
        assert len(new) == 1, new
        self.num_of[new[0]] = num
        self.jobs.append({'num': num, 'id': new[0], 'tx': txid, 'delay': delay, 'key': key, 'at': CLOCK[0],
                          'state': 'committed' if auto else 'open', 'end_step': STEPNO[0]})
        self.msteps.append('LPersist %s %s %s' % (coq_nat(txid), coq_N(delay), coq_nat(key)))
        if auto:
            self.msteps.append('LCommit %s' % coq_nat(txid))

    def op_commit(self):
        self.msteps.append('LCommit %s' % coq_nat(self._end_tx(True)))

    def op_rollback(self):
        self.msteps.append('LRollback %s' % coq_nat(self._end_tx(False)))

    def op_lselect(self, i, race=0):
        inst = self.inst(i)
        rows_before = self.rows()
        g = Gated(inst, inst.s._process_delayed_calls, 'legacy')
        g.invoked = 0
        self.inject = race
        try:
            g.resume()
        finally:
            self.inject = 0
        cands = g.candidates if g.candidates is not None else []
        k = len(self.threads)
        if not g.finished():
            self.threads.append(g)
        ordl = coq_list([coq_nat(c) for c in cands])
        self.msteps.append('LSelect %s %s' % (coq_nat(i), ordl))
        injected = getattr(g, 'injected', 0)
        if injected:
            self.foreign.update(cands[:injected])
            self.msteps.append('LSelect %s %s' % (coq_nat(FOREIGN), ordl))
            for _ in range(injected):
                self.msteps.append('LCapture %s' % coq_nat(k + 1))
            self.msteps.append('LCrash %s' % coq_nat(FOREIGN))
            stolen = [j for (j, ok, _c) in g.captures if ok and j in cands[:injected]]
            if stolen:
                self.fails.append(('captured-although-taken-by-another-process:legacy',
                                   'calls %s were flagged by another process between the SELECT and the compare-and-swap of '
                                   'instance %d, which captured them as well' % (stolen, i)))
        for _ in cands:
            self.msteps.append('LCapture %s' % coq_nat(k))
        # property oracle for the poll itself
        nowv = CLOCK[0]
        batch = self.cfgv[0]
        for r in rows_before:
            if r[0] in cands and nowv < r[1]:
                self.fails.append(('early:legacy-poll', 'legacy poll at %d selected call %d due at %d' % (nowv, r[0], r[1])))
        must = [r[0] for r in rows_before if r[1] <= nowv and not r[2]]
        if (batch is None or len(must) <= batch) and any(j not in cands for j in must):
            self.fails.append(('legacy-poll-misses-due-call', 'legacy poll at %d did not select due calls %s' % (
                nowv, [j for j in must if j not in cands])))

    def op_linvoke(self, k):
        g = self.threads[k]
        g.resume()
        g.invoked += 1
        if g.finished():
            self.threads.pop(k)
        self.msteps.append('LInvoke %s' % coq_nat(k))

    def op_ldelete(self, k):
        g = self.threads[k]
        g.resume()
        if g.finished():
            self.threads.pop(k)
        self.msteps.append('LDelete %s' % coq_nat(k))

    def op_crash(self, i):
        for g in [g for g in self.threads if g.inst.idx == i]:
            g.crash()
            self.threads.remove(g)
        self.insts.pop(i, None)
        self.msteps.append('LCrash %s' % coq_nat(i))

    def op_query(self, key, processing):
        inst = self.inst(0)
        res = bool(inst.s.has_scheduled_jobs(key=KEYS[key], processing=processing))
        self.obs.append(res)
        txid = self.tx[0] if self.tx is not None else None
        self.msteps.append('LQuery %s %s %s' % ('None' if txid is None else '(Some %s)' % coq_nat(txid),
                                                coq_nat(key), coq_bool(processing)))
        expect = any(r[3] == key and r[2] == processing for r in self.rows())
        if res != expect:
            self.fails.append(('legacy-pending-query', 'legacy has_scheduled_jobs(key=%r, processing=%s) = %s but rows say %s' % (
                KEYS[key], processing, res, expect)))

    def oracle_final(self, drained):
        jobs = {j['num']: j for j in self.jobs}
        per = {}
        for (tag, t, inst, stepno) in INVOCATIONS:
            j = jobs.get(tag)
            per.setdefault(tag, []).append((t, inst))
            if j is None:
                self.fails.append(('ran-unknown-job', 'invocation of unknown call %r' % (tag,)))
                continue
            if t < j['at'] + j['delay']:
                self.fails.append(('early:legacy', 'call %d scheduled at %d with delay %d was invoked at %d' % (tag, j['at'], j['delay'], t)))
            if j['state'] == 'rolled':
                self.fails.append(('ran-rolled-back:legacy', 'call %d whose transaction rolled back was invoked' % tag))
            elif j['state'] == 'open' or j['end_step'] > stepno:
                self.fails.append(('ran-uncommitted:legacy', 'call %d was invoked before its transaction committed' % tag))
        for tag, invs in per.items():
            if len(invs) > 1:
                self.fails.append(('ran-twice:legacy', 'call %d was invoked %d times: %s' % (tag, len(invs), invs)))
        if drained:
            # no crash happened in a drained legacy scenario: everything committed must have run
            for j in self.jobs:
                if j['state'] == 'committed' and j['num'] not in per:
                    self.fails.append(('never-ran:legacy', 'committed call %d was never invoked although no scheduler died '
                                       'and polling continued past its due time (rows left %s)' % (j['num'], self.rows())))


def lmodel_expr(cfgv, msteps):
    return 'lview (lrun %s %s linit)' % ('None' if cfgv[0] is None else '(Some %s)' % coq_nat(cfgv[0]), coq_list(msteps))


def lmodel_view(s):
    nowv, rows, pend, log, obs, threads = parse_term(s)
    return {'now': nowv, 'rows': sorted(tuple(r) for r in rows), 'pend': pend, 'log': [tuple(e) for e in log],
            'obs': list(obs), 'threads': [(t[0], list(t[1]), list(t[2]), list(t[3])) for t in threads]}


def lcompare_views(m, im):
    diffs = [f for f in ('now', 'rows', 'log', 'obs') if m[f] != im[f]]
    if m['pend']:
        diffs.append('pend')
    if [(t[0], t[2], t[3]) for t in m['threads']] != [tuple(t) for t in im['threads']] or any(t[1] for t in m['threads']):
        diffs.append('threads')
    return diffs


LCONFIGS = [(None,), (None,), (1,), (2,)]


def lchoose_op(rng, w, ninst, maxjobs, crashes):
    cands = []
    ticks = sorted(set(t - CLOCK[0] for j in w.jobs for t in (j['at'] + j['delay'] - 1, j['at'] + j['delay'], j['at'] + j['delay'] + 1)
                       if t > CLOCK[0]))
    cands.append((3, ('tick', rng.choice(ticks) if ticks and rng.random() < 0.8 else rng.choice([0, 1, 1, 2, 3]))))
    if len(w.jobs) < maxjobs:
        cands.append((4, ('persist', rng.choice([0, 0, 1, 2, 3]), rng.choice([0, 1, 1, 2]), rng.choice(['auto', 'auto', 'tx']))))
    if w.tx is not None:
        cands.append((5, ('commit',)))
        cands.append((2, ('rollback',)))
    for i in range(ninst):
        cands.append((3, ('lselect', i)))
        if crashes:
            cands.append((0.4, ('lselect', i, rng.choice([1, 1, 2]))))
            cands.append((0.5, ('crash', i)))
    cands.append((1.5, ('query', rng.choice([1, 1, 2]), rng.random() < 0.4)))
    for k, g in enumerate(w.threads):
        cands.append((4, ('linvoke', k) if g.at[0] == 'invoke' else ('ldelete', k)))
    cands = [(wt, op) for (wt, op) in cands if w.enabled(op)]
    total = sum(wt for wt, _ in cands)
    x = rng.random() * total
    for wt, op in cands:
        x -= wt
        if x <= 0:
            return op
    return cands[-1][1]


def lfinish_world(w, done, drained):
    w.oracle_final(drained)
    return {'kind': 'legacy', 'cfg': list(w.cfgv), 'ops': done, 'msteps': list(w.msteps), 'view': w.view(),
            'fails': list(w.fails), 'stats': {'invocations': len(INVOCATIONS), 'jobs': len(w.jobs), 'steps': len(w.msteps)},
            'drained': drained}


def lgen_scenario(rng, cfgv, nsteps, drain):
    ninst = rng.choice([1, 2, 2, 3])
    maxjobs = rng.choice([1, 2, 3, 3, 4])
    w = LWorld(cfgv)
    try:
        done = []
        for _ in range(nsteps):
            op = lchoose_op(rng, w, ninst, maxjobs, crashes=not drain)
            if w.apply(op):
                done.append(list(op))
        tail = []
        if w.tx is not None:
            tail.append(('commit',) if rng.random() < 0.6 else ('rollback',))
        for op in tail:
            if w.apply(op):
                done.append(list(op))
        if drain:
            ldrain(w)
        return lfinish_world(w, done, drain)
    finally:
        w.close()


def ldrain(w):
    """Nobody died: let every thread finish, move past every due time, poll until idle (not recorded in the op list;
    a replay with drained=True does it again)."""
    def finish_threads():
        guard = 0
        while w.threads and guard < 50:
            guard += 1
            w.apply(('linvoke', 0) if w.threads[0].at[0] == 'invoke' else ('ldelete', 0))
    if w.tx is not None:
        w.apply(('commit',))
    finish_threads()
    w.apply(('tick', 2 + max([j['delay'] for j in w.jobs] or [0])))
    for _ in range(len(w.jobs) + 2):
        w.apply(('lselect', 0))
        finish_threads()
        if not w.rows():
            break


def lrun_ops(cfgv, ops, drained=False):
    w = LWorld(cfgv)
    try:
        done = []
        for op in ops:
            if w.apply(op):
                done.append(list(op))
        if drained:
            ldrain(w)
        return lfinish_world(w, done, drained=drained)
    finally:
        w.close()


# ---- systematic interleavings (symbolic per-actor tokens resolved against the live state) ---------

def resolve(w, sym):
    """('M', i): next step of instance i's in-memory path; ('P', i): next step of its store poll."""
    k = sym[0]
    if k == 'M':
        i = sym[1]
        for idx, g in enumerate(w.workers):
            if g.inst.idx == i:
                return ('minvoke', idx) if g.at[0] == 'invoke' else ('mdelete', idx)
        for idx, (inst, _fn, _args) in enumerate(w.pool):
            if inst.idx == i:
                return ('mstart', idx)
        return ('dispatch', i)
    if k == 'P':
        i = sym[1]
        for idx, g in enumerate(w.polls):
            if g.inst.idx == i:
                return ('pinvoke', idx) if g.at[0] == 'invoke' else ('pdelete', idx)
        return ('pselect', i)
    if k == 'T':
        return ('tick', sym[1])
    if k == 'C':
        return ('crash', sym[1])
    if k == 'Q':
        return ('query', sym[1], sym[2], False)
    return tuple(sym)


# name, cfg, concrete prefix, tokens (multiset), full enumeration size
PROGRAMS = [
    ('mem-vs-poll', (2, 3, None), [('persist', 0, 0, 1, 'auto')],
     [('M', 0)] * 4 + [('P', 1)] * 3 + [('T', 3), ('T', 3)]),
    ('capturer-dies', (2, 3, None), [('persist', 0, 0, 1, 'auto')],
     [('M', 0)] * 3 + [('P', 1)] * 3 + [('T', 3), ('T', 3), ('C', 0)]),
    ('two-pollers', (2, 3, None), [('persist', 0, 0, 1, 'auto'), ('tick', 3)],
     [('P', 1)] * 3 + [('P', 2)] * 3 + [('T', 3), ('T', 2), ('C', 1)]),
    ('rollback', (2, 3, None), [('persist', 0, 0, 1, 'tx')],
     [('rollback',), ('M', 0), ('M', 0), ('P', 1), ('T', 3), ('Q', 0, 1), ('Q', 1, 1)]),
    ('commit-late', (2, 3, None), [('persist', 0, 1, 1, 'tx')],
     [('commit',), ('M', 0), ('M', 0), ('M', 0), ('P', 1), ('P', 1), ('T', 1), ('T', 3), ('Q', 0, 1)]),
    ('two-jobs-batch1', (3, 2, 1), [('persist', 0, 0, 1, 'auto'), ('persist', 1, 1, 2, 'auto'), ('tick', 5)],
     [('P', 2)] * 5 + [('P', 0)] * 3 + [('M', 1)] * 2 + [('T', 2), ('C', 2)]),
]


def perms(tokens):
    """All distinct orders of a multiset of tokens."""
    from collections import Counter
    cnt = Counter(tokens)
    keys = sorted(cnt, key=repr)
    n = len(tokens)
    cur = []

    def rec():
        if len(cur) == n:
            yield list(cur)
            return
        for k in keys:
            if cnt[k]:
                cnt[k] -= 1
                cur.append(k)
                for r in rec():
                    yield r
                cur.pop()
                cnt[k] += 1
    return rec()


def run_program(cfgv, prefix, order):
    w = World(cfgv)
    try:
        done = []
        for op in prefix:
            if w.apply(op):
                done.append(list(op))
        for sym in order:
            op = resolve(w, sym)
            if w.apply(op):
                done.append(list(op))
        if w.tx is not None:
            w.apply(('commit',))
            done.append(['commit'])
        return finish_world(w, done, drained=False)
    finally:
        w.close()


# ---- corpus: minimised interesting cases, run first -------------------------------------------------------

CORPUS = [
    {'name': 'regression-F8-rollback-leaves-in-memory-copy', 'kind': 'default', 'cfg': (60, 30, None), 'ops': [
        ('persist', 0, 5, 1, 'tx'), ('rollback',), ('query', 0, 1, False), ('tick', 5), ('dispatch', 0), ('mstart', 0),
        ('query', 0, 1, False), ('tick', 100), ('pselect', 1)]},
    {'name': 'memory-path-runs-once', 'kind': 'default', 'cfg': (60, 30, None), 'ops': [
        ('persist', 0, 1, 1, 'auto'), ('dispatch', 0), ('tick', 1), ('dispatch', 0), ('mstart', 0), ('query', 0, 1, False),
        ('query', 0, 1, True), ('minvoke', 0), ('mdelete', 0), ('tick', 100), ('pselect', 1)]},
    {'name': 'capturer-dies-after-invoke', 'kind': 'default', 'cfg': (2, 3, None), 'ops': [
        ('persist', 0, 0, 1, 'auto'), ('dispatch', 0), ('mstart', 0), ('minvoke', 0), ('crash', 0), ('tick', 2), ('pselect', 1),
        ('tick', 1), ('pselect', 1), ('pinvoke', 0), ('pdelete', 0)]},
    {'name': 'slow-holder-loses-its-rows', 'kind': 'default', 'cfg': (2, 3, None), 'ops': [
        ('persist', 0, 0, 1, 'auto'), ('persist', 0, 0, 2, 'auto'), ('tick', 3), ('pselect', 1), ('tick', 3), ('pselect', 2),
        ('pinvoke', 1), ('pdelete', 1), ('pinvoke', 0), ('pdelete', 0), ('pinvoke', 0), ('pdelete', 0)]},
    {'name': 'batch-of-one', 'kind': 'default', 'cfg': (3, 2, 1), 'ops': [
        ('persist', 0, 2, 1, 'auto'), ('persist', 0, 0, 2, 'auto'), ('persist', 1, 1, 1, 'auto'), ('tick', 6), ('pselect', 2),
        ('pselect', 1), ('pinvoke', 0), ('pdelete', 0), ('pselect', 2), ('pinvoke', 0), ('pdelete', 0)]},
    {'name': 'same-due-time', 'kind': 'default', 'cfg': (1, 1, None), 'ops': [
        ('persist', 0, 1, 1, 'auto'), ('persist', 1, 1, 2, 'auto'), ('persist', 0, 1, 1, 'auto'), ('tick', 1), ('dispatch', 0),
        ('mstart', 1), ('tick', 2), ('pselect', 2), ('pinvoke', 1), ('minvoke', 0), ('pdelete', 1), ('pinvoke', 1)]},
    {'name': 'boundaries', 'kind': 'default', 'cfg': (2, 3, None), 'ops': [
        ('persist', 0, 1, 1, 'auto'), ('tick', 3), ('pselect', 1), ('tick', 1), ('pselect', 1), ('crash', 1), ('tick', 2),
        ('pselect', 2), ('tick', 1), ('pselect', 2), ('pinvoke', 0), ('pdelete', 0)]},
    {'name': 'store-poll-beats-memory', 'kind': 'default', 'cfg': (1, 4, None), 'ops': [
        ('persist', 0, 0, 1, 'auto'), ('dispatch', 0), ('tick', 2), ('pselect', 1), ('query', 0, 1, False), ('query', 1, 1, False),
        ('mstart', 0), ('pinvoke', 0), ('pdelete', 0)]},
    {'name': 'dispatch-before-commit', 'kind': 'default', 'cfg': (2, 3, None), 'ops': [
        ('persist', 0, 0, 1, 'tx'), ('dispatch', 0), ('query', 0, 1, False), ('query', 1, 1, False), ('commit',), ('mstart', 0),
        ('minvoke', 0), ('mdelete', 0)]},
    {'name': 'foreign-capture-between-select-and-cas', 'kind': 'default', 'cfg': (2, 3, None), 'ops': [
        ('persist', 0, 0, 1, 'auto'), ('persist', 0, 0, 2, 'auto'), ('tick', 3), ('pselect', 1, 1), ('pinvoke', 0), ('pdelete', 0),
        ('tick', 3), ('pselect', 2), ('pinvoke', 0), ('pdelete', 0)]},
    {'name': 'legacy-foreign-capture-between-select-and-cas', 'kind': 'legacy', 'cfg': (None,), 'ops': [
        ('persist', 0, 1, 'auto'), ('persist', 0, 2, 'auto'), ('lselect', 0, 1), ('linvoke', 0), ('ldelete', 0), ('lselect', 1)]},
    {'name': 'legacy-basic', 'kind': 'legacy', 'cfg': (None,), 'ops': [
        ('persist', 1, 1, 'auto'), ('persist', 0, 2, 'tx'), ('lselect', 0), ('commit',), ('lselect', 0), ('query', 2, True),
        ('linvoke', 0), ('tick', 1), ('lselect', 1), ('linvoke', 1), ('ldelete', 0), ('ldelete', 0)]},
    {'name': 'legacy-capturer-dies', 'kind': 'legacy', 'cfg': (None,), 'ops': [
        ('persist', 0, 1, 'auto'), ('lselect', 0), ('crash', 0), ('tick', 100), ('lselect', 1), ('query', 1, True), ('query', 1, False)]},
    {'name': 'legacy-rollback-batch', 'kind': 'legacy', 'cfg': (1,), 'ops': [
        ('persist', 0, 1, 'tx'), ('persist', 0, 2, 'tx'), ('rollback',), ('persist', 2, 1, 'auto'), ('persist', 1, 2, 'auto'),
        ('tick', 2), ('lselect', 0), ('lselect', 1), ('linvoke', 0), ('linvoke', 0), ('ldelete', 0), ('ldelete', 0)]},
]


# ---- component suites: the store query and the compare-and-swap -------------------------------------------------

def component_cases(seed, n):
    """Random job tables written through db_api; get_scheduled_jobs_to_start and _capture_scheduled_job
    (and the legacy pair) on them. Returns cases with the implementation's answers."""
    import random
    boot()
    from mistral.db.v2 import api as db_api
    from mistral.scheduler import default_scheduler as ds
    from mistral.services import legacy_scheduler as ls
    rng = random.Random(seed)
    out = []
    for _ in range(n):
        cfgv = rng.choice(CONFIGS)
        set_sched_conf(cfgv)
        pickup, timeout, batch = cfgv
        db_api.delete_scheduled_jobs()
        db_api.delete_delayed_calls()
        nowv = rng.randrange(70, 110)
        rows = []
        ids = {}
        for num in range(rng.randrange(0, 6)):
            ex = rng.choice([nowv - pickup - 1, nowv - pickup, nowv - pickup + 1, nowv, nowv + 1, rng.randrange(0, 120)])
            cap = rng.choice([None, None, nowv - timeout, nowv - timeout + 1, nowv - timeout - 1, rng.randrange(0, 120)])
            key = rng.choice([0, 1, 2])
            job = db_api.create_scheduled_job({'run_after': 0, 'func_name': TARGET, 'func_args': {'tag': num}, 'auth_ctx': {},
                                               'execute_at': ts(ex), 'captured_at': ts(cap), 'key': KEYS[key]})
            ids[job.id] = num
            rows.append((num, ex, cap, key))
        CLOCK[0] = nowv
        with db_api.transaction():
            res = db_api.get_scheduled_jobs_to_start(virtual_now(), batch)
            sel = [ids[r.id] for r in res]
        # compare-and-swap on one row with a matching / stale / absent expectation
        casr = None
        if rows and rng.random() < 0.8:
            num, ex, cap, key = rng.choice(rows)
            exp = rng.choice([cap, cap, None, nowv - 1, (cap + 1) if cap is not None else 0])

            class O(object):
                pass
            o = O()
            o.id = [i for i, n_ in ids.items() if n_ == num][0] if rng.random() < 0.9 else 'no-such-id'
            o.captured_at = ts(exp)
            try:
                ok = bool(ds.DefaultScheduler._capture_scheduled_job(o))
            except Exception as e:      # the model answers False; an exception is a difference
                ok = 'raised:%s' % type(e).__name__
            with db_api.transaction():
                after = sorted((ids[r.id], secs(r.execute_at), secs(r.captured_at), KEYS.index(r.key)) for r in db_api.get_scheduled_jobs())
            casr = {'j': num if o.id != 'no-such-id' else 99, 'exp': exp, 'ok': ok, 'after': after,
                    'obj_cap': secs(o.captured_at)}
        # legacy table
        lrows = []
        lids = {}
        for num in range(rng.randrange(0, 6)):
            ex = rng.choice([nowv - 1, nowv, nowv + 1, rng.randrange(0, 120)])
            proc = rng.random() < 0.3
            call = db_api.create_delayed_call({'factory_method_path': None, 'target_method_name': TARGET, 'execution_time': ts(ex),
                                               'auth_context': {}, 'serializers': None, 'key': None,
                                               'method_arguments': {'tag': num}, 'processing': proc})
            lids[call.id] = num
            lrows.append((num, ex, proc, 0))
        with db_api.transaction():
            lsel = [lids[r.id] for r in db_api.get_delayed_calls_to_start(virtual_now() + datetime.timedelta(seconds=1), batch)]
        lcaps = [lids[c.id] for c in ls.LegacyScheduler._capture_calls(batch)]
        out.append({'cfg': list(cfgv), 'now': nowv, 'rows': rows, 'sel': sel, 'cas': casr, 'lrows': lrows, 'lsel': lsel, 'lcaps': lcaps})
    db_api.delete_scheduled_jobs()
    db_api.delete_delayed_calls()
    return out


def coq_opt_N(x):
    return 'None' if x is None else '(Some %s)' % coq_N(x)


def coq_rows(rows):
    return coq_list(['(mkRow %s %s %s %s)' % (coq_nat(r[0]), coq_N(r[1]), coq_opt_N(r[2]), coq_nat(r[3])) for r in rows])


def coq_lrows(rows):
    return coq_list(['(mkLRow %s %s %s %s)' % (coq_nat(r[0]), coq_N(r[1]), coq_bool(r[2]), coq_nat(r[3])) for r in rows])


# ---- worker processes -------------------------------------------------------------------------------------------------

def _safe(fn, *a):
    import traceback
    try:
        return fn(*a)
    except Exception:
        return {'crashed': traceback.format_exc()[-2500:], 'args': repr(a)[:1500]}


def work(task):
    """Executed in a worker process (its own in-memory database)."""
    import random
    kind = task[0]
    if kind == 'random':
        _k, seed, n = task
        rng = random.Random(seed)
        out = []
        for _ in range(n):
            cfgv = rng.choice(CONFIGS)
            out.append(_safe(gen_scenario, rng, cfgv, rng.choice([8, 15, 25, 40]), rng.random() < 0.5))
        return out
    if kind == 'lrandom':
        _k, seed, n = task
        rng = random.Random(seed)
        out = []
        for _ in range(n):
            cfgv = rng.choice(LCONFIGS)
            out.append(_safe(lgen_scenario, rng, cfgv, rng.choice([8, 15, 25, 40]), rng.random() < 0.5))
        return out
    if kind == 'program':
        _k, pi_, orders = task
        name, cfgv, prefix, _tokens = PROGRAMS[pi_]
        out = []
        for order in orders:
            r = _safe(run_program, cfgv, prefix, order)
            r['program'] = name
            out.append(r)
        return out
    if kind == 'ops':
        _k, cases = task
        out = []
        for c in cases:
            r = _safe(run_ops if c['kind'] == 'default' else lrun_ops, tuple(c['cfg']), c['ops'])
            r['name'] = c.get('name')
            out.append(r)
        return out
    if kind == 'component':
        _k, seed, n = task
        return _safe(component_cases, seed, n)
    raise ValueError(kind)


def run_tasks(tasks):
    """Run tasks in worker processes forked before this process touches the database."""
    import concurrent.futures
    import multiprocessing
    # fork is only safe while this process has not opened the (in-memory) database itself
    ctxm = multiprocessing.get_context('spawn' if _BOOTED[0] else 'fork')
    with concurrent.futures.ProcessPoolExecutor(max_workers=min(core.NPROC, max(1, len(tasks))), mp_context=ctxm) as ex:
        return list(ex.map(work, tasks))


# ---- judging ------------------------------------------------------------------------------------------------------------------------

def coq_eval_batched(name, imports, exprs, chunk):
    """core.coq_eval numbers the cases with unary nat literals, whose cost grows with the case index: keep every call
    small (one wave of NPROC chunk files) so that the thorough tier stays linear."""
    out = []
    per_call = chunk * core.NPROC
    for a in range(0, len(exprs), per_call):
        out.extend(core.coq_eval(name, imports, exprs[a:a + per_call], chunk=chunk))
    return out


def judge(ctx, suite, results, samples=1):
    """Model vs implementation on every scenario result + collect the oracle failures."""
    exprs, idx = [], []
    for n, r in enumerate(results):
        if 'crashed' in r:
            ctx.disagree(suite, {'args': r.get('args')}, 'the model runs this input', 'the harness could not drive the real code: ' + r['crashed'])
            continue
        exprs.append(model_expr(tuple(r['cfg']), r['msteps']) if r['kind'] == 'default' else lmodel_expr(tuple(r['cfg']), r['msteps']))
        idx.append(n)
    imports = IMPORTS + IMPORTS_LEGACY
    outs = coq_eval_batched('c13' + re.sub(r'\W', '', suite), imports, exprs, chunk=60) if exprs else []
    stats = ctx.cov['suites'].setdefault(suite, {'evaluations': 0, 'distinct_nontrivial': 0}).setdefault('events', {})
    for n, o in zip(idx, outs):
        r = results[n]
        if r['kind'] == 'default':
            mv = model_view(o)
            diffs = compare_views(mv, r['view'])
        else:
            mv = lmodel_view(o)
            diffs = lcompare_views(mv, r['view'])
        for k_, v in r.get('stats', {}).items():
            stats[k_] = stats.get(k_, 0) + v
        ctx.count(suite, (r['kind'], tuple(r['cfg']), json.dumps(r['ops'])), nontrivial=len(r['view']['log']) > 0 or len(r['view']['obs']) > 0,
                  evaluations=1)
        ctx.cov['traces_validated_against_impl'] += 1
        ctx.cov['disagreements_checked'] += 1
        if diffs:
            ctx.disagree(suite, {'kind': r['kind'], 'cfg': r['cfg'], 'ops': r['ops'], 'fields': diffs},
                         {f: mv.get(f) for f in diffs}, {f: r['view'].get(f) for f in diffs})
        for sig, what in r['fails']:
            ctx.fail(sig, what, {'kind': r['kind'], 'cfg': r['cfg'], 'ops': r['ops'], 'signature': sig, 'drained': r.get('drained', False)})
    for r in results[:samples]:
        if 'crashed' not in r:
            ctx.sample({'suite': suite, 'kind': r['kind'], 'cfg': r['cfg'], 'ops': r['ops'][:12], 'log': r['view']['log']})


def judge_components(ctx, cases):
    suite = 'components'
    exprs = []
    for c in cases:
        cf = coq_cfg(tuple(c['cfg']))
        ordl = coq_list([coq_nat(j) for j in c['sel']])
        exprs.append('map rid (candidates %s %s %s %s)' % (cf, coq_N(c['now']), ordl, coq_rows(c['rows'])))
        if c['cas'] is not None:
            exprs.append('match cas %s %s %s %s with Some s => (true, map view_row s) | None => (false, map view_row %s) end' % (
                coq_rows(c['rows']), coq_nat(c['cas']['j']), coq_opt_N(c['cas']['exp']), coq_N(c['now']), coq_rows(c['rows'])))
        b = 'None' if c['cfg'][2] is None else '(Some %s)' % coq_nat(c['cfg'][2])
        exprs.append('map lid (lcandidates %s %s %s %s)' % (b, coq_N(c['now']), coq_list([coq_nat(j) for j in c['lsel']]), coq_lrows(c['lrows'])))
    outs = coq_eval_batched('c13comp', IMPORTS + IMPORTS_LEGACY, exprs, chunk=150)
    pos = 0
    kinds = {'select_nonempty': 0, 'cas_ok': 0, 'cas_fail': 0, 'batch_cut': 0}
    for c in cases:
        ctx.count(suite, ('sel', tuple(c['cfg']), c['now'], tuple(c['rows'])), nontrivial=bool(c['rows']))
        ctx.cov['disagreements_checked'] += 1
        m = parse_term(outs[pos])
        pos += 1
        kinds['select_nonempty'] += bool(c['sel'])
        if list(m) != c['sel']:
            ctx.disagree(suite, {'what': 'get_scheduled_jobs_to_start', 'cfg': c['cfg'], 'now': c['now'], 'rows': c['rows']}, list(m), c['sel'])
        # the property's own reading of the selection (oracle, no model)
        pickup, timeout, batch = c['cfg']
        for (num, ex, cap, _key) in c['rows']:
            if num in c['sel'] and (c['now'] < ex or (cap is not None and c['now'] < cap + timeout)):
                ctx.fail('early-or-recapture:store-query', 'get_scheduled_jobs_to_start(now=%d) returns job due at %d captured at %s' % (c['now'], ex, cap),
                         {'kind': 'component', 'case': c})
        must = [r[0] for r in c['rows'] if r[1] + pickup < c['now'] and (r[2] is None or r[2] + timeout <= c['now'])]
        if batch is not None and len(must) > batch:
            kinds['batch_cut'] += 1
        if (batch is None or len(must) <= batch) and any(j not in c['sel'] for j in must):
            ctx.fail('poll-misses-eligible-job', 'get_scheduled_jobs_to_start(now=%d) misses eligible jobs: rows %s selected %s' % (
                c['now'], c['rows'], c['sel']), {'kind': 'component', 'case': c})
        if c['cas'] is not None:
            ctx.count(suite, ('cas', tuple(c['rows']), c['cas']['j'], c['cas']['exp']))
            ctx.cov['disagreements_checked'] += 1
            m = parse_term(outs[pos])
            pos += 1
            mok, mrows = m[0], sorted((r[0], r[1], unsome(r[2]), r[3]) for r in m[1])
            kinds['cas_ok' if c['cas']['ok'] else 'cas_fail'] += 1
            if mok != c['cas']['ok'] or mrows != [tuple(x) for x in c['cas']['after']]:
                ctx.disagree(suite, {'what': '_capture_scheduled_job', 'rows': c['rows'], 'cas': c['cas'], 'now': c['now']}, [mok, mrows],
                             [c['cas']['ok'], c['cas']['after']])
        ctx.count(suite, ('lsel', c['now'], tuple(c['lrows'])), nontrivial=bool(c['lrows']))
        ctx.cov['disagreements_checked'] += 1
        m = parse_term(outs[pos])
        pos += 1
        if list(m) != c['lsel'] or c['lcaps'] != c['lsel']:
            ctx.disagree(suite, {'what': 'get_delayed_calls_to_start/_capture_calls', 'cfg': c['cfg'], 'now': c['now'], 'rows': c['lrows']},
                         list(m), {'selected': c['lsel'], 'captured': c['lcaps']})
    ctx.cov['suites'].setdefault(suite, {'evaluations': 0, 'distinct_nontrivial': 0})['kinds'] = kinds


def shrink(kind, cfgv, ops, sig, drained=False, budget=120):
    """Greedy removal of ops while the oracle failure with this signature persists (implementation only)."""
    runner = run_ops if kind == 'default' else lrun_ops

    def fails(o):
        try:
            r = runner(tuple(cfgv), o, drained)
        except Exception:
            return None
        return r if any(f[0] == sig for f in r['fails']) else None
    best = fails(ops)
    if best is None:
        return ops, None
    cur = best['ops']
    used = 1
    changed = True
    while changed and used < budget:
        changed = False
        i = len(cur) - 1
        while i >= 0 and used < budget:
            cand = cur[:i] + cur[i + 1:]
            used += 1
            r = fails(cand)
            if r is not None:
                cur = r['ops']
                best = r
                changed = True
            i -= 1
    what = [f[1] for f in best['fails'] if f[0] == sig][0]
    return cur, what


def shrink_failures(ctx, limit=4):
    """Replace the first replay of each new failure signature by a minimised one (scenario failures only)."""
    seen = set()
    known = {k['signature'] for k in core.load_known().get('open', []) if k['property'] == ctx.prop}
    for f in ctx.failures:
        sig = f['signature']
        if sig in seen or sig in known:
            continue
        seen.add(sig)
        rp = f['replay']
        if len(seen) > limit or 'ops' not in rp or len(rp['ops']) <= 4:
            continue
        ops, what = shrink(rp.get('kind', 'default'), rp['cfg'], rp['ops'], sig, rp.get('drained', False))
        if what is not None:
            f['replay'] = dict(rp, ops=ops, shrunk_from=len(rp['ops']))
            f['what'] = what


def chunks(lst, n):
    return [lst[i:i + n] for i in range(0, len(lst), n)]


def run(ctx):
    import random
    ctx.cov['rule'] = ('scenario = configuration (pickup, timeout, batch) + list of harness ops executed on real scheduler objects; '
                       'distinct = distinct (kind, cfg, op list); non-trivial = at least one invocation or query happened')
    # 1. corpus (own task so that its minimal replays are reported first)
    tasks = [('ops', [dict(c, cfg=list(c['cfg']), ops=[list(o) for o in c['ops']]) for c in CORPUS])]
    # 2. systematic interleavings
    prog_tasks = []
    for pi_, (name, cfgv, prefix, tokens) in enumerate(PROGRAMS):
        rng = random.Random('%s/prog/%s' % (ctx.seed, name))
        limit = ctx.n(120, 10100)
        allp = None
        import math
        from collections import Counter
        total = math.factorial(len(tokens))
        for v in Counter(tokens).values():
            total //= math.factorial(v)
        if total <= limit:
            orders = list(perms(tokens))
        else:
            orders = []
            seen = set()
            while len(orders) < limit:
                o = list(tokens)
                rng.shuffle(o)
                key = repr(o)
                if key not in seen:
                    seen.add(key)
                    orders.append(o)
        ctx.cov['suites'].setdefault('systematic', {'evaluations': 0, 'distinct_nontrivial': 0}).setdefault('programs', {})[name] = {
            'interleavings_total': total, 'run': len(orders), 'exhaustive': total <= limit}
        for ch in chunks(orders, 60):
            prog_tasks.append(('program', pi_, ch))
    # 3. random scenarios, 4. legacy, 5. components
    nrand = ctx.n(1200, 12000)
    nleg = ctx.n(500, 5000)
    ncomp = ctx.n(1500, 15000)
    rnd_tasks = [('random', '%s/rand/%d' % (ctx.seed, i), 50) for i in range(nrand // 50)]
    leg_tasks = [('lrandom', '%s/leg/%d' % (ctx.seed, i), 50) for i in range(nleg // 50)]
    comp_tasks = [('component', '%s/comp/%d' % (ctx.seed, i), 100) for i in range(ncomp // 100)]
    all_tasks = tasks + prog_tasks + rnd_tasks + leg_tasks + comp_tasks
    results = run_tasks(all_tasks)
    pos = 0
    judge(ctx, 'corpus', results[0], samples=2)
    pos = 1
    sysres = [r for t in results[pos:pos + len(prog_tasks)] for r in t]
    pos += len(prog_tasks)
    judge(ctx, 'systematic', sysres, samples=1)
    rres = [r for t in results[pos:pos + len(rnd_tasks)] for r in t]
    pos += len(rnd_tasks)
    judge(ctx, 'default', rres, samples=2)
    lres = [r for t in results[pos:pos + len(leg_tasks)] for r in t]
    pos += len(leg_tasks)
    judge(ctx, 'legacy', lres, samples=2)
    comp = []
    for t in results[pos:]:
        if isinstance(t, dict) and 'crashed' in t:
            ctx.disagree('components', {'args': t.get('args')}, 'the model evaluates', 'the harness could not drive the real code: ' + t['crashed'])
        else:
            comp.extend(t)
    judge_components(ctx, comp)
    shrink_failures(ctx)
    ctx.cov['modelled_not_exercised'] = [
        'in-memory capture attempt while the scheduling transaction is still open (tx_lock serialises it inside one process)',
        'store poll by another process while a row is uncommitted (single shared sqlite connection)',
        'interleavings between the SELECT and the compare-and-swaps of one store poll, and between two open transactions',
        'sub-second clock values and fractional run_after (utc_now_sec truncates to whole seconds)']
    ctx.assumptions += ['one scheduler step = one atomic transaction on the store (the model linearises each compare-and-swap)',
                        'the virtual clock replaces mistral_lib.utils.utc_now_sec, the only time source of the anchored code',
                        'ties in ORDER BY execute_at are resolved as the database did in the observed run (step argument ord)']


def search(ctx):
    """Widened oracle-only search (no model): more random scenarios of both schedulers."""
    tasks = [('random', '%s/search/%d' % (ctx.seed, i), 50) for i in range(60)] + \
            [('lrandom', '%s/lsearch/%d' % (ctx.seed, i), 50) for i in range(20)]
    for t in run_tasks(tasks):
        for r in t:
            if 'crashed' in r:
                continue
            for sig, what in r['fails']:
                ctx.fail(sig, what, {'kind': r['kind'], 'cfg': r['cfg'], 'ops': r['ops'], 'signature': sig, 'drained': r.get('drained', False)})
    shrink_failures(ctx)


def replay(obj):
    r = obj.get('replay', {})
    if 'ops' not in r:
        print(json.dumps(obj, indent=1)[:4000])
        return 1
    res = (run_ops if r.get('kind', 'default') == 'default' else lrun_ops)(tuple(r['cfg']), r['ops'], r.get('drained', False))
    print('configuration (pickup, timeout, batch) = %s' % (r['cfg'],))
    print('ops: %s%s' % (json.dumps(res['ops']), '  + drain (everybody dies, clock passes every boundary, a fresh scheduler polls '
                                                 'until idle)' if r.get('drained') else ''))
    print('invocation log (job, time, instance): %s' % (res['view']['log'],))
    print('rows left: %s   query answers: %s' % (res['view']['rows'], res['view']['obs']))
    want = r.get('signature') or obj.get('signature')
    hit = [f for f in res['fails'] if want is None or f[0] == want]
    for sig, what in hit:
        print('FAILS [%s]: %s' % (sig, what))
    if not hit:
        print('the recorded failure does not reproduce on this tree')
    return 1 if hit else 0
