"""C05 - a task sees exactly the data published by the tasks that causally precede it.

Component level.  Ties Model/Ctx.v and Model/Publish.v to the REAL functions of /repo (default
configuration: context_versioning.enabled, hash_version_keys, merge_strategy=replace):
  outbound     data_flow.evaluate_task_outbound_context (context_versioning.get_in_context_with_versions)
  merge        context_versioning.merge_context_by_version
  upstream     data_flow.evaluate_upstream_context on EVERY permutation of <= 5 fake task rows (rows are
               produced by real fork/join histories and by a random stream incl. malformed version maps)
  final        DirectWorkflowController.evaluate_workflow_final_context over batches of end tasks
  view         data_flow.ContextView get / in / keys
  get_publish  DirectWorkflowTaskSpec.get_publish on specs PARSED from generated workflow YAML
  publish      data_flow.publish_variables with the real YAQL and Jinja evaluators
  output/vars  data_flow.evaluate_workflow_output, add_workflow_variables_to_context
  views        Task.get_expression_context, RegularTask._get_target / _get_timeout, _find_next_tasks
Oracles (no model involved), stated on what the real code returns:
  latest       in a causal history (fork / chains / joins built with the real functions) a leaf value
               published by the unique causally-latest publisher of its variable is visible to every
               descendant, for every order of the upstream rows          (signature stale:...)
  declared     every variable a task declares for its final state (publish / publish-on-error /
               on-complete / on-success / on-error publish, branch and global) is published
                                                                          (signature F5:...)
  fallback     a variable nobody published resolves to workflow context (vars, global), then input;
               env under env()                                            (signature fallback:...)
  immutable    no evaluation call changes any stored in_context / published / context / input / params
               (deep comparison before/after)                             (signature mutated:...)
  e2e          the same `latest` / `declared` statements on the rows written by the REAL engine run under
               harness/engine_driver.py for generated fork/join workflows, all schedules / id orders
Former findings, now FIXED in /repo and kept as regression cases that must be clean (CORPUS_PUBLISH, CORPUS_HISTORIES[0],
CORPUS_MERGE[0:2], E2E_PUBLISH_CORPUS; Coq: C05_former_f5_witnesses_clean, C05_former_stale_witness_clean):
  F5 (f28ee2d0)  PublishSpec.merge discarded a part when the receiving side had none (three shapes, signatures F5:*)
                 and changed the dictionary the task specification was built from (signature mutated:spec:get_publish)
  F7 (883c1b22)  a variable re-published as a dict in one branch was replaced at the join by the scalar another
                 branch inherited (publishing a dict did not bump the variable's own path; signature stale:shape-change)

Self-test. Mutations of the anchored source tried one at a time in a scratch worktree (VERIF_REPO=/tmp/wt ./check C05);
every one yields VIOLATION lines; the NEW failing-input signature (beyond the findings F5/F7 present on the
unchanged tree) is given, `disagreement` = correspondence only (no property-level failing input exists or was found):
  M1  context_versioning.get_in_context_with_versions: deepcopy -> dict()      mutated:outbound:in_context, mutated:upstream:in_context
  M2  context_versioning._merge_ctx: r_ver > l_ver -> >=                         disagreement (merge/upstream) + obligation C05_source_facts
  M3  get_in_context_with_versions: versions[updated] += 1 -> = 1                stale:same-shape
  M4  data_flow.publish_variables: ContextView(..., wf_ex.input, wf_ex.context)  fallback:wrong-source
  M7  expressions.evaluate_recursively: no deepcopy of the clause                fallback:wrong-source (second evaluation of one spec) + disagreement
  M8  context_versioning._merge_versions: max -> min                             stale:same-shape
  M11 data_flow.evaluate_task_outbound_context: inherited over published         stale:same-shape
  M12 lang/v2/tasks.get_publish: on-complete publish ignored next to `publish`   declared-not-published:branch
  M13 data_flow.evaluate_upstream_context: first upstream row not merged         stale:same-shape
  M14 data_flow.evaluate_workflow_output: wf_ex.context before the final ctx     fallback:wrong-source:output
Reverting either fix commit in a scratch worktree is detected:
  R1  git revert f28ee2d0 (PublishSpec.merge)      F5:on-complete-global-dropped-by-task-publish, F5:branch-dropped-by-on-clause-without-branch,
                                                   F5:global-dropped-by-on-clause-without-global, mutated:spec:get_publish (+ C05_source_facts, disagreements)
  R2  git revert 883c1b22 (context_versioning)     stale:shape-change (component and e2e) (+ C05_source_facts, disagreements)
"""
import copy
import hashlib
import itertools
import json

from harness import core
from harness.core import coq_str

GEN = ['CtxFacts']

MANIFEST = {
    'level_text': 'Coq theorems over Model/Ctx.v and Model/Publish.v, all contexts / paths / versions / published dicts '
                  '(nested JSON values): outbound = published over inbound with every version bumped once per published '
                  'path (leaves and dict nodes); one-level and path-level characterisation of merge-by-version (newer wins, ties keep left, '
                  'absent keys added, versions = max); a leaf published in a branch survives a merge with any context '
                  'that is not newer along the leaf position, both argument orders ('
                  'flat and nested, any previous shape of the variable - unconditional since fix 883c1b22, former witness kept); '
                  'merge commutative/idempotent on conflict-free nested contexts, associative and the upstream fold '
                  'invariant under every permutation of the rows (incl. the base row) on flat and on shape-compatible nested '
                  'conflict-free contexts; '
                  'the row with the strictly highest version decides wherever it stands; ContextView priority per call '
                  'site; get_publish publishes exactly the declared variables (unconditional since fix f28ee2d0) and its priorities; '
                  'source forms extracted by a translator on every run. Model tied to the code by '
                  'differential runs of the real functions (every permutation of <= 5 rows, real YAQL/Jinja).',
    'level_note': 'Trusted: YAQL/Jinja evaluators outside the generated expression forms, md5 of version keys treated as '
                  'injective, SQLAlchemy JSON column behaviour (fake rows are plain objects at component level; real rows '
                  'in the e2e suite). Aliasing/mutation is decided by the harness oracle only (Gallina is pure). Engine-'
                  'level causal theorem (C05_causal_latest) is left to the engine model.',
    'technique': 'Coq proofs (induction over nested values / folds / permutations) over hand models; differential '
                 'correspondence incl. exhaustive permutations; property oracles on real functions and real engine rows',
    'design_ref': '6 C05',
}

IMPORTS = ['Model.Ctx', 'Model.Publish']
VK = '__versions'
TE = '__task_execution'


# ---------------------------------------------------------------------------
# python value -> Coq term

def cv(v):
    if v is None:
        return 'VNull'
    if isinstance(v, bool):
        return '(VBool %s)' % ('true' if v else 'false')
    if isinstance(v, int):
        return '(VNum (%d)%%Z)' % v
    if isinstance(v, str):
        return '(VStr %s)' % coq_str(v)
    if isinstance(v, (list, tuple)):
        return '(VList [%s])' % '; '.join(cv(x) for x in v)
    if isinstance(v, dict):
        return '(VDict %s)' % cd(v)
    raise TypeError(type(v))


def cd(d):
    return '[%s]' % '; '.join('(%s, %s)' % (coq_str(k), cv(v)) for k, v in d.items())


def cvers(vs):
    return '[%s]' % '; '.join('(%s, %d%%N)' % (coq_str(k), n) for k, n in vs.items())


def cctx(data, vers):
    return '(mkCtx %s %s)' % (cd(data), cvers(vers))


def ctex(row):
    return '(%s, %s)' % (cctx(row['data'], row['vers']), cd(row['pub']))


def md5(p):
    return hashlib.md5(p.encode('utf-8')).hexdigest()


def hashed(vers):
    return {md5(p): n for p, n in vers.items()}


def py_ctx(data, vers, with_key=True):
    """the python dict the code works on for a model context"""
    d = copy.deepcopy(data)
    if with_key:
        d[VK] = hashed(vers)
    return d


def split_impl(ctx):
    """impl context -> (data, hashed versions or None)"""
    if ctx is None:
        return None
    d = {k: v for k, v in ctx.items() if k != VK}
    return d, ctx.get(VK)


def parse_model_ctx(s):
    s = core.unquote(s)
    if s == 'null':
        return None
    o = json.loads(s)
    return o['data'], hashed(o['vers'])


def same_ctx(model, impl):
    """model: (data, hashed vers) | None ; impl: python ctx dict ({} for the empty answer)"""
    if model is None:
        return impl == {}
    d, v = split_impl(impl)
    return d == model[0] and v == model[1]


class Row:
    """a task execution as far as the data flow reads it"""

    def __init__(self, name, in_context, published, state='SUCCESS'):
        self.id = 'id-' + name
        self.name = name
        self.in_context = in_context
        self.published = published
        self.state = state
        self.runtime_context = {}
        self.processed = True


def mk_row(r, name='t'):
    return Row(name, py_ctx(r['data'], r['vers'], r.get('has_vk', True)), copy.deepcopy(r['pub']))


# ---------------------------------------------------------------------------
# generators

KEYS = ['a', 'b', 'c', 'x', 'y']
ODD_KEYS = ['a.b', '', 'a.b.c', 'b.c']
SCALARS = [0, 1, 2, -3, 17, True, False, None, 'sa', 'sb', 's c', [], [1, 2], ['sa', {'a': 1}]]


def gen_value(rng, depth, odd=False):
    r = rng.random()
    if depth > 0 and r < 0.4:
        n = rng.choice([0, 1, 1, 2, 2, 3])
        keys = rng.sample(KEYS + (ODD_KEYS if odd else []), n)
        return {k: gen_value(rng, depth - 1, odd) for k in keys}
    return copy.deepcopy(rng.choice(SCALARS))


def gen_dict(rng, depth=2, odd=False, nmax=4):
    n = rng.choice(list(range(0, nmax + 1)))
    pool = KEYS + (ODD_KEYS if odd else [])
    keys = rng.sample(pool, min(n, len(pool)))
    return {k: gen_value(rng, depth, odd) for k in keys}


def join_path(p, k):
    return k if not p else p + '.' + k


def leaf_paths(d, p=''):
    out = []
    for k, v in d.items():
        np = join_path(p, k)
        if isinstance(v, dict):
            out += leaf_paths(v, np)
        else:
            out.append(np)
    return out


def all_paths(d, p=''):
    out = []
    for k, v in d.items():
        np = join_path(p, k)
        out.append(np)
        if isinstance(v, dict):
            out += all_paths(v, np)
    return out


def gen_vers(rng, *dicts):
    """version map over the paths of the given dicts (leaf and inner), plus absent paths"""
    paths = []
    for d in dicts:
        paths += all_paths(d)
    paths += ['a', 'b', 'a.b', 'zz', 'a.zz']
    vs = {}
    for p in paths:
        if rng.random() < 0.6:
            n = rng.choice([0, 1, 1, 2, 2, 3, 7])
            if n:
                vs[p] = n
    return vs


def gen_random_row(rng, odd=False):
    data = gen_dict(rng, 2, odd)
    pub = gen_dict(rng, 2, odd, nmax=3) if rng.random() < 0.8 else {}
    if rng.random() < 0.15:
        data[TE] = {'id': 'i', 'name': 'n'}
    return {'data': data, 'vers': gen_vers(rng, data, pub), 'pub': pub}


# ---- causal histories built with the REAL functions -------------------------------

def real_df():
    from mistral.db.v2 import api as _db_api  # noqa: import order
    from mistral import config  # noqa: registers options
    from mistral.workflow import data_flow
    from mistral.workflow import context_versioning
    return data_flow, context_versioning


def assert_default_conf():
    from oslo_config import cfg
    real_df()
    c = cfg.CONF
    return bool(c.context_versioning.enabled), bool(c.context_versioning.hash_version_keys), c.engine.merge_strategy


def gen_pub_for_history(rng, typechange):
    """published dict of one task: scalars, nested dicts; with `typechange` a variable may
    change between scalar and dict shape along the history"""
    n = rng.choice([0, 1, 1, 2])
    pub = {}
    for k in rng.sample(['a', 'b', 'c'], n):
        if typechange:
            pub[k] = gen_value(rng, 2)
        else:
            # shape-stable: a and b are always scalars, c always a dict with scalar leaves x, y
            if k == 'c':
                pub[k] = {kk: rng.choice([0, 1, 2, 'sa', 'sb', True, None]) for kk in rng.sample(['x', 'y'], rng.choice([1, 2]))}
            else:
                pub[k] = rng.choice([0, 1, 2, 5, 'sa', 'sb', False, None, [1, 2]])
    return pub


def gen_history(rng, typechange=False, nmax=7):
    """A causal DAG: task i has parents among earlier tasks (1 parent = plain successor,
    >= 2 = join).  Returns list of dict(name, parents, pub)."""
    n = rng.choice(list(range(2, nmax + 1)))
    tasks = []
    for i in range(n):
        if i == 0:
            parents = []
        else:
            k = 1 if rng.random() < 0.55 or i < 2 else rng.choice([2, 2, 3])
            parents = sorted(rng.sample(range(i), min(k, i)))
        tasks.append({'name': 't%d' % i, 'parents': parents, 'pub': gen_pub_for_history(rng, typechange)})
    return tasks


def ancestors(tasks):
    anc = []
    for i, t in enumerate(tasks):
        s = set()
        for p in t['parents']:
            s.add(p)
            s |= anc[p]
        anc.append(s)
    return anc


def unhash_table(tasks, extra=()):
    tab = {}
    for t in tasks:
        for p in all_paths(t['pub']):
            tab[md5(p)] = p
    for p in extra:
        tab[md5(p)] = p
    return tab


def unhash(vers_hashed, tab):
    return {tab[h]: n for h, n in vers_hashed.items()}


def run_history(tasks, order_rng=None):
    """in_context of every task computed by the REAL evaluate_upstream_context from its
    parents' rows (parents listed in a seeded order).  Returns list of Row."""
    data_flow, _ = real_df()
    rows = []
    for i, t in enumerate(tasks):
        ps = [rows[p] for p in t['parents']]
        if order_rng is not None:
            ps = list(ps)
            order_rng.shuffle(ps)
        ups = [Row(r.name, copy.deepcopy(r.in_context), copy.deepcopy(r.published)) for r in ps]
        inc = data_flow.evaluate_upstream_context(ups) if ups else {}
        rows.append(Row(t['name'], inc, copy.deepcopy(t['pub'])))
    return rows


def at_path(d, ks):
    cur = d
    for k in ks:
        if not isinstance(cur, dict) or k not in cur:
            return ('absent',)
        cur = cur[k]
    return ('val', cur)


def leaf_items(d, pre=()):
    for k, v in d.items():
        if isinstance(v, dict) and v:
            for x in leaf_items(v, pre + (k,)):
                yield x
        elif not isinstance(v, dict):
            yield pre + (k,), v


def latest_requirements(tasks):
    """The property, from the causal graph only: for task i and variable k, if the publishers
    of k among the ancestors of i have a unique causally-maximal element q, every leaf value q
    published under k must be visible to i.  Returns [(i, q, path_tuple, value)]."""
    anc = ancestors(tasks)
    req = []
    for i, t in enumerate(tasks):
        for k in ('a', 'b', 'c', 'x', 'y'):
            pubs = [q for q in anc[i] if k in tasks[q]['pub']]
            if not pubs:
                continue
            maximal = [q for q in pubs if not any(q in anc[q2] for q2 in pubs if q2 != q)]
            if len(maximal) != 1:
                continue
            q = maximal[0]
            v = tasks[q]['pub'][k]
            if isinstance(v, dict):
                for path, x in leaf_items(v, (k,)):
                    req.append((i, q, path, x))
            else:
                req.append((i, q, (k,), v))
    return req


def classify_stale(tasks, i, q, path):
    """signature detail: does some causal predecessor hold a non-dict value strictly above the
    leaf position (the variable changed between scalar and dict shape)?"""
    anc = ancestors(tasks)
    for a in anc[i]:
        for n in range(1, len(path)):
            r = at_path(tasks[a]['pub'], path[:n])
            if r[0] == 'val' and not isinstance(r[1], dict):
                return 'shape-change'
    return 'same-shape'


# ---------------------------------------------------------------------------
# immutability oracle helper

def freeze(o):
    return json.dumps(o, sort_keys=True, default=repr)


class Watch:
    """deep snapshot of named stored dicts; `changed()` lists the ones that differ afterwards"""

    def __init__(self, **named):
        self.named = named
        self.before = {k: freeze(v) for k, v in named.items()}

    def changed(self):
        return sorted(k for k, v in self.named.items() if freeze(v) != self.before[k])


# ---------------------------------------------------------------------------
# suites: context algebra

def suite_outbound(ctx):
    data_flow, _ = real_df()
    rng = ctx.rng
    cases = []
    for r in CORPUS_ROWS:
        cases.append(copy.deepcopy(r))
    for _ in range(ctx.n(500, 8000)):
        r = gen_random_row(rng, odd=rng.random() < 0.3)
        m = rng.random()
        if m < 0.08:
            r['pub'] = None if rng.random() < 0.5 else {}
        if m > 0.9:
            r['has_vk'] = False
            r['vers'] = {}
        cases.append(r)
    exprs, impls = [], []
    for r in cases:
        row = mk_row(r)
        w = Watch(in_context=row.in_context, published=row.published)
        out = data_flow.evaluate_task_outbound_context(row)
        ch = w.changed()
        if ch:
            ctx.fail('mutated:outbound:%s' % ','.join(ch), 'evaluate_task_outbound_context changed the stored %s of the task' % ch,
                     {'kind': 'outbound', 'row': r})
        impls.append(out)
        pub = r['pub'] or {}
        exprs.append('show_ctx (outbound %s %s)' % (cctx(r['data'], r['vers']), cd(pub)))
    res = core.coq_eval('c05out', IMPORTS, exprs, timeout=3000)
    nested = 0
    for r, impl, m in zip(cases, impls, res):
        ctx.count('outbound', freeze(r), nontrivial=bool(r['pub']))
        ctx.cov['disagreements_checked'] += 1
        nested += any(isinstance(v, dict) for v in (r['pub'] or {}).values())
        if not same_ctx(parse_model_ctx(m), impl):
            ctx.disagree('outbound', r, core.unquote(m), impl)
    ctx.cov['suites']['outbound']['nested_published'] = nested
    ctx.sample({'suite': 'outbound', 'row': cases[-1]})


def suite_merge(ctx):
    _, cver = real_df()
    rng = ctx.rng
    cases = [copy.deepcopy(c) for c in CORPUS_MERGE]
    for _ in range(ctx.n(700, 10000)):
        odd = rng.random() < 0.3
        l = gen_random_row(rng, odd)
        r = gen_random_row(rng, odd)
        if rng.random() < 0.5:
            # related contexts: right = left with a few changes (realistic branches)
            r['data'] = copy.deepcopy(l['data'])
            for k in list(r['data'])[:2]:
                if rng.random() < 0.5:
                    r['data'][k] = gen_value(rng, 2, odd)
            r['vers'] = dict(l['vers'])
            for p in all_paths(r['data']):
                if rng.random() < 0.4:
                    r['vers'][p] = r['vers'].get(p, 0) + rng.choice([0, 1, 1, 2])
            r['vers'] = {p: n for p, n in r['vers'].items() if n}
        cases.append({'l': {'data': l['data'], 'vers': l['vers']}, 'r': {'data': r['data'], 'vers': r['vers']}})
    exprs, impls = [], []
    for c in cases:
        lc, rc = py_ctx(c['l']['data'], c['l']['vers']), py_ctx(c['r']['data'], c['r']['vers'])
        impls.append(cver.merge_context_by_version(lc, rc))
        exprs.append('show_ctx (merge_ctx %s %s)' % (cctx(c['l']['data'], c['l']['vers']), cctx(c['r']['data'], c['r']['vers'])))
    res = core.coq_eval('c05merge', IMPORTS, exprs, timeout=3000)
    kinds = {'dict-dict': 0, 'dict-scalar': 0, 'scalar-scalar': 0}
    for c, impl, m in zip(cases, impls, res):
        both = set(c['l']['data']) & set(c['r']['data'])
        for k in both:
            a, b = isinstance(c['l']['data'][k], dict), isinstance(c['r']['data'][k], dict)
            kinds['dict-dict' if a and b else 'dict-scalar' if a or b else 'scalar-scalar'] += 1
        ctx.count('merge', freeze(c), nontrivial=bool(both))
        ctx.cov['disagreements_checked'] += 1
        if not same_ctx(parse_model_ctx(m), impl):
            ctx.disagree('merge', c, core.unquote(m), impl)
    ctx.cov['suites']['merge']['shared_key_kinds'] = kinds
    ctx.sample({'suite': 'merge', 'case': cases[-1]})



def obs_of(d, path):
    r = at_path(d, path)
    if r[0] == 'absent':
        return None
    return 'node' if isinstance(r[1], dict) else ('leaf', freeze(r[1]))


def key_paths(d, pre=()):
    out = []
    for k, v in d.items():
        out.append(pre + (k,))
        if isinstance(v, dict):
            out += key_paths(v, pre + (k,))
    return out


def theorem_hypotheses(outs):
    """hypotheses of C05_upstream_perm_nested evaluated on the REAL outbound contexts of the rows:
    no "__task_execution", pairwise shape compatibility, and at every key path: absent => version 0,
    equal versions => equal observation"""
    datas = [{k: v for k, v in o.items() if k != VK} for o in outs]
    verss = [o.get(VK, {}) for o in outs]
    if any(TE in d for d in datas):
        return False
    paths = sorted(set(p for d in datas for p in key_paths(d)) | set())
    for p in paths:
        cells = [(obs_of(d, p), v.get(md5('.'.join(p)), 0)) for d, v in zip(datas, verss)]
        for (o1, n1) in cells:
            if o1 is None and n1 != 0:
                return False
        for i in range(len(cells)):
            for j in range(i + 1, len(cells)):
                (o1, n1), (o2, n2) = cells[i], cells[j]
                if o1 is not None and o2 is not None:
                    if (o1 == 'node') != (o2 == 'node'):
                        return False
                    if n1 == n2 and o1 != o2:
                        return False
    # dotted keys would make two key paths share one version entry: outside the theorem's reading
    if any('.' in k or k == '' for p in paths for k in p):
        return False
    return True


ALIAS = {}
ORACLE = {}


def rows_of_history(tasks, rows, i, tab):
    """model rows (data, vers by path, pub) of the parents of task i"""
    out = []
    for p in tasks[i]['parents']:
        d, v = split_impl(rows[p].in_context)
        out.append({'name': rows[p].name, 'data': d, 'vers': unhash(v or {}, tab), 'pub': copy.deepcopy(rows[p].published),
                    'has_vk': v is not None})
    return out


def check_upstream_perms(ctx, suite, ups, exprs, pending, replay, reqs=()):
    """run the REAL evaluate_upstream_context on every permutation; queue the model expression"""
    data_flow, _ = real_df()
    perms = list(itertools.permutations(range(len(ups))))
    outs = [data_flow.evaluate_task_outbound_context(mk_row(u, u.get('name', 'u'))) for u in ups]
    hyp = len(ups) > 1 and theorem_hypotheses(outs)
    ORACLE['joins'] = ORACLE.get('joins', 0) + (len(ups) > 1)
    ORACLE['joins_in_theorem_class'] = ORACLE.get('joins_in_theorem_class', 0) + bool(hyp)
    results = []
    for perm in perms:
        rows = [mk_row(ups[j], ups[j].get('name', 'u%d' % j)) for j in perm]
        w = Watch(**{'in_context[%s]' % r.name: r.in_context for r in rows})
        wp = Watch(**{'published[%s]' % r.name: r.published for r in rows})
        impl = data_flow.evaluate_upstream_context(list(rows))
        ch = w.changed()
        if ch:
            ctx.fail('mutated:upstream:in_context', 'evaluate_upstream_context changed the stored %s' % ch,
                     dict(replay, kind='upstream', perm=list(perm)))
        if wp.changed():
            # nested dicts of `published` are shared with the merged result and merged into in place
            ALIAS[suite] = ALIAS.get(suite, 0) + 1
        results.append(freeze(impl))
        exprs.append('show_octx (eval_upstream [%s])' % '; '.join(ctex(ups[j]) for j in perm))
        pending.append((suite, dict(replay, perm=list(perm)), impl))
        for (q, path, x, cls) in reqs:
            got = at_path(impl, path)
            ORACLE['latest_checked'] = ORACLE.get('latest_checked', 0) + 1
            if got != ('val', x):
                ctx.fail('stale:%s' % cls,
                         'task %s must see %s=%r published by its causally latest publisher %s, but its inbound context has %s '
                         '(upstream rows in order %s)' % (replay['history'][replay['task']]['name'], '.'.join(path), x,
                                                          replay['history'][q]['name'], got, [ups[j]['name'] for j in perm]),
                         dict(replay, kind='history', perm=list(perm), path=list(path), required=x, observed=list(got)))
    if hyp and len(set(results)) > 1:
        # C05_upstream_perm_nested applies to these rows: the real function must be order independent
        ctx.disagree('upstream-order-theorem', dict(replay, kind='upstream-order'),
                     'one result for all %d permutations (theorem hypotheses hold on the real outbound contexts)' % len(perms),
                     '%d different results' % len(set(results)))
    return len(perms)


def suite_upstream(ctx):
    rng = ctx.rng
    exprs, pending = [], []
    nperm = 0
    sizes = {}
    # corpus + histories: the parents of every join / successor of real fork/join histories
    hist = [copy.deepcopy(h) for h in CORPUS_HISTORIES]
    for _ in range(ctx.n(60, 500)):
        hist.append(gen_history(rng, typechange=rng.random() < 0.4, nmax=6))
    for tasks in hist:
        rows = run_history(tasks, random_order(rng))
        tab = unhash_table(tasks)
        reqs = latest_requirements(tasks)
        for i, t in enumerate(tasks):
            if not t['parents'] or len(t['parents']) > 5:
                continue
            ups = rows_of_history(tasks, rows, i, tab)
            sizes[len(ups)] = sizes.get(len(ups), 0) + 1
            mine = [(q, path, x, classify_stale(tasks, i, q, path)) for (ti, q, path, x) in reqs if ti == i]
            nperm += check_upstream_perms(ctx, 'upstream', ups, exprs, pending, {'history': tasks, 'task': i}, mine)
    # random stream (incl. odd keys, absent versions, versions of absent paths, "__task_execution")
    for _ in range(ctx.n(60, 500)):
        n = rng.choice([1, 2, 2, 3, 3, 4, 5])
        odd = rng.random() < 0.3
        ups = [gen_random_row(rng, odd) for _ in range(n)]
        if n > 3 and rng.random() < 0.5:
            ups = ups[:3]
        sizes[len(ups)] = sizes.get(len(ups), 0) + 1
        nperm += check_upstream_perms(ctx, 'upstream', ups, exprs, pending, {'rows': ups})
    res = core.coq_eval('c05ups', IMPORTS, exprs, chunk=200, timeout=3000)
    for (suite, rep, impl), m in zip(pending, res):
        ctx.count(suite, freeze(rep), nontrivial=True)
        ctx.cov['disagreements_checked'] += 1
        if not same_ctx(parse_model_ctx(m), impl):
            ctx.disagree(suite, rep, core.unquote(m), impl)
    # empty list
    data_flow, _ = real_df()
    if data_flow.evaluate_upstream_context([]) != {}:
        ctx.disagree('upstream', {'rows': []}, 'None', 'non-empty')
    ctx.cov['suites']['upstream']['permutations'] = nperm
    ctx.cov['suites']['upstream']['published_alias_mutations_in_memory'] = ALIAS.get('upstream', 0)
    ctx.cov['suites']['upstream']['rows_per_case'] = sizes
    ctx.cov['suites']['upstream']['latest_publisher_requirements_checked'] = ORACLE.get('latest_checked', 0)
    ctx.cov['suites']['upstream']['joins(>=2 rows)'] = ORACLE.get('joins', 0)
    ctx.cov['suites']['upstream']['joins_satisfying_hypotheses_of_C05_upstream_perm_nested'] = ORACLE.get('joins_in_theorem_class', 0)
    ctx.sample({'suite': 'upstream', 'case': pending[-1][1]})


def random_order(rng):
    import random
    return random.Random(rng.random())


def suite_final(ctx):
    """evaluate_workflow_final_context over batches, on a real controller object"""
    from mistral.workflow import direct_workflow
    rng = ctx.rng
    exprs, impls, cases = [], [], []
    for _ in range(ctx.n(120, 2000)):
        nb = rng.choice([1, 1, 2, 3])
        batches = []
        for _b in range(nb):
            batches.append([gen_random_row(rng) for _ in range(rng.choice([1, 1, 2, 3]))])
        if rng.random() < 0.1:
            batches.insert(rng.randrange(len(batches) + 1), [])
        ctrl = direct_workflow.DirectWorkflowController.__new__(direct_workflow.DirectWorkflowController)
        real_batches = [[mk_row(r, 'b%d_%d' % (bi, ri)) for ri, r in enumerate(b)] for bi, b in enumerate(batches)]
        ctrl._find_end_task_executions_as_batches = lambda rb=real_batches: iter([list(b) for b in rb])
        impls.append(ctrl.evaluate_workflow_final_context())
        cases.append(batches)
        exprs.append('show_octx (final_context [%s])' % '; '.join('[%s]' % '; '.join(ctex(r) for r in b) for b in batches))
    res = core.coq_eval('c05final', IMPORTS, exprs, timeout=3000)
    for c, impl, m in zip(cases, impls, res):
        ctx.count('final', freeze(c), nontrivial=len(c) > 1)
        ctx.cov['disagreements_checked'] += 1
        if not same_ctx(parse_model_ctx(m), impl):
            ctx.disagree('final', c, core.unquote(m), impl)


def suite_view(ctx):
    data_flow, _ = real_df()
    rng = ctx.rng
    exprs, impls, cases = [], [], []
    for _ in range(ctx.n(300, 5000)):
        dicts = [gen_dict(rng, 1, odd=rng.random() < 0.2) for _ in range(rng.choice([1, 2, 3, 5, 6]))]
        view = data_flow.ContextView(*[copy.deepcopy(d) for d in dicts])
        for k in rng.sample(KEYS + ['zz', ''], 3):
            sentinel = object()
            g = view.get(k, sentinel)
            try:
                item = view[k]
                has_item = True
            except KeyError:
                item, has_item = None, False
            impl = {'has': k in view, 'value': None if g is sentinel else g, 'absent': g is sentinel,
                    'item_agrees': (has_item and item == g) or (not has_item and g is sentinel),
                    'in_keys': k in view.keys()}
            cases.append((dicts, k))
            impls.append(impl)
            exprs.append('(show_ovalue (view_lookup %s [%s]), view_has %s [%s])' % (
                coq_str(k), '; '.join(cd(d) for d in dicts), coq_str(k), '; '.join(cd(d) for d in dicts)))
    res = core.coq_eval('c05view', IMPORTS, exprs, timeout=3000)
    for (dicts, k), impl, m in zip(cases, impls, res):
        mm = core.re.match(r'\("(.*)"\s*,\s*(true|false)\)\s*$', m, flags=core.re.S)
        txt = mm.group(1).replace('""', '"')
        mval = ('absent',) if txt == 'absent' else ('val', json.loads(txt))
        ival = ('absent',) if impl['absent'] else ('val', impl['value'])
        ctx.count('view', freeze([dicts, k]), nontrivial=sum(k in d for d in dicts) > 1)
        ctx.cov['disagreements_checked'] += 1
        if mval != ival or (mm.group(2) == 'true') != impl['has'] or not impl['item_agrees'] or impl['in_keys'] != impl['has']:
            ctx.disagree('view', {'dicts': dicts, 'key': k}, m, impl)


# ---------------------------------------------------------------------------
# publish clauses: generation, surface syntax (YAQL / Jinja), Coq terms

class O(object):
    """plain attribute bag standing for a DB row"""

    def __init__(self, **kw):
        self.__dict__.update(kw)


SURF = {}     # surface string -> canonical pexpr json
VARS = ['a', 'b', 'c', 'x', 'y']


def surf(pe, rng):
    """surface form of a pexpr leaf; registers it for the reverse mapping"""
    kind = pe[0]
    jin = rng.random() < 0.5
    if kind == 'path':
        ks = pe[1]
        if ks[0] == '__env':
            body = 'env().' + '.'.join(ks[1:])
        else:
            body = ('_.' if jin else '$.') + '.'.join(ks)
        s = ('{{ %s }}' if jin else '<%% %s %%>') % body
        SURF[s] = {'path': list(ks)}
        return s
    if kind == 'get':
        s = ("{{ _.get('%s') }}" % pe[1]) if jin else ('<%% $.get(%s) %%>' % pe[1])
        SURF[s] = {'get': pe[1]}
        return s
    raise ValueError(pe)


def gen_pexpr(rng, depth=2):
    r = rng.random()
    if r < 0.35:
        return ('lit', rng.choice([0, 1, 2, 42, True, False, None, 'sa', 'sb']))
    if r < 0.7:
        n = rng.choice([1, 1, 1, 2, 3])
        first = rng.choice(VARS + VARS + ['zz'])
        return ('path', [first] + [rng.choice(['x', 'x', 'y', 'a']) for _ in range(n - 1)])
    if r < 0.78:
        return ('path', ['__env', rng.choice(['e1', 'e1', 'e2', 'e2', 'zz'])])
    if r < 0.88:
        return ('get', rng.choice(VARS + ['zz']))
    if depth > 0 and r < 0.94:
        return ('list', [gen_pexpr(rng, depth - 1) for _ in range(rng.choice([0, 1, 2]))])
    if depth > 0:
        return ('dict', {k: gen_pexpr(rng, depth - 1) for k in rng.sample(['x', 'y', 'a'], rng.choice([1, 2]))})
    return ('lit', 7)


def gen_pd(rng, names, nmin=1, nmax=3):
    n = rng.choice(list(range(nmin, nmax + 1)))
    return {k: gen_pexpr(rng) for k in rng.sample(names, min(n, len(names)))}


def raw_of(pe, rng):
    """the YAML-level value of a pexpr"""
    k = pe[0]
    if k == 'lit':
        return pe[1]
    if k in ('path', 'get'):
        return surf(pe, rng)
    if k == 'list':
        return [raw_of(x, rng) for x in pe[1]]
    return {kk: raw_of(v, rng) for kk, v in pe[1].items()}


def raw_pd(pd, rng):
    return {k: raw_of(v, rng) for k, v in pd.items()}


def cpe(pe):
    k = pe[0]
    if k == 'lit':
        return '(PLit %s)' % cv(pe[1])
    if k == 'path':
        return '(PPath [%s])' % '; '.join(coq_str(x) for x in pe[1])
    if k == 'get':
        return '(PGet %s)' % coq_str(pe[1])
    if k == 'list':
        return '(PList [%s])' % '; '.join(cpe(x) for x in pe[1])
    return '(PDict %s)' % cpd(pe[1])


def cpd(pd):
    return '[%s]' % '; '.join('(%s, %s)' % (coq_str(k), cpe(v)) for k, v in pd.items())


def cops(ps):
    """option pubspec; ps = None | {'branch': pd|None, 'global': pd|None}"""
    if ps is None:
        return 'None'
    return '(Some (mkPS %s %s))' % tuple('None' if ps.get(k) is None else '(Some %s)' % cpd(ps[k]) for k in ('branch', 'global'))



def parse_surface(s):
    """canonical pexpr of a generated surface expression (used when the SURF table is not populated: replay)"""
    if not isinstance(s, str):
        return None
    m = core.re.match(r"^(?:<% (.*) %>|\{\{ (.*) \}\})$", s)
    if not m:
        return None
    body = m.group(1) or m.group(2)
    g = core.re.match(r"^[$_]\.get\('?(\w+)'?\)$", body)
    if g:
        return {'get': g.group(1)}
    e = core.re.match(r"^env\(\)\.([\w.]+)$", body)
    if e:
        return {'path': ['__env'] + e.group(1).split('.')}
    q = core.re.match(r"^[$_]\.([\w.]+)$", body)
    if q:
        return {'path': q.group(1).split('.')}
    return None


def surf_lookup(raw):
    return SURF.get(raw) or parse_surface(raw) if isinstance(raw, str) else None


def canon_raw(v):
    """canonical pexpr json of a YAML-level value (what the real spec objects hold)"""
    if isinstance(v, str) and v in SURF:
        return SURF[v]
    if isinstance(v, dict):
        return {'dict': {k: canon_raw(x) for k, x in v.items()}}
    if isinstance(v, list):
        return {'list': [canon_raw(x) for x in v]}
    return {'lit': v}


def gen_task_publish(rng):
    """the publishing-related clauses of one task"""
    def clause():
        r = rng.random()
        if r < 0.45:
            return None
        ps = {}
        if rng.random() < 0.7:
            ps['branch'] = gen_pd(rng, VARS)
        if rng.random() < 0.5 or not ps:
            ps['global'] = gen_pd(rng, ['g', 'h', 'a'], 1, 2)
        return ps
    t = {'publish': gen_pd(rng, VARS) if rng.random() < 0.65 else {},
         'publish-on-error': gen_pd(rng, VARS) if rng.random() < 0.4 else {},
         'on-complete': clause(), 'on-success': clause(), 'on-error': clause()}
    return t


def task_yaml(t, rng, extra=None):
    d = {'action': 'std.noop'}
    if t['publish']:
        d['publish'] = raw_pd(t['publish'], rng)
    if t['publish-on-error']:
        d['publish-on-error'] = raw_pd(t['publish-on-error'], rng)
    for oc in ('on-complete', 'on-success', 'on-error'):
        if t[oc] is not None:
            d[oc] = {'publish': {k: raw_pd(v, rng) for k, v in t[oc].items() if v is not None}}
    d.update(extra or {})
    return d


PARSED = [0]


def parse_wf(wf_dict, validate=None):
    """real spec objects from generated YAML.  Schema validation (jsonschema re-checks the whole
    schema on every call, ~0.4 s) is done for the corpus and every 10th case; the others are built
    the way the engine builds specs at run time (validate=False)."""
    import yaml
    from mistral.lang import parser as spec_parser
    text = yaml.safe_dump({'version': '2.0', 'wf': wf_dict}, default_flow_style=False)
    PARSED[0] += 1
    if validate is None:
        validate = PARSED[0] % 10 == 0
    return spec_parser.get_workflow_list_spec_from_yaml(text, validate=validate).get_workflows()[0], text


def model_args(t, state):
    tl = t['publish'] if state == 'SUCCESS' else t['publish-on-error']
    oncl = t['on-success'] if state == 'SUCCESS' else t['on-error']
    return tl, t['on-complete'], oncl


def declared_vars(t, state):
    """what the workflow text declares to be published when the task ends in `state`"""
    tl, oc, oncl = model_args(t, state)
    br, gl = set(tl), set()
    for c in (oc, oncl):
        if c:
            br |= set(c.get('branch') or {})
            gl |= set(c.get('global') or {})
    return br, gl


def classify_dropped(t, state, got_br, got_gl):
    """declared => published, with the signature of the failure.  The three F5 signatures are
    the cases PublishSpec.merge discards because the receiving side has no such part (None)."""
    tl, oc, oncl = model_args(t, state)
    br, gl = declared_vars(t, state)
    out = {}
    for k in br - got_br:
        from_spec1 = k in tl or k in ((oc or {}).get('branch') or {})
        if oncl is not None and oncl.get('branch') is None and from_spec1:
            sig = 'F5:branch-dropped-by-on-clause-without-branch'
        else:
            sig = 'declared-not-published:branch'
        out.setdefault(sig, set()).add(k)
    for k in gl - got_gl:
        in_oc = k in ((oc or {}).get('global') or {})
        if in_oc and tl:
            sig = 'F5:on-complete-global-dropped-by-task-publish'
        elif in_oc and oncl is not None and oncl.get('global') is None:
            sig = 'F5:global-dropped-by-on-clause-without-global'
        else:
            sig = 'declared-not-published:global'
        out.setdefault(sig, set()).add(k)
    return out


def suite_get_publish(ctx):
    real_df()
    rng = ctx.rng
    cases = [copy.deepcopy(c) for c in CORPUS_PUBLISH]
    for _ in range(ctx.n(250, 3000)):
        cases.append({'task': gen_task_publish(rng), 'state': rng.choice(['SUCCESS', 'SUCCESS', 'ERROR'])})
    exprs, impls = [], []
    spec_mut = 0
    for c in cases:
        t, state = c['task'], c['state']
        wf_spec, text = parse_wf({'type': 'direct', 'tasks': {'t1': task_yaml(t, rng)}},
                                 validate=True if len(exprs) < len(CORPUS_PUBLISH) else None)
        ts = wf_spec.get_tasks()['t1']
        before = freeze(ts.to_dict())
        ps = ts.get_publish(state)
        impl = None if ps is None else {'branch': ps.get_branch(), 'global': ps.get_global()}
        impl = copy.deepcopy(impl)
        ps2 = ts.get_publish(state)
        impl2 = None if ps2 is None else {'branch': ps2.get_branch(), 'global': ps2.get_global()}
        if freeze(impl) != freeze(impl2):
            ctx.disagree('get_publish', {'case': c, 'yaml': text}, 'same answer on the second call', [impl, impl2])
        if freeze(ts.to_dict()) != before:
            spec_mut += 1
            ctx.fail('mutated:spec:get_publish', 'get_publish(%s) changed the dictionary the task specification was built from' % state,
                     {'kind': 'get_publish', 'task': t, 'yaml': text, 'state': state, 'spec_before': json.loads(before),
                      'spec_after': json.loads(freeze(ts.to_dict()))})
        impls.append(impl)
        c['yaml'] = text
        tl, oc, oncl = model_args(t, state)
        exprs.append('show_opubspec (get_publish %s %s %s)' % (cpd(tl), cops(oc), cops(oncl)))
        # oracle: declared => published
        got_br = set((impl or {}).get('branch') or {})
        got_gl = set((impl or {}).get('global') or {})
        for sig, missing in classify_dropped(t, state, got_br, got_gl).items():
            ctx.fail(sig, 'get_publish(%s) drops the declared variables %s' % (state, sorted(missing)),
                     {'kind': 'get_publish', 'task': t, 'yaml': text, 'state': state, 'missing': sorted(missing)})
    res = core.coq_eval('c05gp', IMPORTS, exprs, timeout=3000)
    shapes = {}
    for c, impl, m in zip(cases, impls, res):
        mj = json.loads(core.unquote(m))
        if mj is not None:
            mj = {k: (None if v is None else v['dict']) for k, v in mj.items()}
        ij = None if impl is None else {k: (None if v is None else canon_raw(v)['dict']) for k, v in impl.items()}
        key = '%s/%s/%s' % tuple('-' if x in (None, {}) else '+' for x in model_args(c['task'], c['state']))
        shapes[key] = shapes.get(key, 0) + 1
        ctx.count('get_publish', freeze([c['task'], c['state']]), nontrivial=key.count('+') > 1)
        ctx.cov['disagreements_checked'] += 1
        if mj != ij:
            ctx.disagree('get_publish', {'yaml': c['yaml'], 'state': c['state']}, mj, ij)
    ctx.cov['suites']['get_publish']['clause_presence(task/on-complete/on-clause)'] = shapes
    ctx.cov['suites']['get_publish']['spec_dict_mutated_by_get_publish'] = spec_mut
    ctx.sample({'suite': 'get_publish', 'yaml': cases[-1]['yaml'], 'state': cases[-1]['state']})


def gen_env_ctx_input(rng):
    def small(names, p):
        return {k: rng.choice([0, 1, 2, 'sa', 'sb', None, True, {'x': 1, 'y': {'a': 2}}, {'x': 'sa'}, [1, 2]]) for k in names if rng.random() < p}
    in_ctx = small(VARS, 0.6)
    wctx = small(VARS + ['g'], 0.5)
    wctx['__execution'] = {'id': 'wid'}
    inp = small(VARS + ['i1'], 0.6)
    env = small(['e1', 'e2'], 0.85)
    return in_ctx, env, wctx, inp


def mk_wf_ex(env, wctx, inp):
    return O(id='wid', context=copy.deepcopy(wctx), input=copy.deepcopy(inp), params={'env': copy.deepcopy(env)},
             root_execution_id=None, root_execution=None)


def expected_var(k, in_ctx, wctx, inp):
    """the property: a causally published value first, then workflow context (vars, global), then input"""
    for d in (in_ctx, wctx, inp):
        if k in d:
            return ('val', d[k])
    return ('absent',)


def shift_values(d):
    """same shape, other scalar values"""
    if isinstance(d, dict):
        return {k: shift_values(v) for k, v in d.items()}
    if isinstance(d, list):
        return [shift_values(v) for v in d]
    if isinstance(d, bool) or d is None:
        return d
    if isinstance(d, int):
        return d + 10
    return d + 'z'


def raw_branch_clauses(t1_yaml, state):
    """variable -> raw value for the branch variables the YAML of the task declares exactly once for `state`"""
    tl = t1_yaml.get('publish' if state == 'SUCCESS' else 'publish-on-error') or {}
    clauses = [tl]
    for oc in ('on-complete', 'on-success' if state == 'SUCCESS' else 'on-error'):
        c = t1_yaml.get(oc)
        if isinstance(c, dict) and isinstance(c.get('publish'), dict):
            clauses.append(c['publish'].get('branch') or {})
    out = {}
    for c in clauses:
        for k, v in c.items():
            out.setdefault(k, []).append(v)
    return {k: v[0] for k, v in out.items() if len(v) == 1}


def publish_once(ctx, ts, t1_yaml, state, in_ctx, env, wctx, inp, rep):
    """one REAL publish_variables call on fresh fake rows + the immutability and fallback oracles"""
    data_flow, _ = real_df()
    from mistral import exceptions as exc
    vers = {p: 1 for p in leaf_paths(in_ctx)}
    wf_ex = mk_wf_ex(env, wctx, inp)
    task_ex = O(id='tid', name='t1', state=state, in_context=py_ctx(in_ctx, vers), published={}, workflow_execution=wf_ex)
    w = Watch(in_context=task_ex.in_context, input=wf_ex.input, params=wf_ex.params)
    wc = Watch(context=wf_ex.context)
    try:
        data_flow.publish_variables(task_ex, ts)
        impl = {'published': task_ex.published, 'wctx': wf_ex.context}
    except (exc.MistralException,):
        impl = 'error'
    except Exception as e:  # not a declared evaluation error
        impl = 'crash:%s' % type(e).__name__
    ch = w.changed()
    if ch:
        ctx.fail('mutated:publish:%s' % ','.join(ch), 'publish_variables changed the stored %s' % ch, rep)
    has_global = any(isinstance(t1_yaml.get(oc), dict) and 'global' in (t1_yaml[oc].get('publish') or {})
                     for oc in ('on-complete', 'on-success', 'on-error'))
    if impl != 'error' and not has_global and wc.changed():
        ctx.fail('mutated:publish:wf-context', 'publish_variables without a global clause changed the workflow context', rep)
    # oracle: a plain variable reference published at top level carries the value visible to the task:
    # what it inherited, else workflow context (vars / global), else input
    if isinstance(impl, dict) and isinstance(impl['published'], dict):
        for var, raw in raw_branch_clauses(t1_yaml, state).items():
            pe = surf_lookup(raw)
            if pe and 'path' in pe and len(pe['path']) == 1 and pe['path'][0] not in ('__env',):
                want = expected_var(pe['path'][0], in_ctx, wctx, inp)
                if want[0] == 'val' and var in impl['published'] and impl['published'][var] != want[1]:
                    ctx.fail('fallback:wrong-source', 'published %s=%r but the visible value of %s is %r' % (
                        var, impl['published'][var], pe['path'][0], want[1]), rep)
    return impl


def suite_publish(ctx):
    """publish_variables with the real YAQL/Jinja evaluators on fake rows and real parsed specs"""
    rng = ctx.rng
    exprs, impls, cases = [], [], []
    outcomes = {}
    for n_case in range(ctx.n(250, 3000)):
        if n_case < len(CORPUS_PUBLISH):
            t, state = copy.deepcopy(CORPUS_PUBLISH[n_case]['task']), CORPUS_PUBLISH[n_case]['state']
        else:
            t, state = gen_task_publish(rng), rng.choice(['SUCCESS', 'SUCCESS', 'ERROR'])
        in_ctx, env, wctx, inp = gen_env_ctx_input(rng)
        t1_yaml = task_yaml(t, rng)
        wf_spec, text = parse_wf({'type': 'direct', 'tasks': {'t1': t1_yaml}})
        ts = wf_spec.get_tasks()['t1']
        tl, oc, oncl = model_args(t, state)
        # the SAME spec object serves the next execution of the task (loops, other workflow runs through
        # the spec cache): a second evaluation under other data must not see anything of the first one
        for k, ic in enumerate((in_ctx, shift_values(in_ctx))):
            rep = {'kind': 'publish', 'yaml': text, 'state': state, 'in_context': in_ctx, 'env': env, 'wf_context': wctx, 'input': inp,
                   'evaluation_on_same_spec': k + 1}
            impls.append(publish_once(ctx, ts, copy.deepcopy(t1_yaml), state, ic, env, wctx, inp, rep))
            cases.append(dict(rep, in_context_used=ic))
            exprs.append('show_pubres (publish_variables "tid" "t1" %s %s %s %s %s %s %s)' % (
                cd(ic), cd(env), cd(wctx), cd(inp), cpd(tl), cops(oc), cops(oncl)))
    res = core.coq_eval('c05pub', IMPORTS, exprs, timeout=3000)
    for rep, impl, m in zip(cases, impls, res):
        mj = json.loads(core.unquote(m))
        if mj == 'nothing':
            ok = isinstance(impl, dict) and impl['published'] == {} and impl['wctx'] == rep['wf_context']
        elif mj == 'error':
            ok = impl == 'error'
        else:
            ok = isinstance(impl, dict) and impl['published'] == mj['published'] and impl['wctx'] == mj['wctx']
        kind = mj if isinstance(mj, str) else 'ok'
        outcomes[kind] = outcomes.get(kind, 0) + 1
        ctx.count('publish', freeze(rep), nontrivial=kind == 'ok')
        ctx.cov['disagreements_checked'] += 1
        if not ok:
            ctx.disagree('publish', rep, mj, impl)
    ctx.cov['suites']['publish']['model_outcomes'] = outcomes
    ctx.sample({'suite': 'publish', 'case': cases[-1]})


def suite_output_vars(ctx):
    data_flow, _ = real_df()
    from mistral import exceptions as exc
    rng = ctx.rng
    exprs, impls, cases = [], [], []
    for _ in range(ctx.n(250, 2500)):
        in_ctx, env, wctx, inp = gen_env_ctx_input(rng)
        which = rng.choice(['output', 'output', 'vars'])
        spec = gen_pd(rng, VARS + ['o'], 0 if which == 'output' else 1, 3)
        if which == 'vars':
            # Workflow._create_execution evaluates `vars` right after creating the execution: the stored context
            # holds only the engine's own keys then (openstack, __execution), never workflow data.  (With workflow
            # data in it a variable evaluated to the very object stored under another key is changed by the
            # in-place merge that follows - a state the engine cannot be in.)
            wctx = {k: v for k, v in wctx.items() if k.startswith('__')}
        wf_dict = {'type': 'direct', 'tasks': {'t1': {'action': 'std.noop'}}}
        if spec:
            wf_dict[which] = raw_pd(spec, rng)
        wf_spec, text = parse_wf(wf_dict)
        wf_ex = mk_wf_ex(env, wctx, inp)
        rep = {'kind': which, 'yaml': text, 'final': in_ctx, 'env': env, 'wf_context': wctx, 'input': inp}
        w = Watch(input=wf_ex.input, params=wf_ex.params)
        wc = Watch(context=wf_ex.context)
        try:
            if which == 'output':
                final = py_ctx(in_ctx, {p: 1 for p in leaf_paths(in_ctx)}, with_key=rng.random() < 0.8)
                impl = ('val', data_flow.evaluate_workflow_output(wf_ex, wf_spec.get_output(), final))
                if wc.changed():
                    ctx.fail('mutated:output:context', 'evaluate_workflow_output changed the stored workflow context', rep)
            else:
                data_flow.add_workflow_variables_to_context(wf_ex, wf_spec)
                impl = ('val', wf_ex.context)
        except exc.MistralException:
            impl = ('error',)
        if w.changed():
            ctx.fail('mutated:%s:%s' % (which, ','.join(w.changed())), '%s evaluation changed the stored %s' % (which, w.changed()), rep)
        if impl[0] == 'val' and isinstance(impl[1], dict):
            raw_spec = wf_dict.get(which) or {}
            # workflow context keys added by the engine itself are not workflow data
            src = (in_ctx, wctx, inp) if which == 'output' else (wctx, inp)
            for var, raw in raw_spec.items():
                pe = surf_lookup(raw)
                if pe and 'path' in pe and len(pe['path']) == 1 and pe['path'][0] != '__env':
                    want = ('absent',)
                    for dd in src:
                        if pe['path'][0] in dd:
                            want = ('val', dd[pe['path'][0]])
                            break
                    if want[0] == 'val' and impl[1].get(var, ('absent',)) != want[1]:
                        ctx.fail('fallback:wrong-source:%s' % which,
                                 '%s %s=%r but the visible value of %s is %r' % (which, var, impl[1].get(var), pe['path'][0], want[1]), rep)
        impls.append(impl)
        cases.append(rep)
        if which == 'output':
            exprs.append('show_ovalue (workflow_output %s %s %s %s %s)' % (cpd(spec), cd(in_ctx), cd(env), cd(wctx), cd(inp)))
        else:
            exprs.append('show_ovalue (option_map VDict (add_vars %s %s %s %s))' % (cpd(spec), cd(env), cd(wctx), cd(inp)))
    res = core.coq_eval('c05outv', IMPORTS, exprs, timeout=3000)
    for rep, impl, m in zip(cases, impls, res):
        txt = core.unquote(m)
        mm = ('error',) if txt == 'absent' else ('val', json.loads(txt))
        ctx.count('output_vars', freeze(rep), nontrivial=mm[0] == 'val')
        ctx.cov['disagreements_checked'] += 1
        if mm != impl:
            ctx.disagree('output_vars', rep, mm, impl)


def suite_call_site_views(ctx):
    """the ContextView orders of get_expression_context, _get_target, _get_timeout, _find_next_tasks"""
    data_flow, _ = real_df()
    from mistral import exceptions as exc
    from mistral.engine import tasks as eng_tasks
    from mistral.workflow import direct_workflow
    rng = ctx.rng
    wf_spec, _text = parse_wf({'type': 'direct', 'tasks': {
        't1': {'action': 'std.noop', 'target': '<% $.k %>', 'timeout': '<% $.k %>', 'on-success': ['t2 x=<% $.k %>']},
        't2': {'action': 'std.noop'}}})
    ts = wf_spec.get_tasks()['t1']
    exprs, impls, cases = [], [], []
    for _ in range(ctx.n(150, 2500)):
        def d(vals):
            return {'k': rng.choice(vals)} if rng.random() < 0.45 else {}
        action_input, task_ctx, extra, in_ctx, wctx, inp = (d([11]), d([12]), d([13]), d([14]), d([15]), d([16]))
        env = {'k': 99}
        wf_ex = mk_wf_ex(env, wctx, inp)
        task_ex = O(id='tid', name='t1', state='SUCCESS', in_context=copy.deepcopy(in_ctx), published={}, workflow_execution=wf_ex)
        t = eng_tasks.RegularTask.__new__(eng_tasks.RegularTask)
        t.task_ex, t.wf_ex, t.ctx, t.task_spec = task_ex, wf_ex, copy.deepcopy(task_ctx), ts
        ctrl = direct_workflow.DirectWorkflowController.__new__(direct_workflow.DirectWorkflowController)
        ctrl.wf_ex, ctrl.wf_spec = wf_ex, wf_spec

        def attempt(f):
            try:
                return ('val', f())
            except (exc.MistralException, KeyError, TypeError):
                # TypeError: _get_timeout compares the unevaluated string when every dict of its view is empty
                return ('absent',)
        w = Watch(in_context=task_ex.in_context, context=wf_ex.context, input=wf_ex.input, params=wf_ex.params)
        impl = {
            'expr': attempt(lambda: t.get_expression_context(copy.deepcopy(extra))['k']),
            'target': attempt(lambda: t._get_target(copy.deepcopy(action_input))),
            'timeout': attempt(lambda: t._get_timeout()),
            'next': attempt(lambda: ctrl._find_next_tasks(task_ex, copy.deepcopy(task_ctx))[0][1]['x']),
        }
        rep = {'kind': 'views', 'action_input': action_input, 'task_ctx': task_ctx, 'extra': extra, 'in_context': in_ctx,
               'wf_context': wctx, 'input': inp}
        if w.changed():
            ctx.fail('mutated:views:%s' % ','.join(w.changed()), 'an expression context evaluation changed the stored %s' % w.changed(), rep)
        impls.append(impl)
        cases.append(rep)
        a = [cd(x) for x in (action_input, task_ctx, extra, in_ctx, wctx, inp)]
        e = cd(env)
        exprs.append('(show_ovalue (view_lookup "k" (expr_view "tid" "t1" %s %s %s %s %s)), '
                     'show_ovalue (view_lookup "k" (target_view %s %s %s %s %s)), '
                     'show_ovalue (view_lookup "k" (timeout_view %s %s %s)), '
                     'show_ovalue (view_lookup "k" (next_view "tid" "t1" %s %s %s %s)))' % (
                         e, a[2], a[3], a[4], a[5], a[0], a[1], e, a[4], a[5], a[3], a[4], a[5], a[1], e, a[4], a[5]))
    res = core.coq_eval('c05views', IMPORTS, exprs, timeout=3000)
    for rep, impl, m in zip(cases, impls, res):
        vals = [x.replace('""', '"') for x in core.re.findall(r'"((?:[^"]|"")*)"', m)]
        mm = [('absent',) if x == 'absent' else ('val', json.loads(x)) for x in vals]
        ii = [impl['expr'], impl['target'], impl['timeout'], impl['next']]
        ctx.count('call_site_views', freeze(rep), nontrivial=True)
        ctx.cov['disagreements_checked'] += 1
        if mm != ii:
            ctx.disagree('call_site_views', rep, mm, ii)


CORPUS_PUBLISH = [
    # F5: on-complete global dropped next to a task-level publish
    {'task': {'publish': {'x': ('lit', 1)}, 'publish-on-error': {}, 'on-complete': {'branch': {'y': ('lit', 2)}, 'global': {'g': ('lit', 7)}},
              'on-success': None, 'on-error': None}, 'state': 'SUCCESS'},
    # F5 (symmetric): task-level publish dropped next to an on-success publish that has only `global`
    {'task': {'publish': {'x': ('lit', 1)}, 'publish-on-error': {}, 'on-complete': None,
              'on-success': {'global': {'g': ('lit', 7)}}, 'on-error': None}, 'state': 'SUCCESS'},
    {'task': {'publish': {'x': ('lit', 1), 'a': ('path', ['a'])}, 'publish-on-error': {'x': ('lit', 2)},
              'on-complete': {'branch': {'x': ('lit', 3)}}, 'on-success': {'branch': {'x': ('lit', 4), 'y': ('lit', 5)}},
              'on-error': {'branch': {'b': ('get', 'zz')}, 'global': {'g': ('path', ['__env', 'e1'])}}}, 'state': 'SUCCESS'},
    {'task': {'publish': {}, 'publish-on-error': {'x': ('lit', 2)}, 'on-complete': {'global': {'g': ('lit', 1)}},
              'on-success': None, 'on-error': {'branch': {'b': ('lit', 1)}}}, 'state': 'ERROR'},
    {'task': {'publish': {}, 'publish-on-error': {}, 'on-complete': None, 'on-success': None, 'on-error': None}, 'state': 'SUCCESS'},
]


# ---------------------------------------------------------------------------
# end to end: the REAL engine under harness/engine_driver.py

def history_yaml(tasks, lang_rng=None):
    """a direct workflow whose causal graph is the given DAG: >= 2 parents = `join: all`"""
    children = {i: [] for i in range(len(tasks))}
    for i, t in enumerate(tasks):
        for p in t['parents']:
            children[p].append(t['name'])
    wt = {}
    for i, t in enumerate(tasks):
        d = {'action': 'std.noop'}
        if t['pub']:
            d['publish'] = copy.deepcopy(t['pub'])
        if len(t['parents']) >= 2:
            d['join'] = 'all'
        if children[i]:
            d['on-success'] = children[i]
        wt[t['name']] = d
    import yaml
    return yaml.safe_dump({'version': '2.0', 'wf': {'type': 'direct', 'tasks': wt}}, default_flow_style=False)


_DRIVER = [None]


def driver(seed):
    from harness import engine_driver
    if _DRIVER[0] is None:
        _DRIVER[0] = engine_driver.Driver('legacy', seed)
    else:
        _DRIVER[0].reset(seed)
    return _DRIVER[0]


def run_engine(yaml_text, seed, wf_input=None):
    """run the workflow to quiescence under a seeded schedule; return the stored rows"""
    import random
    from mistral.db.v2 import api as db_api
    d = driver(seed)
    d.create_workflows(yaml_text)
    d.start_workflow('wf', wf_input or {})
    d.run_schedule(random.Random('sched/%s' % seed))
    with db_api.transaction():
        tasks = {}
        for t in db_api.get_task_executions():
            tasks[t.name] = {'in_context': copy.deepcopy(dict(t.in_context or {})), 'published': copy.deepcopy(dict(t.published or {})),
                             'state': t.state, 'id': t.id,
                             'triggered_by': [x.get('task_id') for x in (t.runtime_context or {}).get('triggered_by', [])]}
        wf = db_api.get_workflow_executions()[0]
        wfr = {'state': wf.state, 'output': copy.deepcopy(wf.output), 'context': copy.deepcopy(dict(wf.context or {})),
               'input': copy.deepcopy(wf.input)}
    return wfr, tasks, list(d.entry_errors)


def check_e2e_history(ctx, tasks, seed, stats):
    text = history_yaml(tasks)
    wfr, rows, errs = run_engine(text, seed)
    rep = {'kind': 'e2e-history', 'yaml': text, 'history': tasks, 'driver_seed': seed}
    if wfr['state'] != 'SUCCESS' or errs or len(rows) != len(tasks):
        ctx.disagree('e2e', rep, 'workflow SUCCESS with one execution per task', {'state': wfr['state'], 'errors': errs[:1], 'tasks': sorted(rows)})
        return
    # the causal graph the engine recorded must be the declared one
    ids = {r['id']: n for n, r in rows.items()}
    for i, t in enumerate(tasks):
        want = sorted(tasks[p]['name'] for p in t['parents'])
        got = sorted(ids.get(x, '?') for x in rows[t['name']]['triggered_by'])
        if len(t['parents']) >= 1 and got != want:
            ctx.disagree('e2e', rep, {'task': t['name'], 'triggered_by': want}, got)
    # virtual sink = the workflow output (no output clause: the final context)
    ends = [i for i in range(len(tasks)) if not any(i in t['parents'] for t in tasks)]
    ext = tasks + [{'name': '<workflow output>', 'parents': ends, 'pub': {}}]
    for (i, q, path, x) in latest_requirements(ext):
        seen = wfr['output'] if i == len(tasks) else rows[tasks[i]['name']]['in_context']
        got = at_path(seen, path)
        stats['latest_checked'] = stats.get('latest_checked', 0) + 1
        if got != ('val', x):
            ctx.fail('stale:%s' % classify_stale(ext, i, q, path),
                     '%s must see %s=%r published by its causally latest publisher %s; stored value: %s' % (
                         ext[i]['name'], '.'.join(path), x, tasks[q]['name'], got),
                     dict(rep, path=list(path), required=x, observed=list(got), where=ext[i]['name']))
    # published rows are what the text says
    for t in tasks:
        if rows[t['name']]['published'] != t['pub']:
            ctx.fail('published:e2e', 'stored published of %s is %r, declared %r' % (t['name'], rows[t['name']]['published'], t['pub']), rep)


E2E_PUBLISH_CORPUS = [
    # (name, publish clauses of t1 as in gen_task_publish, extra yaml of t1)
    ('F5-on-complete-global',
     {'publish': {'x': ('lit', 1)}, 'publish-on-error': {}, 'on-complete': {'branch': {'y': ('lit', 2)}, 'global': {'g': ('lit', 7)}},
      'on-success': None, 'on-error': None}),
    ('F5-task-level-branch',
     {'publish': {'x': ('lit', 1)}, 'publish-on-error': {}, 'on-complete': None, 'on-success': {'global': {'g': ('lit', 7)}}, 'on-error': None}),
    ('F5-global-of-on-complete-vs-on-success-branch',
     {'publish': {}, 'publish-on-error': {}, 'on-complete': {'global': {'g': ('lit', 7)}}, 'on-success': {'branch': {'x': ('lit', 1)}},
      'on-error': None}),
    ('global-and-branch-ok',
     {'publish': {}, 'publish-on-error': {}, 'on-complete': None, 'on-success': {'global': {'g': ('lit', 7)}, 'branch': {'x': ('lit', 1)}},
      'on-error': None}),
    ('all-clauses-with-both-parts',
     {'publish': {}, 'publish-on-error': {}, 'on-complete': {'global': {'h': ('lit', 3)}, 'branch': {'y': ('lit', 2)}},
      'on-success': {'global': {'g': ('lit', 7)}, 'branch': {'x': ('lit', 1)}}, 'on-error': None}),
    ('task-publish-and-on-success-branch',
     {'publish': {'x': ('lit', 1), 'a': ('lit', 'sa')}, 'publish-on-error': {}, 'on-complete': None,
      'on-success': {'branch': {'y': ('lit', 5)}}, 'on-error': None}),
]


def e2e_publish_yaml(t, rng):
    import yaml
    d = task_yaml(t, rng)
    d['on-success'] = dict(d.get('on-success') or {}, next='t2')
    return yaml.safe_dump({'version': '2.0', 'wf': {'type': 'direct', 'tasks': {'t1': d, 't2': {'action': 'std.noop'}}}},
                          default_flow_style=False)


def check_e2e_publish(ctx, name, t, seed, rng):
    """declared => published on the rows of a real run: branch variables of t1 are in the inbound
    context of its successor, global variables in the workflow context"""
    text = e2e_publish_yaml(t, rng)
    wfr, rows, errs = run_engine(text, seed)
    rep = {'kind': 'e2e-publish', 'name': name, 'task': t, 'yaml': text, 'driver_seed': seed}
    if wfr['state'] != 'SUCCESS' or errs or 't2' not in rows:
        ctx.disagree('e2e', rep, 'SUCCESS', {'state': wfr['state'], 'errors': errs[:1], 'tasks': sorted(rows)})
        return
    br, gl = declared_vars(t, 'SUCCESS')
    got_br = set(k for k in br if k in rows['t2']['in_context'])
    got_gl = set(k for k in gl if k in wfr['context'])
    for sig, missing in classify_dropped(t, 'SUCCESS', got_br, got_gl).items():
        ctx.fail(sig, 'after a real run the variables %s declared by t1 are not visible (branch: inbound context of t2, '
                      'global: workflow context)' % sorted(missing), dict(rep, missing=sorted(missing)))


def suite_e2e(ctx):
    """real engine rows: latest-publisher visibility on generated fork/join workflows (every run
    uses another schedule and another id order), and declared => published on a corpus"""
    import yaml
    rng = ctx.rng
    stats = {}
    hist = [copy.deepcopy(h) for h in CORPUS_HISTORIES]
    for _ in range(ctx.n(8, 80)):
        hist.append(gen_history(rng, typechange=rng.random() < 0.3, nmax=6))
    runs = 0
    for hi, tasks in enumerate(hist):
        nseeds = ctx.n(10 if hi == 0 else 2, 12 if hi == 0 else 4)
        for k in range(nseeds):
            seed = ctx.seed * 1000 + hi * 10 + k
            before = len(ctx.failures)
            check_e2e_history(ctx, tasks, seed, stats)
            runs += 1
            ctx.count('e2e', freeze([tasks, seed]), nontrivial=any(len(t['parents']) > 1 for t in tasks))
            ctx.cov['traces_validated_against_impl'] += 1
    for name, t in E2E_PUBLISH_CORPUS:
        check_e2e_publish(ctx, name, copy.deepcopy(t), ctx.seed, rng)
        runs += 1
        ctx.count('e2e', freeze([name]), nontrivial=True)
        ctx.cov['traces_validated_against_impl'] += 1
    ctx.cov['suites']['e2e']['engine_runs'] = runs
    ctx.cov['suites']['e2e'].update(stats)


# ---------------------------------------------------------------------------
# corpus (minimised interesting cases; run first)

CORPUS_ROWS = [
    {'data': {}, 'vers': {}, 'pub': {'a': 1}},
    {'data': {'a': 1}, 'vers': {'a': 1}, 'pub': {'a': {'b': 2}}},                     # scalar -> dict
    {'data': {'a': {'b': 1, 'c': 1}}, 'vers': {'a.b': 1, 'a.c': 1}, 'pub': {'a': {'b': 2}}},   # top-level replace drops a.c
    {'data': {'a': 1}, 'vers': {'a': 1}, 'pub': {'a': {}}},                            # empty dict: no leaf, no bump
    {'data': {'a': {'b': 1}}, 'vers': {'a.b': 3}, 'pub': {'a.b': 5, 'a': {'b': 6}}},   # dotted key collides with nested path
    {'data': {'x': 0}, 'vers': {}, 'pub': {'': {'x': 1}, 'x': 2}},                     # empty key: falsy prefix
    {'data': {'a': [1, {'b': 2}]}, 'vers': {'a': 2}, 'pub': {'a': [3]}},               # lists are leaves
]

CORPUS_MERGE = [
    # F7: inherited scalar on the left, freshly published dict on the right, tie at "a"
    {'l': {'data': {'a': 1}, 'vers': {'a': 1}}, 'r': {'data': {'a': {'b': 2}}, 'vers': {'a': 1, 'a.b': 1}}},
    {'l': {'data': {'a': {'b': 2}}, 'vers': {'a': 1, 'a.b': 1}}, 'r': {'data': {'a': 1}, 'vers': {'a': 1}}},
    {'l': {'data': {'a': 1}, 'vers': {'a': 1}}, 'r': {'data': {'a': 2}, 'vers': {'a': 2}}},
    {'l': {'data': {'a': 2}, 'vers': {'a': 2}}, 'r': {'data': {'a': 1}, 'vers': {'a': 1}}},
    {'l': {'data': {'a': 1}, 'vers': {'a': 1}}, 'r': {'data': {'a': 2}, 'vers': {'a': 1}}},          # tie keeps left
    {'l': {'data': {'a': {'b': 1, 'c': 1}}, 'vers': {'a.b': 1, 'a.c': 1}}, 'r': {'data': {'a': {'b': 2}}, 'vers': {'a.b': 2, 'a.c': 1}}},
    {'l': {'data': {TE: {'id': 'i'}, 'a': 1}, 'vers': {}}, 'r': {'data': {TE: {'id': 'j'}, 'b': 1}, 'vers': {'b': 1}}},
    {'l': {'data': {'a': 1}, 'vers': {'a': 1}}, 'r': {'data': {}, 'vers': {'a': 9}}},                # version of an absent key
]

CORPUS_HISTORIES = [
    # F7: root publishes a scalar, one branch re-publishes it as a dict, the other only inherits
    [{'name': 't0', 'parents': [], 'pub': {'a': 1}}, {'name': 't1', 'parents': [0], 'pub': {'a': {'x': 2}}},
     {'name': 't2', 'parents': [0], 'pub': {}}, {'name': 't3', 'parents': [1, 2], 'pub': {}}],
    # plain diamond, scalar re-published in one branch
    [{'name': 't0', 'parents': [], 'pub': {'a': 1, 'b': 1}}, {'name': 't1', 'parents': [0], 'pub': {'a': 2}},
     {'name': 't2', 'parents': [0], 'pub': {'b': 5}}, {'name': 't3', 'parents': [1, 2], 'pub': {}}],
    # nested leaves from different branches are both kept
    [{'name': 't0', 'parents': [], 'pub': {'c': {'x': 0, 'y': 0}}}, {'name': 't1', 'parents': [0], 'pub': {'c': {'x': 1}}},
     {'name': 't2', 'parents': [0], 'pub': {'c': {'y': 2}}}, {'name': 't3', 'parents': [1, 2], 'pub': {}}],
    # chain inside a branch, three-way join, join of joins
    [{'name': 't0', 'parents': [], 'pub': {'a': 0}}, {'name': 't1', 'parents': [0], 'pub': {'a': 1}},
     {'name': 't2', 'parents': [1], 'pub': {'a': 2}}, {'name': 't3', 'parents': [0], 'pub': {'b': 1}},
     {'name': 't4', 'parents': [0], 'pub': {}}, {'name': 't5', 'parents': [2, 3, 4], 'pub': {'c': {'x': 1}}},
     {'name': 't6', 'parents': [4, 5], 'pub': {}}],
]


def run(ctx):
    ctx.cov['rule'] = ('seeded generators: JSON values (scalars, lists, dicts to depth 3, dotted/empty keys in the odd stream), '
                       'version maps over leaf/inner/absent paths, causal DAG histories (shape-stable and shape-changing '
                       'publishes) whose contexts are computed by the real functions, every permutation of <= 5 upstream rows, '
                       'publish clauses in YAQL and Jinja; distinct = distinct (suite, input)')
    enabled, hashk, strat = assert_default_conf()
    ctx.cov['config'] = {'context_versioning.enabled': enabled, 'hash_version_keys': hashk, 'merge_strategy': strat}
    if not (enabled and strat == 'replace'):
        ctx.obligation('config:default-context-versioning', False, 'the checked configuration is not the default one: %r' % (ctx.cov['config'],))
    for s in SUITES:
        s(ctx)
    engine_traces(ctx)


def engine_traces(ctx):
    """Real engine, oracle only: fork/join with publishes in YAQL and Jinja under several delivery orders and both
    scheduler types: published variables and output must not depend on the order (C05 / C02)."""
    from harness import engine_explore as ee
    ee.explore(ctx, ['C05', 'C02', 'C01'], ['dataflow'], ctx.n(16, 160), 5, suite='engine_explore_C05')


SUITES = [suite_outbound, suite_merge, suite_upstream, suite_final, suite_view, suite_get_publish, suite_publish,
          suite_output_vars, suite_call_site_views, suite_e2e]


# ---------------------------------------------------------------------------
# oracle-only passes (no model): used by search() and replay()

def oracle_history(ctx, tasks, orders=3, seed=0):
    """latest-publisher visibility for every task of the history, every permutation of its
    parents' rows, under several seeded orders of the ancestors' own joins"""
    import random
    reqs = latest_requirements(tasks)
    for o in range(orders):
        rows = run_history(tasks, random.Random('order/%s/%s' % (seed, o)))
        tab = unhash_table(tasks)
        for i, t in enumerate(tasks):
            if not t['parents'] or len(t['parents']) > 5:
                continue
            ups = rows_of_history(tasks, rows, i, tab)
            mine = [(q, path, x, classify_stale(tasks, i, q, path)) for (ti, q, path, x) in reqs if ti == i]
            check_upstream_perms(ctx, 'search', ups, [], [], {'history': tasks, 'task': i}, mine)


def oracle_get_publish(ctx, t, state, rng):
    wf_spec, text = parse_wf({'type': 'direct', 'tasks': {'t1': task_yaml(t, rng)}}, validate=False)
    ps = wf_spec.get_tasks()['t1'].get_publish(state)
    got_br = set((ps.get_branch() if ps else None) or {})
    got_gl = set((ps.get_global() if ps else None) or {})
    for sig, missing in classify_dropped(t, state, got_br, got_gl).items():
        ctx.fail(sig, 'get_publish(%s) drops the declared variables %s' % (state, sorted(missing)),
                 {'kind': 'get_publish', 'task': t, 'yaml': text, 'state': state, 'missing': sorted(missing)})


def search(ctx):
    """Widened oracle-only search for a failing input (no model involved), bounded (~2 min)."""
    import time
    real_df()
    rng = ctx.rng
    t0 = time.time()
    for n in range(400):
        oracle_history(ctx, gen_history(rng, typechange=rng.random() < 0.4, nmax=7), orders=2, seed=n)
        if time.time() - t0 > 50:
            break
    for n in range(1500):
        oracle_get_publish(ctx, gen_task_publish(rng), rng.choice(['SUCCESS', 'ERROR']), rng)
    stats = {}
    t0 = time.time()
    for n in range(40):
        check_e2e_history(ctx, gen_history(rng, typechange=rng.random() < 0.3, nmax=6), 7000 + n, stats)
        if time.time() - t0 > 50:
            break


def replay(obj):
    """./check C05 --replay <file>: re-run the recorded input on the real code; exit 1 while it still fails"""
    import logging
    logging.disable(logging.CRITICAL)
    r = obj.get('replay') or {}
    kind = r.get('kind')
    ctx = core.Ctx('C05', 'quick', obj.get('seed', 0))
    real_df()
    if kind == 'get_publish':
        print(r['yaml'])
        oracle_get_publish(ctx, untuple_task(r['task']), r['state'], ctx.rng)
    elif kind == 'history':
        print(json.dumps(r['history']))
        oracle_history(ctx, r['history'], orders=4)
    elif kind == 'e2e-history':
        print(r['yaml'])
        for k in range(8):
            check_e2e_history(ctx, r['history'], r['driver_seed'] + k, {})
    elif kind == 'e2e-publish':
        print(r['yaml'])
        check_e2e_publish(ctx, r['name'], untuple_task(r['task']), r['driver_seed'], ctx.rng)
    elif kind == 'publish':
        import yaml
        from mistral.lang import parser as spec_parser
        print(r['yaml'])
        ts = spec_parser.get_workflow_list_spec_from_yaml(r['yaml'], validate=False).get_workflows()[0].get_tasks()['t1']
        t1_yaml = yaml.safe_load(r['yaml'])['wf']['tasks']['t1']
        ic = r['in_context']
        for k in range(r.get('evaluation_on_same_spec', 1)):
            impl = publish_once(ctx, ts, copy.deepcopy(t1_yaml), r['state'], ic, r['env'], r['wf_context'], r['input'], r)
            print('evaluation %d under in_context=%r -> %r' % (k + 1, ic, impl))
            ic = shift_values(r['in_context'])
    else:
        print(json.dumps(obj, indent=1, default=str)[:4000])
        print('(this kind of record is informative: re-run ./check C05 to re-evaluate it)')
        return 1
    sigs = sorted(set(f['signature'] for f in ctx.failures))
    for f in ctx.failures[:3]:
        print('STILL FAILS [%s]: %s' % (f['signature'], f['what']))
    if not ctx.failures:
        print('the recorded input no longer fails (required: %s)' % obj.get('what'))
    return 1 if obj.get('signature') in sigs or (ctx.failures and not obj.get('signature')) else 0


def untuple_task(t):
    """pexpr trees come back from JSON as lists: restore the tuple form used by the generators"""
    def pe(x):
        if isinstance(x, (list, tuple)) and len(x) == 2 and x[0] in ('lit', 'path', 'get', 'list', 'dict'):
            k, v = x
            if k == 'list':
                return ('list', [pe(y) for y in v])
            if k == 'dict':
                return ('dict', {kk: pe(y) for kk, y in v.items()})
            return (k, v)
        return x
    out = {}
    for part in ('publish', 'publish-on-error'):
        out[part] = {k: pe(v) for k, v in (t.get(part) or {}).items()}
    for oc in ('on-complete', 'on-success', 'on-error'):
        out[oc] = None if not t.get(oc) else {pk: (None if pv is None else {k: pe(v) for k, v in pv.items()}) for pk, pv in t[oc].items()}
    return out

