"""C19 - outbound HTTP cannot reach denied networks.

Ties Model/Egress.v to mistral/utils/egress.py:
  in_net      vs ipaddress (`address in network`)
  denote      vs the real resolver on literals (socket.getaddrinfo -> libc)
  validate    vs egress.validate_url on printed URLs (default and operator configs)
  callers     HTTPAction.run / WebhookPublisher.publish never reach the HTTP client on a refusal
Oracle (independent of the model): an URL whose host literal denotes an address
inside a configured denied network (integer range arithmetic), or whose scheme is
not http(s), or whose host is outside a configured allow-list, must be refused.
"""
import ipaddress
import json
import socket

from harness import core
from harness.core import coq_str, coq_list, coq_N, coq_option

GEN = ['EgressCfg']

MANIFEST = {
    'level_text': 'Coq theorems over Model/Egress.v: validate = Allow iff scheme/host/allow-list/every-address clauses '
                  '(all inputs), in_net = inclusive range test, every textual form (1-4 part inet_aton, IPv6, IPv4-mapped) '
                  'of every address denotes it (all 2^32 / 2^128 values, arithmetic proof), default deny list generated '
                  'from config.py covers loopback/link-local/metadata incl. mapped forms; model tied to egress.py by '
                  'differential runs of in_net, literal resolution, validate_url and both callers.',
    'level_note': 'Trusted: urlsplit (host/scheme extraction), libc literal parsing and DNS (resolver is an oracle: '
                  'literal digit parsing is compared with denote by correspondence only), ipaddress; '
                  'DNS rebinding between check and connect is outside the property.',
    'technique': 'Coq proof (arithmetic + case analysis) over hand model; config translator; differential correspondence',
    'design_ref': '6 C19',
}

IMPORTS = ['Model.Egress', 'Gen.EgressCfg']


# ---- generators -----------------------------------------------------------

def interesting_v4(rng):
    pools = [
        lambda: rng.randrange(0x7f000000, 0x80000000),          # loopback
        lambda: rng.randrange(0xa9fe0000, 0xa9ff0000),          # link local
        lambda: 0xa9fea9fe,
        lambda: rng.choice([0x7f000000, 0x7fffffff, 0x7effffff, 0x80000000, 0xa9fdffff, 0xa9ff0000, 0, 0xffffffff]),
        lambda: rng.randrange(0, 1 << 32),
        lambda: rng.randrange(0x0a000000, 0x0b000000),
    ]
    return rng.choice(pools)()


def interesting_v6(rng):
    pools = [
        lambda: 1,
        lambda: (0xfe80 << 112) + rng.randrange(0, 1 << 64),
        lambda: (0xfe80 << 112) + rng.randrange(0, 1 << 118) % (1 << 118),
        lambda: rng.choice([(0xfe7f << 112) | ((1 << 112) - 1), 0xfec0 << 112, 0xfebf << 112 | ((1 << 112) - 1), 0, 2]),
        lambda: rng.randrange(0, 1 << 128),
        lambda: (0xffff << 32) + interesting_v4(rng),
        lambda: (0x2001 << 112) + rng.randrange(0, 1 << 64),
    ]
    return rng.choice(pools)()


def radix(rng, n, allow=('d', 'o', 'x', 'X')):
    r = rng.choice(allow)
    if r == 'd':
        return str(n)
    if r == 'o':
        return '0' + oct(n)[2:] if n else '0'
    if r == 'x':
        return hex(n)
    return '0X' + hex(n)[2:].upper()


def print_v6_groups(rng, groups, tail=None):
    """Print 8 (or 6 + dotted quad) groups with random case and optional :: compression."""
    strs = [('%x' % g) if rng.random() < 0.7 else ('%04X' % g) for g in groups]
    # find zero runs for compression
    runs = []
    i = 0
    while i < len(groups):
        if groups[i] == 0:
            j = i
            while j < len(groups) and groups[j] == 0:
                j += 1
            runs.append((i, j))
            i = j
        else:
            i += 1
    if runs and rng.random() < 0.7:
        i, j = rng.choice(runs)
        left = ':'.join(strs[:i])
        right = ':'.join(strs[j:])
        if tail is not None:
            right = (right + ':' if right else '') + tail
        return left + '::' + right
    body = ':'.join(strs)
    if tail is not None:
        body += ':' + tail
    return body


def make_form(rng, fam, v):
    """Return (coq_host_form, text, in_brackets) for address v."""
    if fam == 4:
        a, b, c, d = v >> 24, (v >> 16) & 255, (v >> 8) & 255, v & 255
        k = rng.choice(['H4', 'H4', 'H3', 'H2', 'H1', 'M4', 'MX'])
        if k == 'H4':
            return ('(H4 %s %s %s %s)' % tuple(map(coq_N, (a, b, c, d))),
                    '.'.join(radix(rng, x) for x in (a, b, c, d)), False, k)
        if k == 'H3':
            return ('(H3 %s %s %s)' % tuple(map(coq_N, (a, b, v & 0xffff))),
                    '.'.join(radix(rng, x) for x in (a, b, v & 0xffff)), False, k)
        if k == 'H2':
            return ('(H2 %s %s)' % tuple(map(coq_N, (a, v & 0xffffff))),
                    '.'.join(radix(rng, x) for x in (a, v & 0xffffff)), False, k)
        if k == 'H1':
            return ('(H1 %s)' % coq_N(v), radix(rng, v), False, k)
        if k == 'M4':
            return ('(H6v4 [0;0;0;0;0;65535]%%N %s %s %s %s)' % tuple(map(coq_N, (a, b, c, d))),
                    print_v6_groups(rng, [0, 0, 0, 0, 0, 0xffff], '%d.%d.%d.%d' % (a, b, c, d)), True, k)
        groups = [0, 0, 0, 0, 0, 0xffff, v >> 16, v & 0xffff]
        return ('(H6 %s)' % coq_list([coq_N(g) for g in groups]), print_v6_groups(rng, groups), True, k)
    groups = [(v >> (16 * (7 - i))) & 0xffff for i in range(8)]
    return ('(H6 %s)' % coq_list([coq_N(g) for g in groups]), print_v6_groups(rng, groups), True, 'H6')


def real_resolve_literal(text):
    """What the real resolver makes of a literal: list of (fam, int) or None on gaierror."""
    try:
        infos = socket.getaddrinfo(text, None)
    except (socket.gaierror, UnicodeError):
        return None
    out = []
    for info in infos:
        a = ipaddress.ip_address(info[4][0].split('%')[0])
        out.append((a.version, int(a)))
    return sorted(set(out))


def coq_addr(fam, v):
    return '(mkAddr %s %s)' % ('V4' if fam == 4 else 'V6', coq_N(v))


def coq_net(n):
    return '(mkNet %s %s %s)' % ('V4' if n.version == 4 else 'V6', coq_N(int(n.network_address)), coq_N(n.prefixlen))


def print_addr_opt(expr):
    return ('match %s with Some a => (match afam a with V4 => "4:" | V6 => "6:" end, aval a) | None => ("none", 0%%N) end' % expr)


# ---- suites ----------------------------------------------------------------

def suite_in_net(ctx):
    rng = ctx.rng
    n = ctx.n(1500, 30000)
    cases = []
    exprs = []
    for _ in range(n):
        fam = rng.choice([4, 4, 6])
        bits = 32 if fam == 4 else 128
        plen = rng.choice([0, 1, 7, 8, 9, 10, 15, 16, 17, 24, 31, 32] + ([33, 64, 96, 118, 127, 128] if fam == 6 else []))
        base = interesting_v4(rng) if fam == 4 else interesting_v6(rng)
        net = ipaddress.ip_network((base, plen), strict=False) if fam == 4 else ipaddress.ip_network(
            (ipaddress.IPv6Address(base).packed, plen), strict=False)
        afam = fam if rng.random() < 0.85 else (10 - fam)
        mode = rng.random()
        if mode < 0.5 and afam == fam:
            # around the network's boundaries
            lo = int(net.network_address)
            hi = int(net.broadcast_address)
            v = rng.choice([lo, hi, max(lo - 1, 0), min(hi + 1, (1 << bits) - 1), rng.randrange(lo, hi + 1)])
        else:
            v = interesting_v4(rng) if afam == 4 else interesting_v6(rng)
        addr = ipaddress.IPv4Address(v) if afam == 4 else ipaddress.IPv6Address(v)
        impl = addr in net
        # the model is given the *unmasked* base half of the time: ip_network(strict=False) masks it
        nb = base if rng.random() < 0.5 else int(net.network_address)
        cases.append((afam, v, fam, nb, plen, impl))
        exprs.append('in_net %s (mkNet %s %s %s)' % (coq_addr(afam, v), 'V4' if fam == 4 else 'V6', coq_N(nb), coq_N(plen)))
    res = core.coq_eval('c19innet', IMPORTS, exprs)
    for c, r in zip(cases, res):
        ctx.count('in_net', c[:5], nontrivial=(c[0] == c[2]))
        ctx.cov['disagreements_checked'] += 1
        if r != core.coq_bool(c[5]):
            ctx.disagree('in_net', {'addr': c[:2], 'net': c[2:5]}, r, c[5])
    ctx.sample({'suite': 'in_net', 'addr': cases[0][:2], 'net': cases[0][2:5], 'impl': cases[0][5]})


def gen_host_cases(ctx, n):
    rng = ctx.rng
    out = []
    for _ in range(n):
        fam = rng.choice([4, 4, 4, 6])
        v = interesting_v4(rng) if fam == 4 else interesting_v6(rng)
        form, text, br, kind = make_form(rng, fam, v)
        out.append({'fam': fam, 'v': v, 'form': form, 'text': text, 'brackets': br, 'kind': kind})
    return out


def suite_denote(ctx):
    """denote(host_form) = what the libc resolver reads from the printed literal."""
    cases = gen_host_cases(ctx, ctx.n(1200, 20000))
    # malformed stream: out-of-range parts must not be addresses
    rng = ctx.rng
    for _ in range(ctx.n(100, 1000)):
        parts = [rng.choice([0, 1, 127, 255, 256, 300, 65535, 65536, 1 << 24, (1 << 32) - 1, 1 << 32]) for _ in range(rng.choice([1, 2, 3, 4]))]
        k = len(parts)
        form = {4: '(H4 %s %s %s %s)', 3: '(H3 %s %s %s)', 2: '(H2 %s %s)', 1: '(H1 %s)'}[k] % tuple(map(coq_N, parts))
        cases.append({'fam': 4, 'v': None, 'form': form, 'text': '.'.join(map(str, parts)), 'brackets': False, 'kind': 'malformed%d' % k})
    # a literal with a trailing dot is not an address for the resolver (and so is unreachable): no form denotes it
    cases.append({'fam': 4, 'v': None, 'form': '(HName "127.0.0.1.")', 'text': '127.0.0.1.', 'brackets': False, 'kind': 'trailing-dot-literal'})
    exprs = [print_addr_opt('denote %s' % c['form']) for c in cases]
    res = core.coq_eval('c19denote', IMPORTS, exprs)
    kinds = {}
    for c, r in zip(cases, res):
        real = real_resolve_literal(c['text'])
        m = core.re.match(r'\("(.*?)",\s*(\d+)\)', r)
        model = None if m.group(1) == 'none' else [(int(m.group(1)[0]), int(m.group(2)))]
        kinds[c['kind']] = kinds.get(c['kind'], 0) + 1
        ctx.count('denote', (c['text'],), nontrivial=True)
        ctx.cov['disagreements_checked'] += 1
        if model != real:
            ctx.disagree('denote', {'text': c['text'], 'form': c['form']}, model, real)
    ctx.cov['suites']['denote']['kinds'] = kinds
    ctx.sample({'suite': 'denote', 'text': cases[0]['text'], 'form': cases[0]['form']})


SCHEMES = ['http', 'https', 'HTTP', 'Https', 'ftp', 'file', 'gopher', '', 'httpx', 'ws']
USERINFO = ['', '', 'user@', 'user:pw@', 'a%40b:c@']
PORTS = ['', '', ':80', ':8080', ':443', ':65535']
PATHS = ['', '/', '/latest/meta-data/', '/a?b=c#d', '?q=1']
NAMES = {
    'example.org': [(4, 0x5db8d822)],
    'internal.corp': [(4, 0x0a000005)],
    'evil-rebind.test': [(4, 0x5db8d822), (4, 0x7f000001)],
    'meta.test': [(4, 0xa9fea9fe)],
    'v6only.test': [(6, (0x2001 << 112) + 5)],
    'v6local.test': [(6, (0xfe80 << 112) + 1), (4, 0x08080808)],
    'mappedname.test': [(6, (0xffff << 32) + 0x7f000001)],
    'nxdomain.test': None,
    'Mixed.Case.Test': [(4, 0x7f000002)],
    'trailing-dot.test.': [(4, 0xa9fea9fe)],
    'localhost.': [(4, 0x7f000001), (6, 1)],
}
CONFIGS = [
    {'denied': None, 'allowed': []},
    {'denied': None, 'allowed': []},
    {'denied': ['127.0.0.0/8', '::1/128', '169.254.0.0/16', 'fe80::/10', '10.0.0.0/8', '172.16.0.0/12', '192.168.0.0/16'], 'allowed': []},
    {'denied': [], 'allowed': []},
    {'denied': None, 'allowed': ['example.org', 'meta.test', '127.0.0.1', 'internal.corp']},
    {'denied': ['10.0.0.5/8', 'not-a-cidr', '2001::/16'], 'allowed': []},
    {'denied': ['0.0.0.0/0'], 'allowed': ['example.org']},
]


class FakeResolver:
    """Literals go to the real libc resolver; names come from the case's table."""

    def __init__(self):
        self.real = socket.getaddrinfo

    def __call__(self, host, port, *a, **kw):
        key = host.lower() if isinstance(host, str) else host
        for n, v in NAMES.items():
            if n.lower() == key:
                if v is None:
                    raise socket.gaierror(-2, 'Name or service not known')
                return [(socket.AF_INET if f == 4 else socket.AF_INET6, socket.SOCK_STREAM, 6, '',
                         (str(ipaddress.IPv4Address(x)) if f == 4 else str(ipaddress.IPv6Address(x)), port or 0))
                        for f, x in v]
        return self.real(host, port, *a, **kw)


def set_conf(cfg_case):
    from oslo_config import cfg
    from mistral import config  # noqa: registers options
    CONF = cfg.CONF
    if cfg_case['denied'] is None:
        CONF.clear_override('denied_cidrs', group='action_std_http')
    else:
        CONF.set_override('denied_cidrs', cfg_case['denied'], group='action_std_http')
    CONF.set_override('allowed_hosts', cfg_case['allowed'], group='action_std_http')
    return list(CONF.action_std_http.denied_cidrs)


def nets_of(cidrs):
    out = []
    for c in cidrs:
        try:
            out.append(ipaddress.ip_network(c, strict=False))
        except ValueError:
            pass
    return out


def int_in_net(fam, v, net):
    """Independent integer-range membership (the property's notion of 'lies in a denied network')."""
    if fam != net.version:
        return False
    bits = 32 if fam == 4 else 128
    size = 1 << (bits - net.prefixlen)
    lo = (int(net.network_address) // size) * size
    return lo <= v < lo + size


def denotes_denied(addrs, nets):
    for fam, v in addrs:
        cands = [(fam, v)]
        if fam == 6 and (v >> 32) == 0xffff:
            cands.append((4, v & 0xffffffff))   # the IPv4-mapped form reaches the IPv4 host
        for f, x in cands:
            if any(int_in_net(f, x, n) for n in nets):
                return True
    return False


def gen_url_cases(ctx, n, configs=None):
    rng = ctx.rng
    cases = []
    for _ in range(n):
        ci = rng.randrange(len(CONFIGS)) if configs is None else rng.choice(configs)
        scheme = rng.choice(SCHEMES) if rng.random() < 0.25 else rng.choice(['http', 'https', 'HTTP'])
        if rng.random() < 0.25:
            name = rng.choice(list(NAMES))
            host_text, hostname, addrs, form, kind = name, name.lower(), NAMES[name], None, 'name'
        else:
            h = gen_host_cases(ctx, 1)[0]
            host_text = '[%s]' % h['text'] if h['brackets'] else h['text']
            hostname = h['text'].lower()
            addrs = [(h['fam'] if h['kind'] not in ('M4', 'MX') else 6,
                      h['v'] if h['kind'] not in ('M4', 'MX') else (0xffff << 32) + h['v'])]
            form, kind = h['form'], h['kind']
        url = '%s://%s%s%s%s' % (scheme, rng.choice(USERINFO), host_text, rng.choice(PORTS), rng.choice(PATHS))
        if scheme == '':
            url = url[3:]  # no scheme at all
        cases.append({'cfg': ci, 'url': url, 'scheme': scheme.lower(), 'hostname': hostname, 'addrs': addrs, 'form': form, 'kind': kind})
    return cases


def run_validate(case):
    from mistral.utils import egress
    from mistral import exceptions as exc
    try:
        egress.validate_url(case['url'])
        return 'Allow'
    except exc.UrlNotAllowedException:
        return 'Deny'
    except Exception as e:  # anything else is not a declared refusal
        return 'Crash:%s' % type(e).__name__


def oracle_case(ctx, case, impl, nets, allowed):
    """The property, stated directly on the case (no model involved)."""
    must_deny = None
    if case['scheme'] not in ('http', 'https'):
        must_deny = 'scheme'
    elif allowed and case['hostname'] not in allowed:
        must_deny = 'allow-list'
    elif case['addrs'] and denotes_denied(case['addrs'], nets):
        must_deny = 'denied-address'
    if must_deny and impl == 'Allow':
        sig = 'allowed:%s:%s' % (must_deny, case['kind'] if must_deny == 'denied-address' else '-')
        ctx.fail(sig, 'validate_url allows %r although %s requires refusal' % (case['url'], must_deny),
                 {'url': case['url'], 'config': CONFIGS[case['cfg']], 'addresses': case['addrs'], 'reason': must_deny})
    if impl.startswith('Crash'):
        ctx.fail('crash:%s' % impl, 'validate_url raises %s on %r' % (impl, case['url']), {'url': case['url'], 'config': CONFIGS[case['cfg']]})


CORPUS = [
    {'cfg': 0, 'url': 'http://[::ffff:127.0.0.1]/', 'scheme': 'http', 'hostname': '::ffff:127.0.0.1',
     'addrs': [(6, (0xffff << 32) + 0x7f000001)], 'form': '(H6v4 [0;0;0;0;0;65535]%N 127%N 0%N 0%N 1%N)', 'kind': 'M4'},
    {'cfg': 0, 'url': 'http://[::ffff:a9fe:a9fe]/latest/meta-data/', 'scheme': 'http', 'hostname': '::ffff:a9fe:a9fe',
     'addrs': [(6, (0xffff << 32) + 0xa9fea9fe)], 'form': '(H6 [0;0;0;0;0;65535;43518;43518]%N)', 'kind': 'MX'},
    {'cfg': 0, 'url': 'http://user:pw@2130706433:8080/', 'scheme': 'http', 'hostname': '2130706433',
     'addrs': [(4, 0x7f000001)], 'form': '(H1 2130706433%N)', 'kind': 'H1'},
    {'cfg': 0, 'url': 'https://0x7f.1/', 'scheme': 'https', 'hostname': '0x7f.1', 'addrs': [(4, 0x7f000001)], 'form': '(H2 127%N 1%N)', 'kind': 'H2'},
    {'cfg': 0, 'url': 'http://0251.0376.0251.0376/', 'scheme': 'http', 'hostname': '0251.0376.0251.0376',
     'addrs': [(4, 0xa9fea9fe)], 'form': '(H4 169%N 254%N 169%N 254%N)', 'kind': 'H4'},
    {'cfg': 0, 'url': 'HTTP://[FE80::1]/', 'scheme': 'http', 'hostname': 'fe80::1', 'addrs': [(6, (0xfe80 << 112) + 1)],
     'form': '(H6 [65152;0;0;0;0;0;0;1]%N)', 'kind': 'H6'},
    {'cfg': 0, 'url': 'http://evil-rebind.test/', 'scheme': 'http', 'hostname': 'evil-rebind.test',
     'addrs': NAMES['evil-rebind.test'], 'form': None, 'kind': 'name'},
    {'cfg': 0, 'url': 'http://mappedname.test/', 'scheme': 'http', 'hostname': 'mappedname.test',
     'addrs': NAMES['mappedname.test'], 'form': None, 'kind': 'name'},
]


def suite_validate(ctx, cases, tag='validate'):
    from unittest import mock
    by_cfg = {}
    for c in cases:
        by_cfg.setdefault(c['cfg'], []).append(c)
    exprs, flat = [], []
    resolver = FakeResolver()
    kinds = {}
    with mock.patch.object(socket, 'getaddrinfo', resolver):
        for ci, cs in by_cfg.items():
            cidrs = set_conf(CONFIGS[ci])
            nets = nets_of(cidrs)
            allowed = CONFIGS[ci]['allowed']
            for c in cs:
                impl = run_validate(c)
                c['impl'] = impl
                oracle_case(ctx, c, impl, nets, allowed)
                denied_expr = 'default_denied' if CONFIGS[ci]['denied'] is None else coq_list([coq_net(n) for n in nets])
                if CONFIGS[ci]['denied'] is None:
                    c['uses_gen_default'] = True
                if c['form'] is not None:
                    res_expr = 'match denote %s with Some a => Some [a] | None => None end' % c['form']
                elif c['addrs'] is None:
                    res_expr = 'None'
                else:
                    res_expr = '(Some %s)' % coq_list([coq_addr(f, v) for f, v in c['addrs']])
                exprs.append('verdict_name (validate %s %s %s %s (%s))' % (
                    denied_expr, coq_list([coq_str(a) for a in allowed]), coq_str(c['scheme']),
                    coq_str(c['hostname']), res_expr))
                flat.append(c)
                kinds[c['kind']] = kinds.get(c['kind'], 0) + 1
        set_conf(CONFIGS[0])
    res = core.coq_eval('c19' + tag, IMPORTS, exprs)
    verdicts = {}
    for c, r in zip(flat, res):
        model = core.unquote(r)
        model2 = 'Allow' if model == 'Allow' else 'Deny'
        verdicts[model] = verdicts.get(model, 0) + 1
        ctx.count(tag, (c['cfg'], c['url']), nontrivial=True)
        ctx.cov['disagreements_checked'] += 1
        if model2 != c['impl']:
            ctx.disagree(tag, {'url': c['url'], 'config': CONFIGS[c['cfg']], 'addrs': c['addrs']}, model, c['impl'])
    ctx.cov['suites'][tag]['host_kinds'] = kinds
    ctx.cov['suites'][tag]['model_verdicts'] = verdicts
    if flat:
        ctx.sample({'suite': tag, 'url': flat[-1]['url'], 'config': CONFIGS[flat[-1]['cfg']], 'impl': flat[-1]['impl']})


def suite_callers(ctx):
    """On a refusal neither caller reaches the HTTP client; on Allow it does."""
    from unittest import mock
    import requests
    from mistral.db.v2 import api as _db_api  # noqa: import order (circular import otherwise)
    from mistral.actions import std_actions
    from mistral.notifiers.publishers import webhook
    from mistral import exceptions as exc
    cases = CORPUS + gen_url_cases(ctx, ctx.n(60, 600), configs=[0, 2, 4])
    resolver = FakeResolver()
    with mock.patch.object(socket, 'getaddrinfo', resolver):
        for c in cases:
            set_conf(CONFIGS[c['cfg']])
            verdict = run_validate(c)
            for who in ('http_action', 'webhook'):
                calls = []

                def rec(*a, **kw):
                    calls.append((a, kw))
                    r = mock.Mock()
                    r.status_code = 200
                    r.headers = {}
                    r.content = b''
                    r.text = ''
                    r.encoding = 'utf-8'
                    r.cookies = {}
                    r.elapsed.total_seconds.return_value = 0
                    return r
                refused = False
                try:
                    with mock.patch.object(requests, 'request', rec), mock.patch.object(requests, 'post', rec):
                        if who == 'http_action':
                            std_actions.HTTPAction(url=c['url']).run(mock.Mock())
                        else:
                            webhook.WebhookPublisher().publish(None, 'ex', {}, 'EV', 't', url=c['url'])
                except exc.UrlNotAllowedException:
                    refused = True
                except Exception:
                    pass
                ctx.count('callers', (who, c['cfg'], c['url']))
                ctx.cov['disagreements_checked'] += 1
                if verdict == 'Deny' and (calls or not refused):
                    ctx.fail('caller-reaches-client:%s' % who,
                             '%s contacts the HTTP client for refused URL %r' % (who, c['url']),
                             {'url': c['url'], 'config': CONFIGS[c['cfg']], 'caller': who})
                if verdict == 'Allow' and (refused or not calls):
                    ctx.disagree('callers', {'url': c['url'], 'caller': who}, 'client invoked', 'refused=%s calls=%d' % (refused, len(calls)))
        set_conf(CONFIGS[0])


def run(ctx):
    ctx.cov['rule'] = ('seeded generators over address pools (loopback, link-local, metadata, boundaries, random), '
                       'host forms (1-4 part inet_aton in dec/oct/hex, trailing dot, IPv6 full/compressed/mixed case, '
                       'IPv4-mapped dotted and hex), names from a resolver table, schemes/userinfo/ports/paths, '
                       '7 configs; distinct = distinct (suite, input); in_net non-trivial = same family')
    suite_in_net(ctx)
    suite_denote(ctx)
    suite_validate(ctx, list(CORPUS), tag='validate_corpus')
    suite_validate(ctx, gen_url_cases(ctx, ctx.n(1500, 30000)))
    suite_callers(ctx)
    ctx.assumptions += ['urlsplit extracts scheme/hostname as the generator intends (checked by the validate suite end to end)',
                        'names resolve per the case table; literals resolve through the real libc']


def search(ctx):
    """Widened oracle-only search for a failing input (no model involved)."""
    from unittest import mock
    cases = gen_url_cases(ctx, 20000)
    resolver = FakeResolver()
    with mock.patch.object(socket, 'getaddrinfo', resolver):
        by = {}
        for c in cases:
            by.setdefault(c['cfg'], []).append(c)
        for ci, cs in by.items():
            nets = nets_of(set_conf(CONFIGS[ci]))
            for c in cs:
                oracle_case(ctx, c, run_validate(c), nets, CONFIGS[ci]['allowed'])
        set_conf(CONFIGS[0])


def replay(obj):
    from unittest import mock
    r = obj.get('replay', {})
    if 'url' not in r:
        print(json.dumps(obj, indent=1)[:3000])
        return 1
    cfgc = r.get('config', CONFIGS[0])
    with mock.patch.object(socket, 'getaddrinfo', FakeResolver()):
        set_conf(cfgc)
        v = run_validate({'url': r['url']})
    print('validate_url(%r) under %r -> %s (property requires refusal: %s)' % (r['url'], cfgc, v, r.get('reason')))
    return 1 if v != 'Deny' else 0
