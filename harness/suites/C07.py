"""C07 - with-items runs each item once, within the concurrency limit, results in order.

Component level.  Ties Model/Items.v to the real code by driving, on fake task / workflow /
action-execution objects (no database), over seeded event sequences:

  mistral.engine.tasks.WithItemsTask      run() -> _run_new / _run_existing, _before_task_start, _reset_actions,
                                          _schedule_actions, _get_with_items_values, _get_input_dicts,
                                          _get_action_input, _prepare_runtime_context, _get_next_indexes,
                                          _decrease_capacity, on_action_complete, _increase_capacity,
                                          is_with_items_completed, _get_final_state, _has_more_iterations,
                                          invalidate_result, cleanup_runtime_context
  mistral.engine.policies                 build_policies / ConcurrencyPolicy.before_task_start (literal and YAQL value)
  mistral.engine.actions.RegularAction    schedule (-> _prepare_runtime_context, _create_action_execution), complete
  mistral.workflow.data_flow              get_task_execution_result
  mistral.lang.parser                     the task / workflow specs are the real parsed specs

Replaced (environment only): Task.complete (state change + workflow continuation -> state change only, same
"ignored when already completed" rule), Task.set_state (DB compare-and-swap -> assignment),
Task._update_inbound_context, RegularTask._build_action's action descriptor, db_api.named_lock / refresh /
create_action_execution, post_tx_queue.register_operation.  The engine-level guards (Start once, retry only after
SUCCESS/ERROR, continue only from RUNNING_DELAYED, rerun only from ERROR + cleanup_runtime_context as
Workflow.rerun does) are applied by the driver and by Model/Items.v `step` alike.

After every event the model's `view` (task state, concurrency, capacity, count, every execution's
index/state/accepted/output, pending jobs, _get_next_indexes, is_with_items_completed, _get_final_state,
_has_more_iterations, get_task_execution_result) is compared with the implementation's (hash per event inside
coqc; on a difference both full views are reported).

Oracle (no model): the property text on the observed children after every event - RUNNING children <=
concurrency; every index < n; within one run/re-run round an index is started at most once and only if it has
to be (all items on first run, retry and reset; only failed items on a partial rerun); SUCCESS/ERROR only when
every item has exactly one accepted execution and nothing is RUNNING; CANCELLED only with a cancelled item;
ERROR iff an accepted item failed; result = item results in index order; empty list -> SUCCESS at once; a drained
trace is never left incomplete.

Two model variants: Model/Items.v mirrors the source as it is (legacy _get_next_indexes); Model/ItemsFixed.v mirrors the
proposed fix (fixed_get_next_indexes below).  detect_variant() probes which of the two the source implements and
the main correspondence uses that one; while the source is legacy, suite `fixed_variant` additionally swaps the fixed
function into the real class at run time and checks it against Model/ItemsFixed.v and the oracle.

Findings on the unchanged tree (both reproduced end to end through the real engine, see the final report):
  F4  partial-rerun:succeeded-item-reexecuted     rerun(reset=False) of items [ERR, OK, OK] starts 0, 1 and 2 again
  F7  redo-under-concurrency:index-started-twice  retry/rerun with more items to redo than `concurrency`: an index
                                                  that is still RUNNING is started again and a later one never

Self-test mutations of /repo (scratch worktree /tmp/wt_C07, `VERIF_REPO=/tmp/wt_C07 ./check C07`; each run printed,
besides the two findings above, a NEW VIOLATION line with the signature shown / a broken obligation):
  M1 tasks.py _schedule_actions: `self._decrease_capacity(1)` dedented out of the for loop (once per batch)
       -> running-exceeds-concurrency  [Start 4 2; Accept 0; Handle 0]: 3 RUNNING with concurrency 2 (+1388 disagreements)
  M2 tasks.py is_with_items_completed: `return count == len(execs)` (drops `and full_capacity`)
       -> 1826 disagreements + fresh:index-started-twice (an item restarted by a late Handle during the retry delay)
  M3 tasks.py _get_final_state: ERROR tested before CANCELLED
       -> wrong-final-state  [Start 2 2; Accept 1 E; Accept 0 C; Handle 1]: task ERROR although an item was cancelled
  M4 data_flow.py get_task_execution_result: the `execs.sort(key=index)` line removed
       -> result-not-in-item-order  (needs a rerun: result [101, 103, 104], required [103, 101, 104])
  M5 tasks.py _get_next_start_index: `states.is_running(x.state) or` dropped
       -> fresh:index-started-twice  [Start 3 2; Accept 0; Handle 0]
  M6 tasks.py on_action_complete: the `with db_api.named_lock(...)` block removed (body dedented)
       -> obligation theorem:C07_handle_atomic broken (Gen/ItemsLock.v: handle_under_named_lock = false)
  M7 tasks.py _has_more_iterations: `>` -> `>=`
       -> completed-with-running-children, wrong-final-state (task SUCCESS as soon as every item is started)
  Equivalent mutant (not detectable, and provably so): _increase_capacity `<` -> `<=`: by C07_capacity_exact the
  capacity is below the concurrency whenever a completion is pending, so the guard never decides anything.
"""
import contextlib
import copy
import json
import time

from harness import core

GEN = ['ItemsLock']

MANIFEST = {
    'level_text': 'Coq theorems over Model/Items.v (state machine Start/Accept/Handle/RetryInvalidate/Continue/Rerun), '
                  'for ALL event lists, item counts and concurrency values: RUNNING children <= concurrency (capacity '
                  'invariant), every index < count; for all event lists without retry/rerun: each index started exactly '
                  'once in order, completion only when every item is accepted and handled, verdict CANCELLED > ERROR > '
                  'SUCCESS, no stuck state, empty list succeeds at once; result = accepted results in index order, '
                  'independent of the order of the executions; partial rerun characterised exactly, its only-failed '
                  'property and index-once under retry/rerun with concurrency REFUTED with witnesses (F4, F7); for the '
                  'proposed fix (Model/ItemsFixed.v) index-once, coverage of all items at completion, only-failed partial '
                  'rerun, retry restarts all and result order are proved for ALL event lists. Model tied '
                  'to the code by differential runs of the real WithItemsTask / ConcurrencyPolicy / RegularAction / '
                  'get_task_execution_result methods on fake objects after every event of seeded event sequences.',
    'level_note': 'Component level: one event = one transaction (named_lock + refresh + keyed job checked by the '
                  'ItemsLock translator, not the DB isolation itself); Task.complete/set_state, action descriptors and '
                  'the DB layer are replaced by fakes; IDLE/PAUSED children (sub-workflow items), exceptions out of '
                  'action.schedule, changing with-items lists and keep-result:false are not modelled; whole-engine '
                  'traces are a separate harness (engine_traces hook).',
    'technique': 'Coq proof (invariants by induction over event lists) over hand model; lock-structure translator; '
                 'differential correspondence on real methods; property oracle on observed children',
    'design_ref': '6 C07',
}

IMPORTS = ['Model.Items', 'Model.ItemsFixed']
P = 2305843009213693951

TST = {'IDLE': 0, 'RUNNING': 1, 'RUNNING_DELAYED': 2, 'SUCCESS': 3, 'ERROR': 4, 'CANCELLED': 5}
EST = {'RUNNING': 0, 'SUCCESS': 1, 'ERROR': 2, 'CANCELLED': 3}
OUTC = {'S': 'OSuccess', 'E': 'OError', 'C': 'OCancel'}

WF_TEXT = {
    'absent': {'with-items': 'i in <% $.xs %>', 'action': 'std.echo output=<% $.i %>'},
    'literal': {'with-items': 'i in <% $.xs %>', 'action': 'std.echo output=<% $.i %>', 'concurrency': None},
    'yaql': {'with-items': 'i in <% $.xs %>', 'action': 'std.echo output=<% $.i %>', 'concurrency': '<% $.c %>'},
}


# ---------------------------------------------------------------------------
# the implementation driver: real methods on fake objects

class FakeEx(object):
    """Stands for an ActionExecution row."""

    def __init__(self, values, task_ex):
        self.id = values['id']
        self.name = values['name']
        self.state = values['state']
        self.input = values['input']
        self.runtime_context = values['runtime_context']
        self.accepted = False
        self.output = None
        self.task_execution = task_ex
        self.task_execution_id = task_ex.id


class FakeWfEx(object):
    def __init__(self, inp):
        self.id = 'wf-1'
        self.name = 'wf'
        self.root_execution_id = None
        self.params = {'env': {}, 'namespace': ''}
        self.context = {}
        self.input = inp
        self.state = 'RUNNING'
        self.workflow_namespace = ''
        self.runtime_context = {}


class FakeTaskEx(object):
    def __init__(self, wf_ex, spec):
        self.id = 'task-1'
        self.name = 't'
        self.executions = []
        self.runtime_context = {}
        self.state = 'IDLE'
        self.state_info = None
        self.spec = spec
        self.in_context = {}
        self.workflow_execution = wf_ex
        self.workflow_execution_id = wf_ex.id
        self.workflow_name = 'wf'
        self.workflow_namespace = ''
        self.workflow_id = 'wfdef-1'
        self.project_id = 'p'
        self.processed = False

    @property
    def action_executions(self):
        return self.executions


class FakeAction(object):
    def is_sync(self):
        return True


class FakeDesc(object):
    name = 'std.echo'
    namespace = ''

    def check_parameters(self, params):
        pass

    def instantiate(self, params, wf_ctx):
        return FakeAction()

    def post_process_result(self, result):
        return result


_mods = {}


def mods():
    """Import mistral lazily (db api first: circular import otherwise)."""
    if not _mods:
        from mistral.db.v2 import api as db_api  # noqa
        from mistral.engine import tasks, actions, policies
        from mistral.workflow import data_flow, states
        from mistral.lang import parser as spec_parser
        from mistral_lib import actions as ml_actions

        class Task(tasks.WithItemsTask):
            """WithItemsTask with the environment-facing operations replaced (see module docstring)."""

            def complete(self, state, state_info=None, skip=False):
                if self.is_completed() and not states.is_skipped(state):
                    return
                self.task_ex.state = state
                self.task_ex.state_info = state_info

            def set_state(self, state, state_info, processed=None, first_run=False):
                self.task_ex.state = state
                self.task_ex.state_info = state_info
                return True

            def _update_inbound_context(self):
                pass

            def _build_action(self):
                return actions.RegularAction(action_desc=FakeDesc(), task_ex=self.task_ex, task_ctx=self.ctx)

        class PatchedTask(Task):
            _get_next_indexes = fixed_get_next_indexes

        _mods.update(PatchedTask=PatchedTask, tasks=tasks, actions=actions, policies=policies, data_flow=data_flow, states=states,
                     spec_parser=spec_parser, Result=ml_actions.Result, Task=Task)
    return _mods


@contextlib.contextmanager
def patched(task_ex_ref):
    from unittest import mock
    m = mods()
    counter = [0]

    def create_action_execution(values):
        counter[0] += 1
        return FakeEx(values, task_ex_ref[0])
    with mock.patch.object(m['tasks'].db_api, 'named_lock', lambda *a, **k: contextlib.nullcontext()), \
            mock.patch.object(m['tasks'].db_api, 'refresh', lambda *a, **k: None), \
            mock.patch.object(m['actions'].db_api, 'create_action_execution', create_action_execution), \
            mock.patch.object(m['actions'].post_tx_queue, 'register_operation', lambda *a, **k: None):
        yield


def fixed_get_next_indexes(self):
    """The proposed replacement of WithItemsTask._get_next_indexes (fix of F4 / F7); see Model/ItemsFixed.v."""
    from mistral.workflow import states
    capacity = self._get_with_items_capacity()
    count = self._get_with_items_count()
    occupied = set(
        ex.runtime_context['index'] for ex in self.task_ex.executions
        if ex.accepted or not states.is_completed(ex.state)
    )
    indices = [i for i in range(count) if i not in occupied]
    return indices[:capacity]


class Impl(object):
    """One with-items task driven through the real methods.  variant='patched' replaces _get_next_indexes
    by fixed_get_next_indexes (only used to validate the proposed patch against Model/ItemsFixed.v)."""

    def __init__(self, mode='literal', variant='source'):
        self.mode = mode
        self.variant = variant
        self.m = mods()
        self.task_ex = None
        self.created = []     # executions in creation order (position = id)
        self.jobs = []        # pending on_action_complete jobs (ids)
        self.n = None
        self.c = None
        self.ref = [None]
        self.cm = patched(self.ref)
        self.cm.__enter__()
        self.wf_ex = FakeWfEx({'xs': [], 'c': 0})
        self._mk_specs(0)
        self.task_ex = FakeTaskEx(self.wf_ex, self.task_spec.to_dict())
        self.ref[0] = self.task_ex

    def close(self):
        self.cm.__exit__(None, None, None)

    def _mk_specs(self, c):
        sp = self.m['spec_parser']
        t = dict(WF_TEXT[self.mode])
        if self.mode == 'literal':
            if c == 0:
                del t['concurrency']      # `concurrency: 0` and no key build no policy alike; keep one of them literal
                if self.zero_literal:
                    t['concurrency'] = 0
            else:
                t['concurrency'] = c
        wf = {'version': '2.0', 'name': 'wf', 'input': ['xs', 'c'], 'tasks': {'t': t}}
        self.wf_spec = sp.get_workflow_spec(wf)
        self.task_spec = self.wf_spec.get_tasks()['t']

    zero_literal = False

    def task(self, rerun=False, reset=False):
        cls = self.m['Task'] if self.variant == 'source' else self.m['PatchedTask']
        t = cls(self.wf_ex, self.wf_spec, self.task_spec, {}, task_ex=self.task_ex, rerun=rerun)
        if reset:
            t.reset()
        return t

    def _sync(self):
        for ex in self.task_ex.executions:
            if not any(ex is e for e in self.created):
                self.created.append(ex)

    # -- events ------------------------------------------------------------
    def apply(self, ev):
        k = ev[0]
        te = self.task_ex
        if k == 'Start':
            if te.state != 'IDLE':
                return
            _, n, c = ev
            self.n, self.c = n, c
            self.wf_ex.input = {'xs': list(range(n)), 'c': c}
            if self.mode == 'absent':
                assert c == 0
            self._mk_specs(c)
            te.spec = self.task_spec.to_dict()
            self.task().run(first_run=True)
        elif k == 'Accept':
            _, i, o, v = ev
            if not (0 <= i < len(self.created)):
                return
            ex = self.created[i]
            a = self.m['actions'].RegularAction(action_desc=FakeDesc(), action_ex=ex)
            R = self.m['Result']
            res = R(data=v) if o == 'S' else (R(error=v) if o == 'E' else R(error=v, cancel=True))
            try:
                a.complete(res)
            except ValueError:
                return            # "Action ... is already completed": the engine does not get further
            self.jobs.append(i)   # task_handler.schedule_on_action_complete: with-items -> always a job
        elif k == 'Handle':
            _, i = ev
            if i not in self.jobs:
                return
            self.jobs.remove(i)
            self.task().on_action_complete(self.created[i])
        elif k == 'RetryInvalidate':
            # RetryPolicy.after_task_complete: completed, not cancelled -> invalidate_result, RUNNING_DELAYED
            if te.state not in ('SUCCESS', 'ERROR'):
                return
            t = self.task()
            t.invalidate_result()
            t.set_state('RUNNING_DELAYED', None)
        elif k == 'Continue':
            # task_handler.continue_task: set_state(RUNNING); task.run()
            if te.state != 'RUNNING_DELAYED':
                return
            t = self.task()
            t.set_state('RUNNING', None)
            t.run()
        elif k == 'Rerun':
            # api: only ERROR tasks; Workflow.rerun: cleanup_runtime_context; RunExistingTask(reset, rerun=True)
            if te.state != 'ERROR':
                return
            self.task().cleanup_runtime_context()
            self.task(rerun=True, reset=ev[1]).run()
        else:
            raise ValueError(ev)
        self._sync()

    # -- observation ---------------------------------------------------------
    def result(self):
        te = copy.copy(self.task_ex)
        te.executions = list(self.created)
        return self.m['data_flow'].get_task_execution_result(te)

    def view(self):
        te = self.task_ex
        t = self.task()
        rc = te.runtime_context
        conc = rc.get('concurrency')
        capv = t._get_with_items_capacity()
        v = [TST[te.state], -1 if conc is None else conc, 1 if rc.get('with_items') else 0,
             -1 if capv is None else capv, t._get_with_items_count()]
        flat = []
        for ex in self.created:
            flat += [ex.runtime_context['index'], EST[ex.state], 1 if ex.accepted else 0,
                     0 if not ex.output else ex.output['result']]
        v += [len(flat)] + flat
        v += [len(self.jobs)] + list(self.jobs)
        nxt = t._get_next_indexes()
        v += [len(nxt)] + list(nxt)
        v += [1 if t.is_with_items_completed() else 0, TST[t._get_final_state()], 1 if t._has_more_iterations() else 0]
        res = self.result()
        v += [len(res)] + list(res)
        return v

    def children(self):
        return [(ex.runtime_context['index'], ex.state, bool(ex.accepted),
                 None if not ex.output else ex.output['result']) for ex in self.created]


def vhash(view):
    h = 17
    for x in view:
        h = (h * 1000003 + x + 7) & P
    return h


def coq_event(ev):
    k = ev[0]
    if k == 'Start':
        return '(Start %d %d)' % (ev[1], ev[2])
    if k == 'Accept':
        return '(Accept %d %s (%d)%%Z)' % (ev[1], OUTC[ev[2]], ev[3])
    if k == 'Handle':
        return '(Handle %d)' % ev[1]
    if k == 'Rerun':
        return '(Rerun %s)' % core.coq_bool(ev[1])
    return k


# ---------------------------------------------------------------------------
# the property oracle (observations only; no model, no capacity bookkeeping of the code)

class Oracle(object):
    def __init__(self):
        self.n = None
        self.c = 0
        self.round_kind = None
        self.must = set()          # indexes that have to be (re)started in the current round
        self.started = {}          # index -> number of starts in this round
        self.seen = 0              # number of children already examined
        self.failure = None
        self.prev_state = 'IDLE'

    def fail(self, sig, what):
        if self.failure is None:
            self.failure = (sig, what)

    def observe(self, ev, state, children, jobs, result):
        if self.failure:
            return
        k = ev[0]
        started_now = (k == 'Start' and self.prev_state == 'IDLE')
        if started_now:
            self.n, self.c = ev[1], ev[2]
            self.round_kind, self.must, self.started = 'fresh', set(range(self.n)), {}
        elif k == 'Continue' and self.prev_state == 'RUNNING_DELAYED':
            self.round_kind, self.must, self.started = 'retry', set(range(self.n)), {}
        elif k == 'Rerun' and self.prev_state == 'ERROR':
            if ev[1]:
                self.round_kind, self.must = 'reset', set(range(self.n))
            else:
                # the failed items: those whose counted (accepted) execution before the rerun was ERROR/CANCELLED;
                # after the rerun their flag is cleared, so identify them as completed failed executions that are
                # not accepted any more and have no accepted sibling
                ok = set(i for (i, s, a, _) in children[:self.seen] if a and s == 'SUCCESS')
                self.round_kind, self.must = 'partial', set(range(self.n)) - ok
            self.started = {}
        if self.n is None:
            self.prev_state = state
            return
        # newly created children
        for (i, s, a, _) in children[self.seen:]:
            if not (0 <= i < self.n):
                self.fail('index-out-of-range', 'execution created for index %d of %d items' % (i, self.n))
            if i not in self.must:
                self.fail('partial-rerun:succeeded-item-reexecuted' if self.round_kind == 'partial' else
                          '%s:unexpected-index-started' % self.round_kind,
                          'index %d is started again although its item had succeeded (to redo: %s)' % (i, sorted(self.must)))
            self.started[i] = self.started.get(i, 0) + 1
            if self.started[i] > 1:
                if self.round_kind == 'fresh':
                    sig = 'fresh:index-started-twice'
                elif self.c:
                    sig = 'redo-under-concurrency:index-started-twice'
                else:
                    sig = '%s:index-started-twice' % self.round_kind
                self.fail(sig, 'index %d is started %d times in one %s round' % (i, self.started[i], self.round_kind))
        self.seen = len(children)
        running = [i for (i, s, a, _) in children if s == 'RUNNING']
        if self.c and len(running) > self.c:
            self.fail('running-exceeds-concurrency', '%d children RUNNING with concurrency %d' % (len(running), self.c))
        acc = [(i, s, r) for (i, s, a, r) in children if a]
        if state in ('SUCCESS', 'ERROR') and self.prev_state not in ('SUCCESS', 'ERROR'):
            if running:
                self.fail('completed-with-running-children', 'task %s while indexes %s are RUNNING' % (state, running))
            per = {}
            for (i, s, r) in acc:
                per.setdefault(i, []).append((s, r))
            missing = [i for i in range(self.n) if i not in per]
            if missing:
                self.fail('completed-with-item-not-executed', 'task %s but items %s have no counted execution' % (state, missing))
            if any(len(v) > 1 for v in per.values()):
                self.fail('completed-with-item-counted-twice', 'task %s, counted executions per index %s' % (
                    state, {i: len(v) for i, v in per.items()}))
            if any(s == 'CANCELLED' for (_, s, _) in acc):
                self.fail('wrong-final-state', 'task %s although an item was cancelled' % state)
            want = 'ERROR' if any(s == 'ERROR' for (_, s, _) in acc) else 'SUCCESS'
            if state != want:
                self.fail('wrong-final-state', 'task %s, required %s (item states %s)' % (state, want, [s for (_, s, _) in acc]))
            if not self.failure:
                want_res = [per[i][0][1] for i in range(self.n)]
                if result != want_res:
                    self.fail('result-not-in-item-order', 'result %s, required %s' % (result, want_res))
        if state == 'CANCELLED' and self.prev_state != 'CANCELLED':
            if not any(s == 'CANCELLED' for (_, s, _) in acc):
                self.fail('wrong-final-state', 'task CANCELLED without a cancelled item')
        if started_now and self.n == 0 and (state != 'SUCCESS' or result != []):
            self.fail('empty-list-not-success', 'empty with-items list: state %s result %s' % (state, result))
        if state in ('SUCCESS', 'ERROR', 'CANCELLED') and not self.failure:
            # the result stays the ordered list of counted results
            srt = sorted(acc, key=lambda x: x[0])
            if [i for (i, _, _) in srt] == list(range(len(srt))) and result != [r for (_, _, r) in srt]:
                self.fail('result-not-in-item-order', 'result %s, counted executions %s' % (result, srt))
        self.prev_state = state

    def drained(self, state, children, jobs):
        if self.failure or self.n is None:
            return
        if state in ('RUNNING',) and not jobs and not any(s == 'RUNNING' for (_, s, _, _) in children):
            self.fail('stuck', 'all children completed and handled but the task stays %s' % state)


# ---------------------------------------------------------------------------
# generators

def choose_nc(rng):
    n = rng.choice([0, 1, 1, 2, 2, 3, 3, 3, 4, 4, 5, 6, 7, 8])
    c = rng.choice([0, 0] + list(range(1, n + 2)) + [1, 2])
    return n, c


def gen_trace(rng, malformed=False, max_events=90, variant='source'):
    """Generate one event sequence while executing it on the implementation.
    Returns dict(events, views, mode, n, c, oracle failure, stats)."""
    n, c = choose_nc(rng)
    mode = 'absent' if c == 0 and rng.random() < 0.5 else rng.choice(['literal', 'yaql'])
    impl = Impl(mode, variant)
    impl.zero_literal = rng.random() < 0.5
    orc = Oracle()
    style = rng.choice(['random', 'random', 'fifo', 'accept-first', 'lifo'])
    p_err = rng.choice([0.0, 0.15, 0.4, 0.8])
    p_cancel = rng.choice([0.0, 0.0, 0.05, 0.2])
    redo_budget = rng.choice([0, 1, 1, 2, 3])
    events, views = [], []
    val = [0]

    def do(ev):
        impl.apply(ev)
        events.append(ev)
        views.append(impl.view())
        orc.observe(ev, impl.task_ex.state, impl.children(), list(impl.jobs), impl.result())
    try:
        if malformed and rng.random() < 0.3:
            pass    # start later (or never)
        else:
            do(('Start', n, c))
        while len(events) < max_events:
            st = impl.task_ex.state
            running = [i for i, ex in enumerate(impl.created) if ex.state == 'RUNNING']
            jobs = list(impl.jobs)
            if malformed and rng.random() < 0.35:
                # an event that need not be enabled, ids possibly stale or out of range
                r = rng.random()
                hi = len(impl.created) + 2
                if r < 0.3:
                    val[0] += 1
                    do(('Accept', rng.randrange(0, hi), rng.choice('SSEC'), val[0]))
                elif r < 0.55:
                    do(('Handle', rng.randrange(0, hi)))
                elif r < 0.65:
                    do(('Start', rng.choice([0, 1, 2, 3]), rng.choice([0, 1, 2])) if mode != 'absent' else ('Start', 2, 0))
                elif r < 0.77:
                    do(('RetryInvalidate',))
                elif r < 0.89:
                    do(('Continue',))
                else:
                    do(('Rerun', rng.random() < 0.5))
                continue
            if st == 'IDLE':
                do(('Start', n, c))
                continue
            if st == 'RUNNING_DELAYED':
                if running and rng.random() < 0.5:
                    pass
                elif jobs and rng.random() < 0.5:
                    pass
                else:
                    do(('Continue',))
                    continue
            opts = []
            if running:
                opts.append('A')
            if jobs:
                opts.append('H')
            if not opts:
                if st in ('SUCCESS', 'ERROR') and redo_budget > 0:
                    redo_budget -= 1
                    if st == 'ERROR' and rng.random() < 0.7:
                        do(('Rerun', rng.random() < 0.4))
                    else:
                        do(('RetryInvalidate',))
                    continue
                break
            if style == 'fifo':
                pick = 'H' if jobs else 'A'
            elif style == 'accept-first':
                pick = 'A' if running else 'H'
            else:
                pick = rng.choice(opts)
            if pick == 'A':
                i = running[0] if style == 'fifo' else (running[-1] if style == 'lifo' else rng.choice(running))
                r = rng.random()
                o = 'C' if r < p_cancel else ('E' if r < p_cancel + p_err else 'S')
                val[0] += 1
                do(('Accept', i, o, val[0]))
            else:
                i = jobs[0] if style == 'fifo' else (jobs[-1] if style == 'lifo' else rng.choice(jobs))
                do(('Handle', i))
        if not malformed:
            orc.drained(impl.task_ex.state, impl.children(), list(impl.jobs))
    finally:
        impl.close()
    return {'events': events, 'views': views, 'mode': mode, 'zero_literal': impl.zero_literal, 'n': n, 'c': c,
            'failure': orc.failure, 'style': style, 'malformed': malformed,
            'final': impl.task_ex.state if impl.task_ex else None}


def _gen_batch(args):
    seed, count, malformed, variant = args
    import random
    rng = random.Random(seed)
    return [gen_trace(rng, malformed=malformed, variant=variant) for _ in range(count)]


def gen_traces(ctx, count, malformed, batch=100, variant='source'):
    """count traces, generated in parallel worker processes; batch seeds are drawn from ctx.rng, so the
    result depends on VERIF_SEED only (not on the number of workers)."""
    import multiprocessing
    jobs = []
    left = count
    while left > 0:
        k = min(batch, left)
        jobs.append((ctx.rng.getrandbits(64), k, malformed, variant))
        left -= k
    if len(jobs) <= 1:
        return [t for j in jobs for t in _gen_batch(j)]
    mp = multiprocessing.get_context('fork')
    with mp.Pool(min(core.NPROC, 12)) as pool:
        parts = pool.map(_gen_batch, jobs)
    return [t for part in parts for t in part]


def run_events(events, mode='literal', zero_literal=False, variant='source'):
    """Re-execute a given event list on the implementation (corpus, replay)."""
    impl = Impl(mode, variant)
    impl.zero_literal = zero_literal
    orc = Oracle()
    views, obs = [], []
    try:
        for ev in events:
            ev = tuple(ev)
            impl.apply(ev)
            views.append(impl.view())
            orc.observe(ev, impl.task_ex.state, impl.children(), list(impl.jobs), impl.result())
            obs.append({'event': list(ev), 'task': impl.task_ex.state, 'children': impl.children(), 'result': impl.result()})
        orc.drained(impl.task_ex.state, impl.children(), list(impl.jobs))
    finally:
        impl.close()
    return views, orc.failure, obs


def A(i, o='S', v=None):
    return ('Accept', i, o, 100 + i if v is None else v)


def H(i):
    return ('Handle', i)


# minimised interesting cases, run first
CORPUS = [
    # F4: items [ERR, OK, OK], partial rerun starts 0,1,2; task SUCCESS while 1,2 RUNNING; result has 5 entries
    {'name': 'F4-partial-rerun', 'mode': 'absent', 'events': [
        ('Start', 3, 0), A(0, 'E'), A(1), A(2), H(0), H(1), H(2), ('Rerun', False), A(3), H(3), A(4), A(5), H(4), H(5)]},
    # F7: all three failed, retry with concurrency 2: index 1 started twice, index 2 never, task SUCCESS
    {'name': 'F7-retry-concurrency', 'mode': 'literal', 'events': [
        ('Start', 3, 2), A(0, 'E'), H(0), A(1, 'E'), H(1), A(2, 'E'), H(2), ('RetryInvalidate',), ('Continue',),
        A(3), H(3), A(4), H(4), A(5), H(5)]},
    {'name': 'F7-rerun-reset-concurrency', 'mode': 'yaql', 'events': [
        ('Start', 3, 2), A(0, 'E'), H(0), A(1, 'E'), H(1), A(2, 'E'), H(2), ('Rerun', True),
        A(3), H(3), A(4), H(4), A(5), H(5)]},
    # good partial rerun: the last item failed
    {'name': 'partial-rerun-last-failed', 'mode': 'absent', 'events': [
        ('Start', 3, 0), A(0, 'E'), A(1), A(2, 'E'), H(2), H(1), H(0), ('Rerun', False), A(4), A(3), H(3), H(4)]},
    # cancellation completes early, later completions are ignored by the task but still counted in the result
    {'name': 'cancel-early', 'mode': 'literal', 'events': [
        ('Start', 4, 3), A(1, 'C'), H(1), A(0), A(2), H(2), H(0)]},
    {'name': 'empty', 'mode': 'yaql', 'events': [('Start', 0, 2), H(0), ('RetryInvalidate',), ('Continue',)]},
    {'name': 'concurrency-gt-n', 'mode': 'literal', 'events': [('Start', 2, 3), A(1), A(0), H(0), H(1)]},
    {'name': 'handles-out-of-order', 'mode': 'literal', 'events': [
        ('Start', 4, 2), A(1), A(0), H(0), H(1), A(3, 'E'), A(2), H(2), H(3), ('Rerun', False), A(4), H(4)]},
    {'name': 'malformed-ids', 'mode': 'literal', 'events': [
        H(0), A(0), ('Continue',), ('Rerun', True), ('Start', 2, 1), ('Start', 3, 0), A(0), A(0, 'E'), H(5), H(0), H(0),
        A(7), A(1, 'E'), ('RetryInvalidate',), H(1), ('Rerun', True), ('Continue',), A(2), H(2), A(3), H(3)]},
]


def coq_eval_retry(name, exprs, chunk):
    """core.coq_eval, repeated once with smaller chunks when a coqc process failed: on a loaded machine a chunk can
    be killed or run into its timeout; a real evaluation error fails again and is then reported."""
    try:
        return core.coq_eval(name, IMPORTS, exprs, chunk=chunk)
    except core.CoqEvalError:
        time.sleep(5)
        return core.coq_eval(name + 'r', IMPORTS, exprs, chunk=max(1, chunk // 3), timeout=1800)


def check_against_model(ctx, tag, traces, fx=False):
    """Compare per-event view hashes inside coqc; on a difference fetch the model's views.
    fx: compare with Model/ItemsFixed.v (step_fx) instead of Model/Items.v (step)."""
    exprs = []
    sfx = '_fx' if fx else ''
    for t in traces:
        exprs.append('first_diff' + sfx + ' 0%%Z init %s %s%%Z' % (
            core.coq_list([coq_event(e) for e in t['events']]),
            core.coq_list([str(vhash(v)) for v in t['views']])))
    res = coq_eval_retry('c07' + tag, exprs, 150)
    bad = []
    for t, r in zip(traces, res):
        ctx.cov['disagreements_checked'] += len(t['events'])
        m = core.re.search(r'-?\d+', r or '')
        k = int(m.group(0)) if m else -2
        if k != -1:
            bad.append((t, k))
    if bad:
        exprs = ['views' + sfx + ' init %s' % core.coq_list([coq_event(e) for e in t['events'][:max(k, 0) + 1]]) for t, k in bad[:5]]
        res = coq_eval_retry('c07' + tag + 'v', exprs, 1)
        for (t, k), r in zip(bad[:5], res):
            rows = core.re.findall(r'\[([^\[\]]*)\]', r or '')
            model_view = [int(x) for x in core.re.findall(r'-?\d+', rows[-1])] if rows else None
            ctx.disagree(tag, {'events': t['events'][:max(k, 0) + 1], 'mode': t['mode'], 'at_event': k},
                         model_view, t['views'][k] if 0 <= k < len(t['views']) else None)
        for (t, k) in bad[5:]:
            ctx.disagree(tag, {'events': t['events'][:max(k, 0) + 1], 'mode': t['mode'], 'at_event': k}, None, None)


def report_failure(ctx, t, name=None):
    sig, what = t['failure']
    ctx.fail(sig, what, {'events': [list(e) for e in t['events']], 'mode': t['mode'],
                         'zero_literal': t.get('zero_literal', False), 'case': name, 'required': what})


def minimise(t):
    """Shorten a failing trace: shortest prefix with the same signature."""
    sig = t['failure'][0]
    lo, hi = 1, len(t['events'])
    while lo < hi:
        mid = (lo + hi) // 2
        _, f, _ = run_events(t['events'][:mid], t['mode'], t.get('zero_literal', False))
        if f and f[0] == sig:
            hi = mid
        else:
            lo = mid + 1
    ev = t['events'][:lo]
    views, f, _ = run_events(ev, t['mode'], t.get('zero_literal', False))
    if f and f[0] == sig:
        return dict(t, events=ev, views=views, failure=f)
    return t


def run(ctx):
    ctx.cov['rule'] = ('seeded event sequences executed on the real WithItemsTask methods: n in 0..8, concurrency absent / '
                       'literal / YAQL with values 0..n+1, outcomes success/error/cancel with several rates, orders '
                       'random / fifo / lifo / all-accepts-first, up to 3 retry or rerun(reset on/off) rounds; malformed stream '
                       'with disabled events and stale / out-of-range ids; distinct = distinct (mode, event list); '
                       'non-trivial = at least 2 items or a redo round')
    # which _get_next_indexes does the source have?  (decides the model the source is compared with; any
    # third behaviour shows up as disagreements with the chosen one)
    fx = detect_variant() == 'fixed'
    ctx.cov['next_indexes_variant'] = 'fixed (Model/ItemsFixed.v step_fx)' if fx else 'legacy (Model/Items.v step)'
    # corpus first
    corpus = []
    for c in CORPUS:
        views, failure, _ = run_events(c['events'], c['mode'])
        t = {'events': [tuple(e) for e in c['events']], 'views': views, 'mode': c['mode'], 'failure': failure, 'name': c['name']}
        corpus.append(t)
        ctx.count('corpus', (c['mode'], tuple(t['events'])), evaluations=len(t['events']))
        if failure and not any(f['signature'] == failure[0] for f in ctx.failures):
            report_failure(ctx, minimise(t), c['name'])
    check_against_model(ctx, 'corpus', corpus, fx=fx)
    # generated
    phase = ctx.cov.setdefault('phase_s', {})
    stats = {'n': {}, 'c': {}, 'mode': {}, 'style': {}, 'final': {}, 'events': 0, 'redo_rounds': 0, 'oracle_signatures': {}}
    for tag, count, malformed in (('sequences', ctx.n(2500, 30000), False), ('malformed', ctx.n(700, 8000), True)):
        t0 = time.time()
        traces = gen_traces(ctx, count, malformed)
        phase['generate+run-impl:' + tag] = round(time.time() - t0, 1)
        seen_sig = {}
        for t in traces:
            redo = sum(1 for e in t['events'] if e[0] in ('Continue', 'Rerun'))
            ctx.count(tag, (t['mode'], tuple(t['events'])), nontrivial=(t['n'] >= 2 or redo > 0), evaluations=len(t['events']))
            for k, v in (('n', t['n']), ('c', t['c']), ('mode', t['mode']), ('style', t['style']), ('final', t['final'])):
                stats[k][str(v)] = stats[k].get(str(v), 0) + 1
            stats['events'] += len(t['events'])
            stats['redo_rounds'] += redo
            if t['failure']:
                sig = t['failure'][0]
                stats['oracle_signatures'][sig] = stats['oracle_signatures'].get(sig, 0) + 1
                if sig not in seen_sig or len(t['events']) < len(seen_sig[sig]['events']):
                    seen_sig[sig] = t
        for sig, t in sorted(seen_sig.items()):
            if not any(f['signature'] == sig for f in ctx.failures):
                report_failure(ctx, minimise(t))
        t0 = time.time()
        check_against_model(ctx, tag, traces, fx=fx)
        phase['model-eval:' + tag] = round(time.time() - t0, 1)
        if traces:
            ctx.sample({'suite': tag, 'mode': traces[0]['mode'], 'events': [list(e) for e in traces[0]['events']][:40],
                        'final': traces[0]['final']})
    ctx.cov['suites'].setdefault('sequences', {})['distribution'] = stats
    if not fx:
        suite_fixed_variant(ctx)
    suite_policy_types(ctx)
    engine_traces(ctx)
    # with-items over SUB-WORKFLOWS on the real engine, with reruns issued inside an item's sub-workflow or on the
    # with-items task itself (reset on / off), repeated reruns, new attempts ok / err / cancel: the task completes only
    # after every item has completed, its state follows the items, only failed items are re-executed - the execution-tree
    # harness of C12 restricted to cases that go through a with-items task (DB tree vs Model/Rerun.v + reference run)
    from harness import engine_rerun
    engine_rerun.run(ctx, ctx.n(40, 500), suite='engine_rerun_items',
                     case_filter=lambda c: c['kind'] == 'items' or any(c['via_items']))
    ctx.assumptions += ['one event = one transaction (named_lock + refresh + keyed job: checked structurally by tr_itemslock)',
                        'Task.complete / set_state / action descriptor / DB replaced by fakes (see suite docstring)']


def detect_variant():
    """'legacy' if a partial rerun of items [ERROR, SUCCESS, SUCCESS] starts 0, 1 and 2 (finding F4), 'fixed' if it
    starts only 0 and a retry of 3 failed items under concurrency 2 starts 0 and 1 (no F7), else 'other'."""
    _, _, obs = run_events(CORPUS[0]['events'][:8], CORPUS[0]['mode'])
    started4 = [c[0] for c in obs[-1]['children'][3:]]
    _, _, obs = run_events(CORPUS[1]['events'][:11], CORPUS[1]['mode'])
    started7 = [c[0] for c in obs[-1]['children'][3:]]
    if started4 == [0, 1, 2]:
        return 'legacy'
    if started4 == [0] and started7 == [0, 1, 2]:
        return 'fixed'
    return 'other'


def suite_fixed_variant(ctx):
    """The proposed patch (fixed_get_next_indexes swapped into the real class at run time) against
    Model/ItemsFixed.v, with the property oracle: validates the patch whose model-level theorems are the
    C07_fixed_* ones.  A failure here is a defect of the proposal, not of /repo: reported as a disagreement."""
    t0 = time.time()
    traces = []
    for c in CORPUS:
        views, failure, _ = run_events(c['events'], c['mode'], variant='patched')
        traces.append({'events': [tuple(e) for e in c['events']], 'views': views, 'mode': c['mode'], 'failure': failure})
    traces += gen_traces(ctx, ctx.n(600, 5000), False, variant='patched')
    traces += gen_traces(ctx, ctx.n(200, 1500), True, variant='patched')
    for t in traces:
        ctx.count('fixed_variant', (t['mode'], tuple(t['events'])), evaluations=len(t['events']))
        if t['failure']:
            ctx.disagree('fixed_variant_oracle', {'events': [list(e) for e in t['events']], 'mode': t['mode']},
                         'property holds', '%s: %s' % t['failure'])
    check_against_model(ctx, 'fixed_variant', traces, fx=True)
    ctx.cov.setdefault('phase_s', {})['fixed_variant'] = round(time.time() - t0, 1)


def suite_policy_types(ctx):
    """Malformed concurrency values: the policy must refuse them before any item starts."""
    mods()
    from mistral import exceptions as exc
    for val in ['2', 2.5, -1, [1], {'a': 1}, None]:
        impl = Impl('yaql')
        try:
            impl.wf_ex.input = {'xs': [0, 1, 2], 'c': val}
            impl.task_ex.state = 'RUNNING'
            refused = False
            try:
                impl.task()._before_task_start()
            except (exc.MistralException,):
                refused = True
            ctx.count('policy_types', (repr(val),))
            if not refused or impl.task_ex.executions:
                ctx.fail('concurrency-wrong-type-accepted', 'concurrency value %r accepted (refused=%s)' % (val, refused),
                         {'concurrency': repr(val)})
        finally:
            impl.close()


def engine_traces(ctx):
    """Real engine, oracle only: with-items tasks under random delivery orders with pause/resume: running
    items never exceed the concurrency, every index once, ordered results, final state."""
    from harness import engine_explore as ee
    ee.explore(ctx, ['C07', 'C01'], ['with_items'], ctx.n(24, 240), 4, suite='engine_explore_C07')


def search(ctx):
    """Widened oracle-only search (no model involved)."""
    seen = set(f['signature'] for f in ctx.failures)
    for i in range(30000):
        t = gen_trace(ctx.rng, malformed=(i % 5 == 4))
        if t['failure'] and t['failure'][0] not in seen:
            seen.add(t['failure'][0])
            report_failure(ctx, minimise(t))


def replay(obj):
    r = obj.get('replay', {})
    if r.get('kind') == 'engine-rerun':
        from harness import engine_rerun as _er      # with-items cases of the execution-tree rerun harness
        return _er.replay(obj)
    if r.get('kind') in ('engine-explore', 'engine-trace'):
        from harness import engine_trace as _et
        return _et.replay_case(obj)
    if 'events' not in r:
        print(json.dumps(obj, indent=1)[:3000])
        return 1
    views, failure, obs = run_events(r['events'], r.get('mode', 'literal'), r.get('zero_literal', False))
    for o in obs:
        print('%-28s task=%-16s children=%s result=%s' % (o['event'], o['task'], [c[:3] for c in o['children']], o['result']))
    if failure:
        print('property violated: %s: %s' % failure)
        return 1
    print('no violation on this input any more (recorded: %s)' % obj.get('signature'))
    return 0
