"""C20 - lost executors and stuck tasks are detected and the run moves on exactly once (component level).

Ties Model/Beat.v to the real code of /repo (nothing of the engine / DB layer is stubbed; the
engine driver of harness/engine_driver.py provides the in-memory DB, the virtual clock and the
explicit pending pool):
  select     real action_heartbeat_checker.handle_expired_actions -> db api
             get_running_expired_sync_action_executions on raw action rows (all states, is_sync
             True/False/NULL, last_heartbeat around the threshold / NULL, batch_size incl. smaller than the
             number of expired rows) vs `select`
  ops        generated operation sequences on REAL workflows (parallel sync / async / with-items tasks with
             and without on-error handlers, ad-hoc task-less actions between them): clock ticks landing
             on threshold-1/0/+1, DefaultEngine.process_action_heartbeats on subsets (+ unknown / empty ids),
             the checker service pass (real start() -> Timer -> _loop -> handle_expired_actions, one
             iteration), genuine results through DefaultEngine.on_action_complete before / after the expiry,
             results sent by the real executor, orphaning; rows + completion log vs `run`
  service    real start()/_loop with a fake Timer/sleep over the settings grid vs first_pass_at / pass_times
  sender     real action_heartbeat_sender add/remove/send (enabled / disabled)
  integrity  real workflow_handler._check_and_fix_integrity (fired as the real scheduler job) on real
             workflows with tasks made stuck by marking child rows / losing the
             _scheduled_on_action_complete job / children born finished, touched tasks, sub-workflow
             children, clock positions around both thresholds, delays incl. 0 and negative, batch sizes
             smaller than the number of RUNNING tasks; recorded schedule_on_action_complete calls +
             re-scheduling vs `integrity_pass`
  chain      the periodic chain of integrity checks: real workflows whose due check (run as the real scheduler job) lands
             on a population WITHOUT a RUNNING task (only DELAYED by wait-before / retry delay, WAITING join, IDLE with
             the start message in flight, PAUSED workflow with finished or running tasks, finished workflow before a
             rerun) as well as with one; per check the decision + re-arm flag vs `integrity_pass`, and the whole run
             (start, workflow state changes, task rows, ticks, fired checks, rerun) vs `crun`: pending check due
             times and the fired checks.  The statements in front of the re-arm call are extracted from
             workflow_handler.py into Gen/IntegrityShape.v by translate/tr_integrityshape.py (fail closed on any
             early return / statement other than negative delay, workflow missing, workflow completed).
Oracle (no model involved), on the same real runs:
  expiry:missed / expiry:spurious:<why>   after a pass: exactly the RUNNING + sync + parent-present actions
        whose harness-tracked last heartbeat (creation + first_heartbeat_timeout, or the last beat) is
        older than now - max_missed*interval are ERROR+accepted; every other action is untouched; nothing
        when interval*max_missed = 0
  pass:exception        a checker pass lets an exception escape (the batch would be rolled back)
  late-result:acted-again   a result for an already finished action changes rows / tasks / pending work
  notified-twice        task_handler.schedule_on_action_complete called twice for one action
  error-path:differs    final workflow/task/action states differ from a twin run of the real engine in
        which the same actions simply returned the same kind of result (expiry == ordinary error)
  beat:lost / beat:spurious   a heartbeat must stamp exactly the listed existing actions
  integrity:not-recovered / :premature / :disabled-but-ran / :never-finishes
  integrity:chain-ended   an unfinished workflow (non-negative delay) without any pending integrity check - after start,
        after every check, after rerun_workflow
  integrity:not-recovered (chain runs)  a task is made stuck AFTER checks that found nothing to do (its executions set
        finished in the DB / the with-items completion job lost); the clock advances, every due check runs; by
        stuck + delay + max(120, delay) the task and the workflow must have finished
  service:* / sender:*  first pass after interval*max_missed, loop survives an exception, disabled = no pass,
        a running action is reported immediately and on every beat until removed

Decisions (explicit, not silent):
  * "broken action" = task-less action execution (ad-hoc `run-action --save-result`, or orphaned): the code
    skips it (never expires it); the oracle only requires that it does not disturb the rest of the batch.
  * the integrity check looks only at the first `execution_integrity_check_batch_size` RUNNING tasks of the
    workflow (oldest first): a stuck task behind that many healthy long-running tasks is not looked at
    until older ones finish (theorem C20_integrity_batch_window).  The oracle requires recovery only inside
    that window (STRICT_WINDOW = False); end-to-end completion is still required once the others finish.
  * [action_heartbeat] batch_size is not applied by the code (`query.limit(limit)` result discarded in
    get_running_expired_sync_action_executions): all expired rows are handled in one pass.  Modelled as is.

Self-test mutations (each applied alone to a scratch worktree of /repo, `VERIF_REPO=/tmp/wt_C20 ./check C20`, quick tier;
every one gives VIOLATION lines with a replayable failing input; first signatures in brackets):
  M1  db api: `last_heartbeat < expiration_time` -> `<=`                          [select:spurious:fresh, expiry:spurious:fresh, corpus:boundary]
  M2  checker: context set inside the loop `is_admin=True` -> `False`             [expiry:missed] (needs auth_enable runs)
  M3  checker: `continue` on a missing parent -> `raise`                          [pass:exception, expiry:missed, corpus:taskless-first-in-batch]
  M4  db api: drop `filter_by(is_sync=True)`                                      [select:spurious:async, expiry:spurious:async]
  M5  db api: drop the `state == RUNNING` filter                                  [select:spurious:finished, pass:exception]
  M6  checker: `seconds=max_missed * interval` -> `seconds=interval`              [select:spurious:fresh, expiry:spurious:fresh]
  M7  models.py: last_heartbeat default without first_heartbeat_timeout           [expiry:spurious:fresh, corpus:boundary]
  M8  engine.process_action_heartbeats: `pass` -> `break` on an unknown id        [beat:lost]
  M9  RegularAction.complete: remove the "already completed" guard                [late-result:acted-again, notified-twice]
  M10 integrity: `all(...)` -> `any(...)` over the children                       [integrity:premature]
  M11 integrity: `check_after_seconds < 0` -> `<= 0` (delay 0 disables)           [integrity:not-recovered, integrity:not-rescheduled]
  M12 integrity: drop the self re-scheduling                                      [integrity:not-rescheduled]
  M13 integrity: `interval > check_after_seconds` -> `>=`                         [integrity:premature]
  M14 checker.start: `interval and max_missed` -> `or`                            [service:disabled-but-runs, expiry:spurious:disabled]
  M15 checker.start: `wait_time = interval * max_missed` -> `interval`            [service:first-pass]
  M16 sender.add_action: no immediate heartbeat                                   [sender:beats]
  M17 checker: sets ERROR on the row instead of action_handler.on_action_complete [error-path:differs]
  M18 integrity: `delta < check_after_seconds` -> `<=`                            [integrity:not-recovered]
  M19 db api: heartbeat update only for RUNNING rows                              [beat:lost]
  M20 db api: `query = query.limit(limit)` (the limit really applied)             [expiry:missed, corpus:taskless-first-in-batch: task-less
      rows then occupy the batch for ever]
  M21 integrity: re-arm moved below the query and skipped when no task is RUNNING  [translate:Gen/IntegrityShape.v, integrity:chain-ended,
      integrity:not-recovered]   (the seeded regression the first version missed: no population without a RUNNING task)
  M22 integrity: `is_completed(wf_ex.state)` guard -> `is_paused_or_completed`     [translate:..., integrity:chain-ended (paused population)]
  M23 integrity: period 120 -> 1200                                               [integrity:not-rescheduled, integrity:not-recovered]
  M24 rerun_workflow / _recursive_rerun no longer schedule a check                [integrity:chain-ended (rerun population)]
M2 was missed by the first version (all runs had auth_enable=False, where project scoping is off): half of the op-sequence
runs now switch [pecan] auth_enable on and pending messages carry their sender's context.  M18 was caught by a single
scenario only: check times are now drawn from the first instant at which recovery is due (-1/0/+1).
"""
import datetime
import json
import os
import random
import types

from harness import core

GEN = ['States', 'IntegrityShape']

MANIFEST = {
    'level_text': 'Coq theorems over Model/Beat.v: expiry selection exact (all row tables, clocks, settings); one pass '
                  'characterised row by row incl. broken rows (batch isolation); over ARBITRARY sequences of '
                  'create/beat/result/orphan/pass/tick from any consistent state: each action completed at most once '
                  'and keeps that result (late result inert), finished rows final, heartbeat error only for a stale '
                  'heartbeat under an enabled checker, a silent action is untouched up to h+max_missed*interval and '
                  'failed by the first pass after it (first-heartbeat grace as corollary), a beat protects for '
                  'max_missed*interval; disabled settings never expire; integrity decision exact, recovers inside the '
                  'batch window, never premature, disabled when delay<0, found by all periodic checks from some point; the chain '
                  'of checks as a transition system (tick / check fired / any task-row change / pause-resume-finish / rerun, '
                  'arbitrary event sequences): while the workflow is unfinished a check is pending and due within one '
                  'period (re-arm guards extracted from the source, fail closed), a due check is never skipped, and a '
                  'stuck task inside the window is re-triggered before max(now, T0+delay)+max(period, delay). '
                  'Model tied to the real checker/engine/db functions by differential runs (select, ops, service, '
                  'integrity) on the real engine under a virtual clock.',
    'level_note': 'Component level: the task/workflow error path after an expiry is checked by a twin run of the real engine '
                  '(oracle), not proved here (engine model is separate). Trusted: SQLAlchemy/sqlite query semantics, '
                  'one checker pass = one transaction (tx_lock), whole-second virtual clock, threads of start()/_loop '
                  'replaced by explicit calls; scheduler runs a job when due (clock never passes a pending job: C13). Task-less actions are skipped by the code (never expired); integrity '
                  'check limited to the first batch_size RUNNING tasks; heartbeat batch_size not applied by the code.',
    'technique': 'Coq invariant/induction proofs over an operation-sequence model; differential correspondence on the real engine',
    'design_ref': '6 C20',
}

IMPORTS = ['Gen.States', 'Model.Beat']
STRICT_WINDOW = bool(os.environ.get('C20_STRICT_WINDOW'))

EPOCH = datetime.datetime(2030, 1, 1, 0, 0, 0)
STATE_COQ = {'RUNNING': 'RUNNING', 'SUCCESS': 'SUCCESS', 'ERROR': 'ERROR', 'CANCELLED': 'CANCELLED', 'PAUSED': 'PAUSED',
             'IDLE': 'IDLE', 'DELAYED': 'RUNNING_DELAYED', 'WAITING': 'WAITING', 'SKIPPED': 'SKIPPED'}
STATE_CODE = {'RUNNING': 1, 'SUCCESS': 2, 'ERROR': 3, 'CANCELLED': 4, 'PAUSED': 5, 'IDLE': 6, 'DELAYED': 7, 'WAITING': 8,
              'SKIPPED': 9}
KIND_STATE = {1: 2, 2: 3, 3: 4, 4: 3}     # model result kind -> state code
COMPLETED = ('SUCCESS', 'ERROR', 'CANCELLED', 'SKIPPED')


def Z(n):
    return '(%d)%%Z' % n


def NAT(n):
    return '%d%%nat' % n


def coq_sync(s):
    return 'None' if s is None else ('(Some true)' if s else '(Some false)')


def coq_optZ(v):
    return 'None' if v is None else '(Some %s)' % Z(v)


def coq_cfg(c):
    return '(mkCfg %s %s %s %s)' % (Z(c['interval']), Z(c['max_missed']), Z(c['first_timeout']), Z(c['batch']))


def coq_arow(idx, state, sync, hb, pok, acc=False):
    return '(mkA %s %s %s %s %s %s None)' % (NAT(idx), STATE_COQ.get(state, 'Invalid'), coq_sync(sync), coq_optZ(hb),
                                            core.coq_bool(pok), core.coq_bool(acc))


def ints(s):
    return [int(x) for x in core.re.findall(r'-?\d+', s or '')]


def two_lists(s):
    """'([a; b], [c])' -> ([a, b], [c])"""
    parts = core.re.findall(r'\[(.*?)\]', s or '', flags=core.re.S)
    if len(parts) != 2:
        return None
    return ints(parts[0]), ints(parts[1])


def sec(dt):
    return None if dt is None else int((dt - EPOCH).total_seconds())


# ---------------------------------------------------------------------------
# boot / configuration

_MODS = {}


def mods():
    """Import the mistral modules once (db api first), keep the unpatched heartbeat-sender functions."""
    if not _MODS:
        from mistral.db.v2 import api as db_api
        from mistral.services import action_heartbeat_sender as hs
        _MODS['sender_orig'] = (hs.add_action, hs.remove_action)     # the driver's boot replaces them by no-ops
        from harness import engine_driver as ed
        from mistral.services import action_heartbeat_checker as hc
        from mistral.engine import workflow_handler as wfh, task_handler as th, actions as eng_actions
        from mistral import context as auth_context
        from mistral_lib import actions as ml_actions
        from oslo_config import cfg
        _MODS.update(db_api=db_api, hs=hs, ed=ed, hc=hc, wfh=wfh, th=th, eng_actions=eng_actions,
                     auth_context=auth_context, ml_actions=ml_actions, CONF=cfg.CONF)
        _fast_dsl_validation()
    return types.SimpleNamespace(**_MODS)


def _fast_dsl_validation():
    """jsonschema.validate() re-checks the (constant) DSL meta-schema on every call, ~1 s per workflow text.
    Same validation of the instance, the schema itself is checked once per schema object (harness speed only;
    DSL validation is not part of this property)."""
    import jsonschema
    from mistral.lang import base as lang_base
    cache = {}

    def validate(instance, schema, *a, **kw):
        ent = cache.get(id(schema))
        if ent is None:
            cls = jsonschema.validators.validator_for(schema)
            cls.check_schema(schema)
            ent = cache[id(schema)] = (cls(schema), schema)
        err = jsonschema.exceptions.best_match(ent[0].iter_errors(instance))
        if err is not None:
            raise err
    lang_base.jsonschema = types.SimpleNamespace(validate=validate, ValidationError=jsonschema.ValidationError)


_DRIVER_CLS = []


def new_driver(sched, seed):
    """The engine driver, with one addition needed when project scoping is on ([pecan] auth_enable): a pending
    message / post-commit thread runs under the security context of its sender, as oslo.messaging (serialised
    context) and post_tx_queue do; scheduler jobs already carry theirs through the real code."""
    m = mods()
    if not _DRIVER_CLS:
        class CtxDriver(m.ed.Driver):
            _cur = None
            as_admin = False     # harness-initiated calls act as the administrative service threads do

            def add_pending(self, kind, payload):
                pid = super().add_pending(kind, payload)
                if m.auth_context.has_ctx():
                    self.pending[pid]['ctx'] = m.auth_context.RpcContextSerializer().serialize_context(m.auth_context.ctx())
                return pid

            def _ctx(self):
                if self._cur is not None and m.CONF.pecan.auth_enable:
                    return m.auth_context.MistralContext.from_dict(dict(self._cur))
                if self.as_admin and m.CONF.pecan.auth_enable:
                    return m.auth_context.MistralContext(user_id=None, project_id=None, auth_token=None, is_admin=True)
                return super()._ctx()

            def _fire_item(self, item):
                self._cur = item.get('ctx')
                try:
                    return super()._fire_item(item)
                finally:
                    self._cur = None
        _DRIVER_CLS.append(CtxDriver)
    d = _DRIVER_CLS[0](sched, seed)
    purge_all()
    return d


def purge_all():
    """Driver.reset() deletes through project-scoped queries; rows written under another context (the
    checker's project-less administrative one) would survive into the next scenario."""
    m = mods()
    from mistral.db.sqlalchemy import base as b
    from mistral.db.v2.sqlalchemy import models
    with m.db_api.transaction():
        b.model_query(models.ActionExecution).delete(synchronize_session=False)
        b.model_query(models.WorkflowExecution).update({'task_execution_id': None}, synchronize_session=False)
        b.model_query(models.TaskExecution).delete(synchronize_session=False)
        b.model_query(models.WorkflowExecution).delete(synchronize_session=False)
        b.model_query(models.DelayedCall).delete(synchronize_session=False)
        b.model_query(models.ScheduledJob).delete(synchronize_session=False)


def apply_cfg(c):
    CONF = mods().CONF
    CONF.set_override('check_interval', c['interval'], group='action_heartbeat')
    CONF.set_override('max_missed_heartbeats', c['max_missed'], group='action_heartbeat')
    CONF.set_override('first_heartbeat_timeout', c['first_timeout'], group='action_heartbeat')
    CONF.set_override('batch_size', c['batch'], group='action_heartbeat')


def apply_integrity_cfg(delay, batch):
    CONF = mods().CONF
    CONF.set_override('execution_integrity_check_delay', delay, group='engine')
    CONF.set_override('execution_integrity_check_batch_size', batch, group='engine')


def reset_cfg():
    CONF = mods().CONF
    CONF.set_override('auth_enable', False, group='pecan')
    for k in ('check_interval', 'max_missed_heartbeats', 'first_heartbeat_timeout', 'batch_size'):
        CONF.clear_override(k, group='action_heartbeat')
    for k in ('execution_integrity_check_delay', 'execution_integrity_check_batch_size'):
        CONF.clear_override(k, group='engine')


def admin_ctx():
    m = mods()
    m.auth_context.set_ctx(m.auth_context.MistralContext(user_id=None, project_id=None, auth_token=None, is_admin=True))


def gen_cfg(rng, enabled_bias=0.85):
    if rng.random() < enabled_bias:
        interval = rng.choice([1, 2, 5, 20, 30])
        mm = rng.choice([1, 2, 3, 15])
    else:
        interval, mm = rng.choice([(0, 15), (20, 0), (0, 0)])
    return {'interval': interval, 'max_missed': mm, 'first_timeout': rng.choice([0, 3, 10, 60, 3600]),
            'batch': rng.choice([0, 1, 2, 10])}


class Patched:
    """Temporarily replace module attributes (call-through wrappers / fake timers), always restored."""

    def __init__(self):
        self.saved = []

    def set(self, obj, name, value):
        self.saved.append((obj, name, getattr(obj, name)))
        setattr(obj, name, value)

    def __enter__(self):
        return self

    def __exit__(self, *a):
        for obj, name, old in reversed(self.saved):
            setattr(obj, name, old)
        return False


def real_service_pass(d, record_selected=None):
    """One pass of the checker service as the engine server runs it: start() arms a Timer with
    interval*max_missed, the timer runs _loop, which calls handle_expired_actions and sleeps.
    Returns dict(started, wait, passes, errors)."""
    m = mods()
    hc = m.hc
    out = {'started': False, 'wait': None, 'passes': 0, 'errors': []}
    timers = []

    class FakeTimer:
        def __init__(self, wait, fn, *a, **kw):
            timers.append((wait, fn))

        def start(self):
            pass

    def fake_sleep(s):
        hc._stopped = True

    orig_pass = hc.handle_expired_actions
    orig_sel = m.db_api.get_running_expired_sync_action_executions

    def pass_wrapper(*a, **kw):
        out['passes'] += 1
        try:
            return orig_pass(*a, **kw)
        except Exception as e:  # _loop would log and swallow it
            out['errors'].append('%s: %s' % (type(e).__name__, str(e)[:200]))
            raise

    def sel_wrapper(*a, **kw):
        res = orig_sel(*a, **kw)
        if record_selected is not None:
            record_selected.append([r.id for r in res])
        return res

    with Patched() as p:
        p.set(hc, 'threading', types.SimpleNamespace(Timer=FakeTimer))
        p.set(hc, 'time', types.SimpleNamespace(sleep=fake_sleep))
        p.set(hc, 'handle_expired_actions', pass_wrapper)
        p.set(m.db_api, 'get_running_expired_sync_action_executions', sel_wrapper)
        try:
            hc.start()
            if timers:
                out['started'] = True
                out['wait'] = timers[0][0]
                timers[0][1]()
        finally:
            hc.stop()
            m.auth_context.set_ctx(d._ctx())
    return out


# ---------------------------------------------------------------------------
# suite: select (raw rows through the real checker pass)

ROW_STATES = ['RUNNING'] * 6 + ['SUCCESS', 'ERROR', 'CANCELLED', 'PAUSED', 'IDLE', 'DELAYED']


def local_select(ctx, sets, oracle_only=False):
    m = mods()
    db_api, hc = m.db_api, m.hc
    d = new_driver('legacy', ctx.seed)
    per = 6
    items = []
    dist = {'rows': 0, 'selected': 0, 'boundary': 0, 'null_hb': 0, 'null_sync': 0, 'batch_lt_expired': 0}
    for si in sets:
        rng = random.Random('%s/select/%d' % (ctx.seed, si))
        thr = rng.randrange(50, 5000)
        rows = []
        for k in range(rng.randrange(0, 8)):
            hb = None if rng.random() < 0.07 else thr + rng.choice([-3, -2, -1, -1, 0, 0, 1, 1, 2, 3, -500, 500])
            rows.append({'k': k, 'state': rng.choice(ROW_STATES), 'sync': rng.choice([True] * 5 + [False, None]), 'hb': hb})
        d.clock = 0
        m.auth_context.set_ctx(d._ctx())
        with db_api.transaction():
            for r in rows:
                vals = {'id': 'sel-%d-%d' % (si, r['k']), 'name': 'std.noop', 'state': r['state'], 'is_sync': r['sync']}
                if r['hb'] is not None:
                    vals['last_heartbeat'] = EPOCH + datetime.timedelta(seconds=r['hb'])
                a = db_api.create_action_execution(vals)
                if r['hb'] is None:
                    a.last_heartbeat = None
        for q in range(per):
            c = gen_cfg(rng, enabled_bias=0.9)
            w = c['interval'] * c['max_missed']
            now = thr + w + rng.choice([-1, 0, 0, 1, 1, 2, rng.randrange(-50, 50)])
            apply_cfg(c)
            d.clock = now
            selected = []
            errors = []
            orig_sel = db_api.get_running_expired_sync_action_executions

            def sel_wrapper(*a, **kw):
                res = orig_sel(*a, **kw)
                selected.append([x.id for x in res])
                return res
            admin_ctx()
            with Patched() as p:
                p.set(db_api, 'get_running_expired_sync_action_executions', sel_wrapper)
                try:
                    hc.handle_expired_actions()
                except Exception as e:
                    errors.append('%s: %s' % (type(e).__name__, str(e)[:200]))
            m.auth_context.set_ctx(d._ctx())
            got = sorted(int(x.split('-')[2]) for x in (selected[0] if selected else []))
            want = sorted(r['k'] for r in rows if r['state'] == 'RUNNING' and r['sync'] is True and r['hb'] is not None
                          and r['hb'] < now - w)
            case = {'suite': 'select', 'set': si, 'rows': rows, 'cfg': c, 'now': now}
            if errors:
                ctx.fail('pass:exception', 'handle_expired_actions raised %s on task-less rows' % errors[0], case)
            if len(selected) != 1 and not errors:
                ctx.fail('select:not-queried', 'the pass did not query the expired actions exactly once', case)
            quota = len(want) if not c['batch'] else min(c['batch'], len(want))
            if len([k for k in want if k in got]) < quota:
                k = [k for k in want if k not in got][0]
                ctx.fail('select:missed', 'row %d (RUNNING, sync, heartbeat %s < %s) is not selected for expiry (%d of %d due rows '
                         'selected, batch_size %d)' % (k, rows[k]['hb'], now - w, len([k for k in want if k in got]), len(want), c['batch']), case)
            for k in got:
                if k not in want:
                    why = ('finished' if rows[k]['state'] != 'RUNNING' else 'async' if rows[k]['sync'] is not True else 'fresh')
                    ctx.fail('select:spurious:%s' % why, 'row %d %r is selected for expiry at now=%d threshold=%d' % (
                        k, rows[k], now, now - w), case)
                    break
            # task-less rows are skipped: nothing may change
            with db_api.transaction():
                after = {int(a.id.split('-')[2]): (a.state, a.is_sync, sec(a.last_heartbeat)) for a in db_api.get_action_executions()}
            for r in rows:
                if after.get(r['k']) != (r['state'], r['sync'], r['hb']):
                    ctx.fail('select:row-changed', 'task-less row %d changed %r -> %r' % (r['k'], r, after.get(r['k'])), case)
                    break
            dist['rows'] += len(rows)
            dist['selected'] += len(got)
            dist['boundary'] += sum(1 for r in rows if r['hb'] is not None and abs(r['hb'] - (now - w)) <= 1)
            dist['null_hb'] += sum(1 for r in rows if r['hb'] is None)
            dist['null_sync'] += sum(1 for r in rows if r['sync'] is None)
            if c['batch'] and len(want) > c['batch']:
                dist['batch_lt_expired'] += 1
            if not oracle_only:
                items.append(('select_ids %s %s %s' % (coq_cfg(c), Z(now), core.coq_list(
                    [coq_arow(r['k'], r['state'], r['sync'], r['hb'], False) for r in rows])), (case, got)))
            ctx.count('select', (si, q, now, w), nontrivial=bool(rows))
        with db_api.transaction():
            db_api.delete_action_executions()
    ctx.cov['suites'].setdefault('select', {})['distribution'] = dist
    reset_cfg()
    return items


def compare_select(ctx, items, res):
    for (expr, (case, got)), r in zip(items, res):
        ctx.cov['disagreements_checked'] += 1
        if sorted(ints(r)) != got:
            ctx.disagree('select', case, r, got)
    if items:
        ctx.sample({'suite': 'select', 'case': items[0][1][0], 'selected': items[0][1][1]})


# ---------------------------------------------------------------------------
# suite: ops (operation sequences on real workflows)

def gen_wf(rng, n=None):
    n = n or rng.randrange(1, 5)
    lines = ["version: '2.0'", 'wf:', '  tasks:']
    tasks = {}
    for i in range(n):
        kind = rng.choice(['sync', 'sync', 'sync', 'async', 'items', 'sync_h', 'sync_h', 'items_h'])
        name = 'a%d' % i
        lines.append('    %s:' % name)
        if kind.startswith('items'):
            k = rng.choice([2, 3])
            lines.append('      with-items: i in %s' % json.dumps(list(range(k))))
            lines.append('      action: verif.act tag="%s" item=<%% $.i %%>' % name)
        else:
            lines.append('      action: verif.act tag="%s" sync=%s' % (name, 'false' if kind == 'async' else 'true'))
        if kind.endswith('_h'):
            lines.append('      on-error: h%d' % i)
        tasks[name] = kind
    for i in range(n):
        if tasks['a%d' % i].endswith('_h'):
            lines.append('    h%d:' % i)
            lines.append('      action: verif.act tag="h%d"' % i)
    return {'yaml': '\n'.join(lines) + '\n', 'tasks': tasks}


def reduced_view(d):
    v = d.view()
    return {
        'wf': {k: x['state'] for k, x in v['wf'].items()},
        'tasks': {k: (x['state'], x['processed'], x['error_handled'], x['next_tasks']) for k, x in v['tasks'].items()},
        'actions': {k: (x['state'], x['accepted']) for k, x in v['actions'].items()},
    }


def engine_events(d, integrity=False):
    """Enabled events that are engine-internal work (not executor runs, not action results)."""
    out = []
    for ev in d.enabled():
        if ev[0] == 'job':
            if integrity or not d._is_integrity_job(ev):
                out.append(ev)
            continue
        it = d.pending[ev[1]]
        if it['kind'] == 'exec':
            continue
        if it['kind'] == 'rpc' and it['payload']['method'] == 'on_action_complete' and not it['payload']['kw']['wf_action']:
            continue
        if it['kind'] == 'rpc' and it['payload']['method'] == 'process_action_heartbeats':
            continue
        out.append(ev)
    return out


class OpsRun:
    """One generated scenario executed on the real engine, with the model's op list built alongside
    and the model-free oracle applied after every operation."""

    def __init__(self, ctx, key, report=True):
        self.ctx, self.key, self.report = ctx, key, report
        self.rng = random.Random(key)
        self.m = mods()
        rng = self.rng
        self.sched = rng.choice(['legacy', 'legacy', 'default'])
        self.d = new_driver(self.sched, ctx.seed)
        self.cfg = gen_cfg(rng)
        apply_cfg(self.cfg)
        apply_integrity_cfg(20, 5)
        self.wf = gen_wf(rng)
        # half of the runs with project scoping of DB lookups active (the checker is an administrative thread)
        self.auth = rng.random() < 0.5
        self.m.CONF.set_override('auth_enable', self.auth, group='pecan')
        self.idx = {}            # action id -> model id
        self.info = {}           # model id -> dict(sync, parent, hb (tracked), state)
        self.ops = []            # model ops (Coq text)
        self.trace = []          # human-readable real ops (for replay files)
        self.snaps = []          # (len(ops), rows_flat, log_flat)
        self.real_log = []       # (idx, state_code, at)
        self.notified = {}       # action id -> epochs of schedule_on_action_complete calls
        self.done_epoch = {}     # action id -> epoch in which its completion was observed
        self.epoch = 0
        self.orphaned = False
        self.failed = False
        self.kinds = {}

    # -- observation -----------------------------------------------------
    def observe(self):
        m = self.m
        m.auth_context.set_ctx(self.d._ctx())
        with m.db_api.transaction():
            rows = [(a.id, a.state, a.is_sync, sec(a.last_heartbeat), bool(a.accepted), a.task_execution_id,
                     (a.task_execution.name if a.task_execution_id else None, (a.runtime_context or {}).get('index', 0)))
                    for a in m.db_api.get_action_executions()]
        rows.sort(key=lambda r: (self.d.uuid_order.get(r[0], 1 << 60), r[0]))
        return rows

    def sync_rows(self):
        """Assign model ids to new rows (emitting OCreate), record completions; returns {idx: row}."""
        rows = self.observe()
        cur = {}
        for r in rows:
            aid, state, sync, hb, acc, tid, where = r
            if aid not in self.idx:
                i = len(self.idx)
                self.idx[aid] = i
                self.info[i] = {'sync': sync, 'parent': tid is not None, 'hb': self.d.clock + self.cfg['first_timeout'],
                                'state': 'RUNNING', 'id': aid, 'where': where}
                self.ops.append('OCreate %s %s %s' % (NAT(i), coq_sync(sync), core.coq_bool(tid is not None)))
            i = self.idx[aid]
            old = self.info[i]['state']
            if old not in COMPLETED and state in COMPLETED:
                self.real_log.append((i, STATE_CODE[state], self.d.clock))
                self.done_epoch[aid] = self.epoch
            self.info[i]['state'] = state
            cur[i] = r
        self.epoch += 1
        return cur

    def snapshot(self, cur):
        rows_flat = []
        for i in sorted(cur):
            aid, state, sync, hb, acc, tid, _w = cur[i]
            rows_flat += [i, STATE_CODE.get(state, 0), -1 if hb is None else hb, 1 if acc else 0]
        self.snaps.append((len(self.ops), rows_flat, sorted((at, i, s) for i, s, at in self.real_log)))

    def fail(self, sig, what, extra=None):
        self.failed = True
        if self.report:
            self.ctx.fail(sig, what, {'suite': 'ops', 'key': self.key, 'cfg': self.cfg, 'workflow': self.wf['yaml'],
                                      'scheduler': self.sched, 'auth_enable': getattr(self, 'auth', False), 'trace': self.trace[-40:], 'detail': extra})

    def where(self, w):
        """model id of the action at 'task' or 'task/index' ('adhoc' = the task-less one)"""
        name, _, k = w.partition('/')
        key = (None, 0) if name == 'adhoc' else (name, int(k or 0))
        return [i for i, inf in self.info.items() if inf['where'] == key][0]

    # -- real operations --------------------------------------------------
    def fire_engine(self):
        evs = engine_events(self.d)
        if not evs:
            return False
        ev = evs[self.rng.randrange(len(evs))]
        self.d.fire(ev)
        self.trace.append('engine')
        return True

    def settle(self):
        n = 0
        while n < 200:
            evs = engine_events(self.d)
            if not evs:
                break
            self.d.fire(evs[0])
            n += 1

    def op_tick(self):
        rng, c, d = self.rng, self.cfg, self.d
        w = c['interval'] * c['max_missed']
        cands = [inf['hb'] + w + dl - d.clock for inf in self.info.values() if inf['state'] == 'RUNNING'
                 for dl in (-1, 0, 1, 2)]
        cands = [x for x in cands if x > 0]
        if cands and rng.random() < 0.7:
            dt = rng.choice(cands)
        else:
            dt = rng.choice([1, 1, 2, 5, max(c['interval'], 1), max(w, 1), max(c['first_timeout'], 1)])
        d.clock += dt
        self.ops.append('OTick %d%%N' % dt)
        self.trace.append('tick %d -> %d' % (dt, d.clock))

    def op_beat(self):
        rng, d = self.rng, self.d
        known = sorted(self.info)
        chosen = [i for i in known if rng.random() < 0.5]
        ids = [self.info[i]['id'] for i in chosen]
        extra = rng.choice([[], [], ['no-such-action'], [''], [None]])
        real_ids = ids + extra
        rng.shuffle(real_ids)
        before = {i: r[3] for i, r in self.sync_rows().items()}
        out = d._call('process_action_heartbeats', d.engine.process_action_heartbeats, real_ids)[0]
        self.ops.append('OBeat %s' % core.coq_list([NAT(i) for i in chosen] + ([NAT(999)] if extra else [])))
        self.trace.append('beat %r extra=%r' % (chosen, extra))
        after = {i: r[3] for i, r in self.sync_rows().items()}
        if out != 'ok':
            self.fail('beat:exception', 'process_action_heartbeats(%r) let an exception escape (%s)' % (real_ids, out))
        for i in known:
            if i in chosen:
                self.info[i]['hb'] = d.clock
                if after.get(i) != d.clock:
                    self.fail('beat:lost', 'heartbeat for action %d at %d not recorded (last_heartbeat=%r, ids=%r)' % (
                        i, d.clock, after.get(i), real_ids))
            elif after.get(i) != before.get(i):
                self.fail('beat:spurious', 'action %d not in the heartbeat changed last_heartbeat %r -> %r' % (
                    i, before.get(i), after.get(i)))

    def op_pass(self):
        d, c = self.d, self.cfg
        pre = self.sync_rows()
        selected = []
        res = real_service_pass(d, selected)
        self.ops.append('OPass')
        self.trace.append('pass at %d' % d.clock)
        post = self.sync_rows()
        enabled = bool(c['interval'] and c['max_missed'])
        w = c['interval'] * c['max_missed']
        if res['errors']:
            self.fail('pass:exception', 'checker pass at %d let an exception escape: %s' % (d.clock, res['errors'][0]))
        if res['started'] != enabled or res['passes'] != (1 if enabled else 0):
            self.fail('service:enabled', 'settings %r: checker started=%s passes=%d' % (c, res['started'], res['passes']))
        must_rows, missed = [], []
        for i, r in pre.items():
            aid, state, sync, hb, acc, tid, _w = r
            inf = self.info[i]
            must = (enabled and state == 'RUNNING' and sync is True and tid is not None and inf['hb'] < d.clock - w)
            nstate, nacc = post[i][1], post[i][4]
            if must:
                must_rows.append(i)
                self.kinds['x_expired'] = self.kinds.get('x_expired', 0) + 1
                if nstate != 'ERROR' or not nacc:
                    missed.append((i, inf['hb'], nstate, nacc))
            elif (nstate, nacc) != (state, acc):
                why = ('disabled' if not enabled else 'finished' if state != 'RUNNING' else 'async' if sync is not True
                       else 'no-parent' if tid is None else 'fresh')
                self.fail('expiry:spurious:%s' % why, 'action %d (%s, sync=%s, heartbeat/deadline %d) changed to %s by the pass '
                          'at %d (threshold %d)' % (i, state, sync, inf['hb'], nstate, d.clock, d.clock - w))
        # a pass may be limited to batch_size actions (the rest is due at the next pass); it must never do less
        quota = len(must_rows) if not c['batch'] else min(c['batch'], len(must_rows))
        if len(must_rows) - len(missed) < quota:
            i, hbv, nstate, nacc = missed[0]
            self.fail('expiry:missed', 'action %d (sync, RUNNING, last heartbeat/deadline %d) not failed by the pass at %d '
                      '(threshold %d): state %s accepted %s; %d of %d due actions handled, batch_size %d' % (
                          i, hbv, d.clock, d.clock - w, nstate, nacc, len(must_rows) - len(missed), len(must_rows), c['batch']))

    def _deliver_checked(self, i, label, fn, consumed=None):
        """Run one result delivery; if the action was already finished nothing at all may change
        (`consumed`: the pending message that is being delivered)."""
        d = self.d
        pre = self.sync_rows()
        was_done = pre[i][1] in COMPLETED
        if was_done:
            self.kinds['x_late_result'] = self.kinds.get('x_late_result', 0) + 1
            pend = list(d.view()['pending'])
            if consumed is not None:
                pend.remove(d.describe(consumed))
            before = (reduced_view(d), sorted(pend))
        fn()
        post = self.sync_rows()
        if was_done:
            after = (reduced_view(d), sorted(d.view()['pending']))
            if before != after or post[i][:2] != pre[i][:2]:
                self.fail('late-result:acted-again', '%s for the already finished action %d (%s) changed the execution' % (
                    label, i, pre[i][1]), {'before': before, 'after': after})

    def op_result(self):
        rng, d, m = self.rng, self.d, self.m
        known = sorted(self.info)
        if not known:
            return
        i = rng.choice(known)
        kind = rng.choice(['ok', 'ok', 'err', 'cancel'])
        res = {'ok': lambda: m.ml_actions.Result(data=1), 'err': lambda: m.ml_actions.Result(error='genuine error'),
               'cancel': lambda: m.ml_actions.Result(error='cancelled', cancel=True)}[kind]()
        self._deliver_checked(i, 'result %s' % kind, lambda: d.operator('action_complete', self.info[i]['id'], res))
        self.ops.append('OResult %s %s' % (NAT(i), {'ok': 'GSuccess', 'err': 'GError', 'cancel': 'GCancel'}[kind]))
        self.trace.append('result %d %s at %d' % (i, kind, d.clock))

    def op_exec(self):
        """the real executor finishes an action now (its result message becomes pending)"""
        d = self.d
        evs = [e for e in d.enabled() if e[0] == 'item' and d.pending[e[1]]['kind'] == 'exec']
        if not evs:
            return
        d.fire(evs[self.rng.randrange(len(evs))])
        self.trace.append('exec')

    def op_deliver(self):
        """a pending result message of the executor reaches the engine"""
        d = self.d
        evs = [e for e in d.enabled() if e[0] == 'item' and d.pending[e[1]]['kind'] == 'rpc'
               and d.pending[e[1]]['payload']['method'] == 'on_action_complete'
               and not d.pending[e[1]]['payload']['kw']['wf_action']]
        if not evs:
            return
        ev = evs[self.rng.randrange(len(evs))]
        kw = d.pending[ev[1]]['payload']['kw']
        i = self.idx.get(kw['action_ex_id'])
        if i is None:
            return
        r = kw['result']
        g = 'GSuccess' if r.is_success() else ('GCancel' if r.is_cancel() else 'GError')
        self._deliver_checked(i, 'executor result', lambda: d.fire(ev), consumed=d.pending[ev[1]])
        self.ops.append('OResult %s %s' % (NAT(i), g))
        self.trace.append('deliver %d %s at %d' % (i, g, d.clock))

    def op_adhoc(self):
        """a task-less action execution (ad-hoc action run kept in the DB) appears between the others"""
        d = self.d
        sync = self.rng.choice([True, True, False])
        d._call('start_action', d.engine.start_action, 'verif.act', {'tag': 'adhoc', 'sync': sync}, save_result=True)
        self.trace.append('adhoc sync=%s' % sync)

    def op_orphan(self):
        m, d = self.m, self.d
        cands = [i for i, inf in self.info.items() if inf['parent']]
        if not cands:
            return
        i = self.rng.choice(cands)
        with m.db_api.transaction():
            m.db_api.update_action_execution(self.info[i]['id'], {'task_execution_id': None})
        self.info[i]['parent'] = False
        self.orphaned = True
        self.ops.append('OOrphan %s' % NAT(i))
        self.trace.append('orphan %d' % i)

    # -- the run ----------------------------------------------------------
    def run(self):
        d, rng, m = self.d, self.rng, self.m
        orig_sched = m.th.schedule_on_action_complete

        def sched_wrapper(action_ex, *a, **kw):
            self.notified.setdefault(action_ex.id, []).append(self.epoch)
            return orig_sched(action_ex, *a, **kw)
        with Patched() as p:
            p.set(m.th, 'schedule_on_action_complete', sched_wrapper)
            d.create_workflows(self.wf['yaml'])
            out, wf_id = d.start_workflow('wf', {})
            d.as_admin = True
            self.trace.append('start_workflow')
            n_ops = rng.randrange(8, 26)
            weights = [('engine', 5), ('tick', 5), ('beat', 3), ('pass', 4), ('result', 2), ('exec', 2), ('deliver', 2),
                       ('adhoc', 0.6), ('orphan', 0.25)]
            names = [w[0] for w in weights]
            ws = [w[1] for w in weights]
            # most of the time let the tasks start first
            if rng.random() < 0.8:
                self.settle()
            self.snapshot(self.sync_rows())
            for _ in range(n_ops):
                k = rng.choices(names, ws)[0]
                self.kinds[k] = self.kinds.get(k, 0) + 1
                if k == 'engine':
                    self.fire_engine()
                else:
                    getattr(self, 'op_' + k)()
                self.snapshot(self.sync_rows())
            # drain: everything still running gets a plain result, the engine finishes its work
            outcomes = self.drain()
        for aid, eps in self.notified.items():
            done = self.done_epoch.get(aid)
            if done is not None and (any(e > done for e in eps) or len([e for e in eps if e == done]) > 1):
                self.fail('notified-twice', 'task handler was told again about the completion of the already finished '
                          'action %s (operation epochs %r, finished in %d)' % (self.idx.get(aid), eps, done))
                break
        return outcomes

    def drain(self):
        d, m = self.d, self.m
        for _ in range(30):
            self.settle()
            d._tick_non_integrity()
            self.settle()
            cur = self.sync_rows()
            running = [i for i, r in cur.items() if r[1] == 'RUNNING' and self.info[i]['parent']]
            if not running:
                break
            for i in running:
                d.operator('action_complete', self.info[i]['id'], m.ml_actions.Result(data=1))
        self.settle()
        v = d.view()
        ids = d._ids['act']
        outcomes = {}
        cur = self.sync_rows()
        for i, r in cur.items():
            cid = ids.get(r[0])
            if cid:
                outcomes[cid] = r[1]
        return {'outcomes': outcomes, 'view': reduced_view(d)}

    def twin(self, outcomes):
        """The same workflow on the real engine where every action simply returns the kind of result it
        ended with in the main run (an expiry = an ordinary error)."""
        m = self.m
        d = new_driver(self.sched, self.ctx.seed)
        apply_cfg(self.cfg)
        m.CONF.set_override('auth_enable', self.auth, group='pecan')
        d.create_workflows(self.wf['yaml'])
        d.start_workflow('wf', {})
        d.as_admin = True
        for _ in range(60):
            n = 0
            while n < 200:
                evs = engine_events(d)
                if not evs:
                    break
                d.fire(evs[0])
                n += 1
            d._tick_non_integrity()
            v = d.view()
            todo = [(aid, cid) for aid, cid in d._ids['act'].items() if v['actions'][cid]['state'] == 'RUNNING' and not v['actions'][cid]['wf']]
            if not todo and not engine_events(d):
                break
            for aid, cid in todo:
                st = outcomes.get(cid, 'SUCCESS')
                res = (m.ml_actions.Result(data=1) if st == 'SUCCESS' else
                       m.ml_actions.Result(error='c', cancel=True) if st == 'CANCELLED' else m.ml_actions.Result(error='e'))
                d.operator('action_complete', aid, res)
        return reduced_view(d)


def model_ops_expr(cfg, ops):
    return 'st_view (run %s %s (mkSt [] %s []))' % (coq_cfg(cfg), core.coq_list(ops), Z(0))


def local_ops(ctx, keys, oracle_only=False):
    items = []
    kinds = {}
    twins = 0
    for key in keys:
        run = OpsRun(ctx, key)
        main = run.run()
        for k, v in run.kinds.items():
            kinds[k] = kinds.get(k, 0) + v
        # error path: compare with the twin run (only meaningful when no action was orphaned)
        if not run.orphaned and not run.failed:
            tw = run.twin(main['outcomes'])
            twins += 1
            if tw != main['view']:
                run.fail('error-path:differs', 'final states after expiries differ from the run where the same actions '
                         'returned ordinary results', {'main': main['view'], 'twin': tw})
        ctx.count('ops', key, nontrivial=len(run.ops) > 3)
        ctx.cov['traces_validated_against_impl'] += 1
        if not oracle_only:
            cps = [run.snaps[-1]]
            if len(run.snaps) > 2:
                cps.append(run.snaps[random.Random(key + '/cp').randrange(1, len(run.snaps) - 1)])
            for nops, rows_flat, log in cps:
                items.append((model_ops_expr(run.cfg, run.ops[:nops]),
                              {'key': key, 'cfg': run.cfg, 'workflow': run.wf['yaml'], 'ops': run.ops[:nops],
                               'trace': run.trace[-30:], 'rows': rows_flat, 'log': [list(x) for x in log]}))
    s = ctx.cov['suites'].setdefault('ops', {})
    s['op_kinds'] = kinds
    s['twin_runs'] = twins
    reset_cfg()
    return items


def model_rows_log(r):
    """model st_view output -> (rows as id,state,hb,accepted ..., sorted log (at, id, state))"""
    tl = two_lists(r)
    if tl is None:
        return None
    mrows, mlog = tl
    mrows4 = []
    for j in range(0, len(mrows), 5):
        mrows4 += [mrows[j], mrows[j + 1], mrows[j + 2], mrows[j + 4]]
    mlog3 = sorted([mlog[j + 2], mlog[j], KIND_STATE[mlog[j + 1]]] for j in range(0, len(mlog), 3))
    return mrows4, mlog3


def compare_ops(ctx, items, res, suite='ops'):
    for (expr, c), r in zip(items, res):
        ctx.cov['disagreements_checked'] += 1
        ml = model_rows_log(r)
        if ml is None or ml[0] != c['rows'] or ml[1] != c['log']:
            ctx.disagree(suite, {k: c[k] for k in ('key', 'cfg', 'workflow', 'ops', 'trace')},
                         r if ml is None else {'rows': ml[0], 'log': ml[1]}, {'rows': c['rows'], 'log': c['log']})
    if items:
        ctx.sample({'suite': suite, 'key': items[0][1]['key'], 'cfg': items[0][1]['cfg'], 'ops': items[0][1]['ops'][:12]})


# ---------------------------------------------------------------------------
# suite: service (start / _loop) and sender

def local_service(ctx):
    m = mods()
    hc = m.hc
    d = new_driver('legacy', ctx.seed)
    items = []
    rng = random.Random('%s/service' % ctx.seed)
    grid = [(i, mm) for i in (0, 1, 5, 20) for mm in (0, 1, 3, 15)]
    for (interval, mm) in grid:
        c = {'interval': interval, 'max_missed': mm, 'first_timeout': 3600, 'batch': 10}
        apply_cfg(c)
        t0 = rng.randrange(0, 1000)
        d.clock = t0
        timers, times, raised = [], [], []

        class FakeTimer:
            def __init__(self, wait, fn, *a, **kw):
                timers.append((wait, fn))

            def start(self):
                pass

        def fake_sleep(s):
            d.clock += s
            if len(times) >= 4:
                hc._stopped = True

        orig = hc.handle_expired_actions

        def wrapper():
            times.append(d.clock)
            if len(times) == 2:
                raised.append(1)
                raise RuntimeError('injected failure of one iteration')
            return orig()
        with Patched() as p:
            p.set(hc, 'threading', types.SimpleNamespace(Timer=FakeTimer))
            p.set(hc, 'time', types.SimpleNamespace(sleep=fake_sleep))
            p.set(hc, 'handle_expired_actions', wrapper)
            try:
                hc.start()
                if timers:
                    d.clock = t0 + timers[0][0]
                    timers[0][1]()
            finally:
                hc.stop()
                m.auth_context.set_ctx(d._ctx())
        case = {'suite': 'service', 'cfg': c, 't0': t0}
        enabled = bool(interval and mm)
        if enabled:
            want = [t0 + interval * mm + k * interval for k in range(4)]
            if not timers:
                ctx.fail('service:not-started', 'checker not started with settings %r' % c, case)
            elif times[:1] != want[:1]:
                ctx.fail('service:first-pass', 'first pass at %r, required %d (start + interval*max_missed)' % (times[:1], want[0]), case)
            elif len(times) < 4:
                ctx.fail('service:loop-dies', 'the checker loop stopped after %d passes (one iteration failed)' % len(times), case)
            elif times[:4] != want:
                ctx.fail('service:period', 'passes at %r, required %r' % (times[:4], want), case)
        elif timers or times:
            ctx.fail('service:disabled-but-runs', 'interval*max_missed = 0 but the checker was started', case)
        items.append(('pass_times %s %s 4%%nat' % (coq_cfg(c), Z(t0)), (case, times[:4])))
        ctx.count('service', (interval, mm, t0))
    reset_cfg()
    return items


def compare_service(ctx, items, res):
    for (expr, (case, times)), r in zip(items, res):
        ctx.cov['disagreements_checked'] += 1
        if ints(r) != times:
            ctx.disagree('service', case, r, times)


def local_sender(ctx):
    """The executor side: a running action is reported at once and on every beat until it is removed."""
    m = mods()
    hs = m.hs
    d = new_driver('legacy', ctx.seed)
    add, remove = m.sender_orig
    for (interval, mm) in [(20, 15), (1, 1), (0, 15), (20, 0)]:
        c = {'interval': interval, 'max_missed': mm, 'first_timeout': 3600, 'batch': 10}
        apply_cfg(c)
        d.reset(ctx.seed)
        threads = []

        class FakeThread:
            def __init__(self, target=None, *a, **kw):
                threads.append(target)

            def start(self):
                pass
        hs._running_actions.clear()
        with Patched() as p:
            p.set(hs, 'threading', types.SimpleNamespace(Thread=FakeThread))
            try:
                hs.start()
                enabled = bool(interval and mm)
                case = {'suite': 'sender', 'cfg': c}

                def beats():
                    out = []
                    for it in list(d.pending.values()):
                        if it['kind'] == 'rpc' and it['payload']['method'] == 'process_action_heartbeats':
                            out.append(sorted(x for x in it['payload']['kw']['action_ex_ids']))
                    d.pending.clear()
                    return out
                add('act-1')
                b1 = beats()
                add('act-2')
                beats()
                hs.send_action_heartbeats()
                b2 = beats()
                remove('act-1')
                hs.send_action_heartbeats()
                b3 = beats()
                remove('act-2')
                hs.send_action_heartbeats()
                b4 = beats()
                add(None)
                b5 = beats()
                got = [b1, b2, b3, b4, b5]
                want = ([[['act-1']], [['act-1', 'act-2']], [['act-2']], [], []] if enabled else [[], [], [], [], []])
                if bool(threads) != enabled:
                    ctx.fail('sender:enabled', 'settings %r: sender loop started=%s' % (c, bool(threads)), case)
                elif got != want:
                    ctx.fail('sender:beats', 'heartbeats sent %r, required %r (settings %r)' % (got, want, c), case)
                ctx.count('sender', (interval, mm))
            finally:
                hs.stop()
                hs._enabled = False
                hs._running_actions.clear()
    reset_cfg()
    return []


# ---------------------------------------------------------------------------
# suite: integrity

def gen_integrity_wf(rng):
    n = rng.choice([1, 2, 3, 3, 4, 6, 7])
    lines = ["version: '2.0'", 'wf:', '  tasks:']
    tasks = []
    has_sub = False
    for i in range(n):
        kind = rng.choice(['act', 'act', 'items', 'items', 'sub'])
        if kind == 'sub' and has_sub:
            kind = 'act'
        name = 'p%d' % i
        lines.append('    %s:' % name)
        if kind == 'items':
            k = rng.choice([2, 3])
            lines.append('      with-items: i in %s' % json.dumps(list(range(k))))
            lines.append('      action: verif.act tag="%s" item=<%% $.i %%>' % name)
        elif kind == 'sub':
            has_sub = True
            lines.append('      workflow: sub')
        else:
            lines.append('      action: verif.act tag="%s"' % name)
        tasks.append((name, kind))
    if has_sub:
        lines += ['sub:', '  tasks:', '    s1:', '      action: verif.act tag="s1" sync=false']
    return {'yaml': '\n'.join(lines) + '\n', 'tasks': tasks}


class IntegrityRun:
    def __init__(self, ctx, key, report=True):
        self.ctx, self.key, self.report = ctx, key, report
        self.rng = random.Random(key)
        self.m = mods()
        self.sched = self.rng.choice(['legacy', 'legacy', 'default'])
        self.d = new_driver(self.sched, ctx.seed)
        self.delay = self.rng.choice([-1, 0, 1, 5, 20, 20])
        self.batch = self.rng.choice([1, 2, 5, 5, 100])
        self.wf = gen_integrity_wf(self.rng)
        self.trace = []
        self.failed = False
        self.checks = []     # (expr, real_view, case)
        self.stats = {}

    def fail(self, sig, what, extra=None):
        self.failed = True
        if self.report:
            self.ctx.fail(sig, what, {'suite': 'integrity', 'key': self.key, 'delay': self.delay, 'batch': self.batch,
                                      'workflow': self.wf['yaml'], 'scheduler': self.sched, 'trace': self.trace, 'detail': extra})

    def settle(self, integrity=False):
        n = 0
        d = self.d
        while n < 300:
            evs = engine_events(d, integrity=integrity)
            if not evs:
                break
            d.fire(evs[0])
            n += 1

    def task_rows(self):
        """name -> task id and its children (real rows)"""
        m = self.m
        m.auth_context.set_ctx(self.d._ctx())
        out = {}
        with m.db_api.transaction():
            for t in m.db_api.get_task_executions(workflow_execution_id=self.wf_id):
                out[t.name] = {'id': t.id, 'state': t.state,
                               'children': [(c.id, type(c).__name__ == 'WorkflowExecution', c.state) for c in t.executions]}
        return out

    def model_input(self):
        m = self.m
        m.auth_context.set_ctx(self.d._ctx())
        with m.db_api.transaction():
            wf = m.db_api.load_workflow_execution(self.wf_id)
            wf_state = wf.state if wf else None
            tasks = []
            running_order = [t.id for t in m.db_api.get_task_executions(workflow_execution_id=self.wf_id, state='RUNNING')]
            for t in m.db_api.get_task_executions(workflow_execution_id=self.wf_id):
                tasks.append({'name': t.name, 'id': t.id, 'state': t.state, 'created': sec(t.created_at), 'updated': sec(t.updated_at),
                              'children': [(c.state, sec(c.created_at), sec(c.updated_at)) for c in t.executions]})
        return wf_state, tasks, running_order

    def integrity_jobs(self):
        return [j for j in self.d.jobs() if j['func'] == '_check_and_fix_integrity' and j['args'].get('wf_ex_id') == self.wf_id]

    def run(self):
        d, rng, m = self.d, self.rng, self.m
        apply_integrity_cfg(self.delay, self.batch)
        apply_cfg({'interval': 20, 'max_missed': 15, 'first_timeout': 3600, 'batch': 10})
        d.create_workflows(self.wf['yaml'])
        d.clock = 0
        out, self.wf_id = d.start_workflow('wf', {})
        jobs0 = self.integrity_jobs()
        if self.delay < 0 and jobs0:
            self.fail('integrity:disabled-but-ran', 'negative execution_integrity_check_delay but an integrity check was scheduled at start')
        if self.delay >= 0 and not jobs0:
            self.fail('integrity:not-scheduled', 'no integrity check scheduled at workflow start (delay %d)' % self.delay)
        d.clock = rng.choice([0, 0, 1, 3])
        self.settle()
        t_start = d.clock
        rows = self.task_rows()
        # fates and their time-stamped manipulations
        fates = {}
        events = []
        last = {}      # task -> latest time anything related to the task was written
        cmax = {}      # task -> time its last child finished (only when all finished)
        for name, kind in self.wf['tasks']:
            if name not in rows:
                continue
            opts = ['running', 'stuck', 'stuck', 'stuck_touched', 'done']
            if kind == 'items':
                opts += ['partial', 'lostjob', 'lostjob']
            if kind == 'act':
                opts += ['born']
            if kind == 'sub':
                opts = ['running', 'stuck', 'stuck', 'stuck_touched']
            fate = rng.choice(opts)
            fates[name] = fate
            last[name] = t_start
            ch = rows[name]['children']
            if fate in ('stuck', 'stuck_touched', 'born'):
                ts = [t_start + rng.randrange(0, 30) for _ in ch]
                for (cid, is_wf, _), t in zip(ch, ts):
                    events.append((t, 'mark', name, cid, is_wf, rng.choice(['SUCCESS', 'SUCCESS', 'ERROR'])))
                cmax[name] = max(ts)
                if fate == 'born':
                    t = t_start + rng.randrange(0, 30)
                    events.append((t, 'born', name, None, False, 'SUCCESS'))
                    cmax[name] = max(cmax[name], t)
                if fate == 'stuck_touched':
                    events.append((t_start + rng.randrange(0, 45), 'touch', name, None, False, None))
            elif fate == 'partial':
                cid, is_wf, _ = ch[0]
                events.append((t_start + rng.randrange(0, 30), 'mark', name, cid, is_wf, 'SUCCESS'))
            elif fate == 'lostjob':
                ts = sorted(t_start + rng.randrange(0, 30) for _ in ch)
                for (cid, is_wf, _), t in zip(ch, ts):
                    events.append((t, 'engine_result_lose_job', name, cid, is_wf, 'SUCCESS'))
                cmax[name] = max(ts)
            elif fate == 'done':
                for (cid, is_wf, _) in ch:
                    events.append((t_start + rng.randrange(0, 30), 'engine_result', name, cid, is_wf, 'SUCCESS'))
        events.sort(key=lambda e: e[0])
        for (t, what, name, cid, is_wf, st) in events:
            d.clock = max(d.clock, t)
            last[name] = max(last[name], d.clock)
            m.auth_context.set_ctx(d._ctx())
            if what == 'mark':
                with m.db_api.transaction():
                    if is_wf:
                        m.db_api.update_workflow_execution(cid, {'state': st, 'output': {}})
                    else:
                        m.db_api.update_action_execution(cid, {'state': st, 'output': {'result': 1}, 'accepted': True})
            elif what == 'born':
                with m.db_api.transaction():
                    m.db_api.create_action_execution({'name': 'verif.act', 'state': st, 'is_sync': True, 'accepted': True,
                                                      'output': {'result': 1}, 'task_execution_id': rows[name]['id'],
                                                      'runtime_context': {'index': 1}})
            elif what == 'touch':
                with m.db_api.transaction():
                    m.db_api.update_task_execution(rows[name]['id'], {'description': 'touched at %d' % d.clock})
            elif what in ('engine_result', 'engine_result_lose_job'):
                d.operator('action_complete', cid, m.ml_actions.Result(data=1))
                if what == 'engine_result':
                    self.settle()
                else:
                    # the completion job of the with-items task is lost (scheduler row vanishes)
                    for j in d.jobs():
                        if j['func'] == '_scheduled_on_action_complete':
                            with m.db_api.transaction():
                                if self.sched == 'legacy':
                                    m.db_api.delete_delayed_call(j['id'])
                                else:
                                    m.db_api.delete_scheduled_job(j['id'])
                    for pid in [pid for pid, it in d.pending.items() if it['kind'] == 'ptq']:
                        d.fire(('item', pid))
            self.trace.append('%d %s %s %s' % (d.clock, what, name, st))
        self.fates = fates
        # checks at clock positions around the thresholds
        n_checks = rng.choice([1, 2, 2])
        for ci in range(n_checks):
            dl = max(self.delay, 0)
            cands = []
            for name in cmax:
                first = max(cmax[name] + dl + 1, last[name] + dl)       # first instant at which recovery is due
                cands += [first, first, first - 1, first + 1, cmax[name] + dl, cmax[name] + dl + 1, last[name] + dl - 1, last[name] + dl]
            cands = [x for x in cands if x >= d.clock] or [d.clock + rng.choice([0, 1, 30, 200])]
            now = rng.choice(cands) if rng.random() < 0.85 else d.clock + rng.choice([0, 5, 50, 500])
            self.one_check(now, cmax, last)
            if self.failed:
                return
        self.finish()

    def one_check(self, now, cmax, last):
        d, m = self.d, self.m
        d.clock = now
        wf_state, tasks, running_order = self.model_input()
        idx = {t['id']: i for i, t in enumerate(tasks)}
        calls = []
        orig = m.th.schedule_on_action_complete

        def wrapper(action_ex, *a, **kw):
            calls.append(action_ex.task_execution_id)
            return orig(action_ex, *a, **kw)
        jobs = [j for j in self.integrity_jobs() if not j['captured']]
        before_view = reduced_view(d)
        n_err = len(d.entry_errors)
        with Patched() as p:
            p.set(m.th, 'schedule_on_action_complete', wrapper)
            if jobs:
                d.fire(('job', jobs[0]['id']))
            else:
                d._call('check', m.wfh._check_and_fix_integrity, self.wf_id)
        resched = any(j['due'] == now + 120 for j in self.integrity_jobs())
        real = [1 if resched else 0] + [idx[t] for t in calls]
        self.stats['checks'] = self.stats.get('checks', 0) + 1
        self.stats['retriggered'] = self.stats.get('retriggered', 0) + len(calls)
        self.trace.append('check at %d (delay %d batch %d) -> calls %r resched %s' % (now, self.delay, self.batch, [idx[t] for t in calls], resched))
        expr = 'integrity_view %s %s %s %s %s' % (
            Z(self.delay), NAT(self.batch), Z(now), 'None' if wf_state is None else '(Some %s)' % STATE_COQ.get(wf_state, 'Invalid'),
            core.coq_list(['(mkT %s %s %s %s %s)' % (
                NAT(i), STATE_COQ.get(t['state'], 'Invalid'), Z(t['created']), coq_optZ(t['updated']),
                core.coq_list(['(mkC %s %s %s)' % (STATE_COQ.get(s, 'Invalid'), Z(c), coq_optZ(u)) for (s, c, u) in t['children']]))
                for i, t in enumerate(tasks)]))
        case = {'key': self.key, 'now': now, 'delay': self.delay, 'batch': self.batch, 'wf_state': wf_state, 'tasks': tasks,
                'trace': self.trace[-20:]}
        self.checks.append((expr, real, case))
        if len(d.entry_errors) > n_err:
            self.fail('integrity:exception', 'the integrity check raised: %s' % d.entry_errors[-1]['msg'])
            return
        # ---- oracle ----
        called = set(calls)
        if self.delay < 0:
            if calls or resched or reduced_view(d) != before_view:
                self.fail('integrity:disabled-but-ran', 'negative delay but the check acted (calls=%d, rescheduled=%s)' % (len(calls), resched))
            return
        if wf_state is not None and wf_state not in COMPLETED and not resched:
            self.fail('integrity:not-rescheduled', 'workflow still %s but no next integrity check scheduled at %d' % (wf_state, now + 120))
        by_name = {t['name']: t for t in tasks}
        self.settle()     # completion handling re-triggered by the check (jobs of with-items tasks, post-tx work)
        after = self.task_rows()
        for name, fate in self.fates.items():
            t = by_name.get(name)
            if t is None or t['state'] != 'RUNNING':
                continue
            tid = t['id']
            if fate in ('running', 'partial'):
                if tid in called or after[name]['state'] != 'RUNNING':
                    self.fail('integrity:premature', 'task %s has unfinished children but completion handling was re-triggered '
                              '(state now %s)' % (name, after[name]['state']))
            elif name in cmax:
                rank = running_order.index(tid) if tid in running_order else None
                inside = rank is not None and rank < self.batch
                in_window = STRICT_WINDOW or inside
                if now - cmax[name] <= self.delay and tid in called:
                    self.fail('integrity:premature', 'task %s: children finished at %d, check at %d with delay %d re-triggered '
                              'completion too early' % (name, cmax[name], now, self.delay))
                if now - cmax[name] > self.delay and now - last[name] >= self.delay and in_window:
                    self.stats['must_recover'] = self.stats.get('must_recover', 0) + 1
                    if after[name]['state'] == 'RUNNING':
                        self.fail('integrity:not-recovered' if inside else 'integrity:starved-beyond-batch', 'task %s stuck RUNNING (children finished at %d, last written %d) '
                                  'not completed by the check at %d (delay %d, rank %s, batch %d)' % (
                                      name, cmax[name], last[name], now, self.delay, rank, self.batch))

    def finish(self):
        """everything else finishes normally; periodic checks must bring the workflow to an end"""
        d, m = self.d, self.m
        if self.delay < 0:
            return
        for rounds in range(25):
            self.settle()
            rows = self.task_rows()
            for name, t in rows.items():
                for (cid, is_wf, st) in t['children']:
                    if st == 'RUNNING' and not is_wf:
                        d.operator('action_complete', cid, m.ml_actions.Result(data=1))
            # sub-workflow actions
            m.auth_context.set_ctx(d._ctx())
            with m.db_api.transaction():
                extra = [a.id for a in m.db_api.get_action_executions() if a.state == 'RUNNING']
            for aid in extra:
                d.operator('action_complete', aid, m.ml_actions.Result(data=1))
            self.settle()
            with m.db_api.transaction():
                wf = m.db_api.load_workflow_execution(self.wf_id)
                st = wf.state
            if st in COMPLETED:
                return
            # next periodic check
            jobs = [j for j in self.integrity_jobs() if not j['captured']]
            if not jobs:
                break
            d.clock = max(d.clock, int(min(j['due'] for j in jobs)))
            self.settle(integrity=True)
        self.fail('integrity:never-finishes', 'all actions finished but the workflow is still %s after 25 integrity checks' % st,
                  {'tasks': self.task_rows()})


def local_integrity(ctx, keys, oracle_only=False):
    items = []
    fates = {}
    for key in keys:
        run = IntegrityRun(ctx, key)
        run.run()
        for f in getattr(run, 'fates', {}).values():
            fates[f] = fates.get(f, 0) + 1
        for k, v in run.stats.items():
            fates['x_' + k] = fates.get('x_' + k, 0) + v
        ctx.count('integrity', key)
        ctx.cov['traces_validated_against_impl'] += 1
        if not oracle_only:
            for expr, real, case in run.checks:
                items.append((expr, (case, real)))
    ctx.cov['suites'].setdefault('integrity', {})['fates'] = fates
    reset_cfg()
    return items


def compare_integrity(ctx, items, res):
    for (expr, (case, real)), r in zip(items, res):
        ctx.cov['disagreements_checked'] += 1
        if ints(r) != real:
            ctx.disagree('integrity', case, r, real)
    if items:
        c = items[0][1][0]
        ctx.sample({'suite': 'integrity', 'case': {k: c[k] for k in ('now', 'delay', 'batch', 'wf_state')}, 'real': items[0][1][1]})


# ---------------------------------------------------------------------------
# suite: chain (the periodic chain of integrity checks never ends before the workflow does)

CHAIN_KINDS = ['delayed', 'delayed', 'retry_delayed', 'join_waiting', 'idle', 'paused', 'paused_running', 'running', 'rerun']


def gen_chain_wf(rng, kind):
    W = rng.choice([30, 50, 150, 300])
    target = rng.choice(['plain', 'plain', 'items', 'async'])
    L = ["version: '2.0'", 'wf:', '  tasks:']

    def target_task(name):
        out = ['    %s:' % name]
        if target == 'items':
            out += ['      with-items: i in [0, 1]', '      action: verif.act tag="%s" item=<%% $.i %%>' % name]
        else:
            out += ['      action: verif.act tag="%s" sync=%s' % (name, 'false' if target == 'async' else 'true')]
        return out
    if kind == 'delayed':
        L += ['    t1:', '      action: verif.act tag="t1"', '      wait-before: %d' % W, '      on-success: t2'] + target_task('t2')
    elif kind == 'retry_delayed':
        L += ['    t1:', '      action: verif.act tag="t1"', '      retry:', '        count: 2', '        delay: %d' % W,
              '      on-success: t2'] + target_task('t2')
    elif kind == 'join_waiting':
        L += ['    t1:', '      action: verif.act tag="t1"', '      on-success: t2',
              '    t0:', '      action: verif.act tag="t0"', '      wait-before: %d' % W, '      on-success: t2']
        tt = target_task('t2')
        L += [tt[0], '      join: all'] + tt[1:]
    else:
        L += ['    t1:', '      action: verif.act tag="t1"', '      on-success: t2'] + target_task('t2')
    return {'yaml': '\n'.join(L) + '\n', 'W': W, 'target': target, 'kind': kind}


class ChainRun(IntegrityRun):
    """A workflow whose periodic check lands on a population without (or with) RUNNING tasks; afterwards a task
    gets stuck; the clock advances with every due check being run; the task and the workflow must finish."""

    def __init__(self, ctx, key, report=True):
        self.ctx, self.key, self.report = ctx, key, report
        self.rng = rng = random.Random(key)
        self.m = mods()
        self.sched = rng.choice(['legacy', 'legacy', 'default'])
        self.d = new_driver(self.sched, ctx.seed)
        self.delay = rng.choice([0, 1, 5, 20, 20, 200, -1])
        self.batch = rng.choice([1, 5, 5])
        self.kind = rng.choice(CHAIN_KINDS)
        self.wf = gen_chain_wf(rng, self.kind)
        self.trace, self.failed, self.checks, self.stats = [], False, [], {}
        self.tidx = {}           # task id -> stable model id
        self.events = []         # model events (Coq text)
        self.mclock = 0          # clock of the model chain
        self.mjobs = None        # due times of the model's pending jobs, in the model's list order
        self.fired = []          # real: (at, [task idx...])
        self.hold = False        # keep engine messages in flight (population of IDLE tasks)

    def fail(self, sig, what, extra=None, fatal=True):
        self.failed = self.failed or fatal
        if self.report:
            self.ctx.fail(sig, what, {'suite': 'chain', 'key': self.key, 'delay': self.delay, 'batch': self.batch, 'kind': self.kind,
                                      'workflow': self.wf['yaml'], 'scheduler': self.sched, 'trace': self.trace, 'detail': extra})

    # -- helpers -----------------------------------------------------------
    def settle(self, integrity=False):
        if not self.hold:
            IntegrityRun.settle(self, integrity)

    def wf_state(self):
        m = self.m
        m.auth_context.set_ctx(self.d._ctx())
        with m.db_api.transaction():
            wf = m.db_api.load_workflow_execution(self.wf_id)
            return wf.state if wf else None

    def pending_checks(self):
        return sorted(j['due'] for j in self.integrity_jobs() if not j['captured'])

    def alive_oracle(self, where):
        """the property's own statement of the chain: an unfinished workflow always has a check pending"""
        st = self.wf_state()
        if self.delay >= 0 and st is not None and st not in COMPLETED and not self.pending_checks():
            if not self.stats.get('chain_ended'):
                self.fail('integrity:chain-ended', 'workflow is %s at %d (%s) but no integrity check is scheduled any more: a task '
                          'that gets stuck from now on is never repaired' % (st, self.d.clock, where), fatal=False)
            self.stats['chain_ended'] = 1
            return False
        return True

    def coq_tasks(self, tasks):
        for t in tasks:
            self.tidx.setdefault(t['id'], len(self.tidx))
        return core.coq_list(['(mkT %s %s %s %s %s)' % (
            NAT(self.tidx[t['id']]), STATE_COQ.get(t['state'], 'Invalid'), Z(t['created']), coq_optZ(t['updated']),
            core.coq_list(['(mkC %s %s %s)' % (STATE_COQ.get(s, 'Invalid'), Z(c), coq_optZ(u)) for (s, c, u) in t['children']]))
            for t in tasks])

    def fire_check(self):
        """run the earliest pending integrity job now (it is due) through the real scheduler path"""
        d, m = self.d, self.m
        jobs = sorted([j for j in self.integrity_jobs() if not j['captured']], key=lambda j: j['due'])
        job = jobs[0]
        now = d.clock
        wf_state, tasks, running_order = self.model_input()
        calls = []
        orig = m.th.schedule_on_action_complete

        def wrapper(action_ex, *a, **kw):
            calls.append(action_ex.task_execution_id)
            return orig(action_ex, *a, **kw)
        n_err = len(d.entry_errors)
        with Patched() as p:
            p.set(m.th, 'schedule_on_action_complete', wrapper)
            d.fire(('job', job['id']))
        tcoq = self.coq_tasks(tasks)
        ids = [self.tidx[t] for t in calls]
        after = self.pending_checks()
        self.fired.append((now, ids))
        self.stats['checks'] = self.stats.get('checks', 0) + 1
        if not any(t['state'] == 'RUNNING' for t in tasks) and wf_state not in COMPLETED:
            self.stats['checks_without_running_task'] = self.stats.get('checks_without_running_task', 0) + 1
            pop = ','.join(sorted(set(t['state'] for t in tasks))) or 'no-task'
            self.stats['pop:' + wf_state + ':' + pop] = self.stats.get('pop:' + wf_state + ':' + pop, 0) + 1
        self.trace.append('check at %d: wf %s tasks %r -> retriggered %r, pending checks afterwards %r' % (
            now, wf_state, [(t['name'], t['state']) for t in tasks], ids, after))
        # model events: workflow state, task rows, clock, fire
        if self.mjobs is None:
            self.mjobs = [] if self.delay < 0 else [10]
        wf_coq = 'None' if wf_state is None else '(Some %s)' % STATE_COQ.get(wf_state, 'Invalid')
        k = self.mjobs.index(job['due']) if job['due'] in self.mjobs else 0
        self.events += ['CWf %s' % wf_coq, 'CTasks %s' % tcoq, 'CTick %d%%N' % (now - self.mclock), 'CFire %s' % NAT(k)]
        self.mclock = now
        # per-check correspondence (decision + re-arm flag)
        expr = 'integrity_view %s %s %s %s %s' % (Z(self.delay), NAT(self.batch), Z(now), wf_coq, tcoq)
        case = {'key': self.key, 'now': now, 'delay': self.delay, 'batch': self.batch, 'wf_state': wf_state, 'tasks': tasks,
                'trace': self.trace[-12:]}
        added = list(after)
        for j in jobs[1:]:
            if j['due'] in added:
                added.remove(j['due'])
        rearmed = bool(added)
        self.checks.append((expr, [1 if rearmed else 0] + ids, case))
        if self.mjobs:
            self.mjobs.pop(k)
        if rearmed:
            self.mjobs.append(added[0])
        if len(d.entry_errors) > n_err:
            self.fail('integrity:exception', 'the integrity check raised: %s' % d.entry_errors[-1]['msg'])
        self.settle()
        self.alive_oracle('after the check at %d' % now)

    def advance(self, to):
        """move the clock to `to`; every integrity check that becomes due on the way runs when it is due"""
        d = self.d
        for _ in range(50):
            due = [x for x in self.pending_checks() if x <= to]
            if not due or self.failed:
                break
            d.clock = max(d.clock, int(due[0]))
            self.settle()
            if [x for x in self.pending_checks() if x <= d.clock]:
                self.fire_check()
        d.clock = max(d.clock, to)
        self.settle()

    def running_actions(self, task_name):
        rows = self.task_rows()
        t = rows.get(task_name)
        return [c for c in (t['children'] if t else []) if c[2] == 'RUNNING' and not c[1]]

    def deliver(self, task_name, ok=True):
        m = self.m
        for (cid, is_wf, st) in self.running_actions(task_name):
            self.d.operator('action_complete', cid, m.ml_actions.Result(data=1) if ok else m.ml_actions.Result(error='e'))
        self.settle()

    # -- the run -------------------------------------------------------------
    def run(self):
        d, rng, m = self.d, self.rng, self.m
        kind, W = self.kind, self.wf['W']
        apply_integrity_cfg(self.delay, self.batch)
        apply_cfg({'interval': 20, 'max_missed': 15, 'first_timeout': 100000, 'batch': 10})
        d.create_workflows(self.wf['yaml'])
        d.clock = 0
        out, self.wf_id = d.start_workflow('wf', {})
        if self.delay < 0:
            if self.integrity_jobs():
                self.fail('integrity:disabled-but-ran', 'negative delay but an integrity check was scheduled at start')
            return
        self.alive_oracle('right after start')
        # reach the population
        self.hold = (kind == 'idle')
        self.settle()
        if kind == 'retry_delayed':
            self.deliver('t1', ok=False)
        elif kind == 'join_waiting':
            self.deliver('t1')
        elif kind in ('paused', 'paused_running'):
            d.operator('pause', self.wf_id)
            self.settle()
            if kind == 'paused':
                self.deliver('t1')
        elif kind == 'rerun':
            # the workflow fails (its chain may legitimately end), then the operator reruns the failed task
            self.deliver('t1', ok=False)
            if rng.random() < 0.5 and self.pending_checks():
                self.advance(int(self.pending_checks()[0]))
            else:
                self.advance(rng.choice([0, 3, 9]))
            st0 = self.wf_state()
            d.operator('rerun', self.task_rows()['t1']['id'])
            self.settle()
            st1 = self.wf_state()
            self.trace.append('workflow %s at %d, rerun of t1 -> %s, pending checks %r' % (st0, d.clock, st1, self.pending_checks()))
            if self.mjobs is None:
                self.mjobs = [10]
            self.events += ['CWf (Some %s)' % STATE_COQ.get(st0, 'Invalid'), 'CTick %d%%N' % (d.clock - self.mclock),
                            'CRerun %s' % STATE_COQ.get(st1, 'Invalid')]
            self.mclock = d.clock
            self.mjobs += [d.clock, d.clock + self.delay]
            self.alive_oracle('after rerun_workflow')
        self.trace.append('population %s reached at %d: wf %s %r' % (kind, d.clock, self.wf_state(),
                                                                     {n: t['state'] for n, t in self.task_rows().items()}))
        # one or two periodic checks land on it
        n_checks = rng.choice([1, 1, 2])
        for _ in range(n_checks):
            nxt = self.pending_checks()
            if not nxt or self.failed:
                break
            self.advance_idle_to(int(nxt[0]))
        if self.failed:
            return
        # the workflow moves on until the target task runs
        self.hold = False
        self.settle()
        if kind in ('paused', 'paused_running'):
            d.operator('resume', self.wf_id)
            self.settle()
        for _ in range(6):
            rows = self.task_rows()
            if 't2' in rows and rows['t2']['state'] == 'RUNNING' and rows['t2']['children']:
                break
            for name in ('t0', 't1'):
                if name in rows and rows[name]['state'] == 'RUNNING':
                    self.deliver(name)
            rows = self.task_rows()
            if any(t['state'] == 'DELAYED' for t in rows.values()):
                nd = [j['due'] for j in d.jobs() if j['func'] != '_check_and_fix_integrity' and not j['captured']]
                if nd:
                    self.advance(int(max(d.clock, min(nd))))
            if self.failed:
                return
        rows = self.task_rows()
        if not ('t2' in rows and rows['t2']['state'] == 'RUNNING' and rows['t2']['children']):
            self.stats['target_not_reached'] = 1
            return
        # the target task gets stuck: its executions finish, the task never hears about it
        self.advance(d.clock + rng.choice([0, 1, 7, 40]))
        if self.failed:
            return
        rows = self.task_rows()
        m.auth_context.set_ctx(d._ctx())
        for (cid, is_wf, st) in rows['t2']['children']:
            if self.wf['target'] == 'items' and rng.random() < 0.5:
                d.operator('action_complete', cid, m.ml_actions.Result(data=1))
                for j in d.jobs():
                    if j['func'] == '_scheduled_on_action_complete':
                        with m.db_api.transaction():
                            (m.db_api.delete_delayed_call if self.sched == 'legacy' else m.db_api.delete_scheduled_job)(j['id'])
                for pid in [pid for pid, it in d.pending.items() if it['kind'] == 'ptq']:
                    d.fire(('item', pid))
            else:
                with m.db_api.transaction():
                    m.db_api.update_action_execution(cid, {'state': 'SUCCESS', 'output': {'result': 1}, 'accepted': True})
        stuck_at = d.clock
        self.stats['stuck'] = 1
        self.trace.append('task t2 stuck at %d (its executions are finished, the completion never reaches the task)' % stuck_at)
        # the clock advances; every due check runs; by stuck_at + delay + max(period, delay) the task must be repaired
        horizon = stuck_at + self.delay + max(120, self.delay) + 2
        self.advance(horizon)
        if self.failed:
            return
        rows = self.task_rows()
        st = self.wf_state()
        if rows['t2']['state'] == 'RUNNING' or st not in COMPLETED:
            self.fail('integrity:not-recovered', 'task t2 got stuck at %d (all executions finished); at %d (delay %d) it is %s and the '
                      'workflow %s; integrity checks ran at %r' % (stuck_at, d.clock, self.delay, rows['t2']['state'], st,
                                                                  [a for a, _ in self.fired]))

    def advance_idle_to(self, to):
        """advance to a due check without letting the population move on (delayed tasks stay delayed if their time has not come)"""
        self.advance(to)

    def chain_expr(self):
        return 'chain_view (crun %s %s %s (chain_start %s RUNNING %s))' % (
            Z(self.delay), NAT(self.batch), core.coq_list(self.events), Z(self.delay), Z(0))

    def chain_real(self):
        flat = []
        for at, ids in self.fired:
            flat += [at, len(ids)] + ids
        return [int(x) for x in self.pending_checks()], flat


def local_chain(ctx, keys, oracle_only=False):
    items = []
    stats = {}
    for key in keys:
        run = ChainRun(ctx, key)
        run.run()
        stats['kind:' + run.kind] = stats.get('kind:' + run.kind, 0) + 1
        for k, v in run.stats.items():
            stats[k] = stats.get(k, 0) + v
        ctx.count('chain', key)
        ctx.cov['traces_validated_against_impl'] += 1
        if not oracle_only and run.delay >= 0:
            for expr, real, case in run.checks:
                items.append((expr, ('check', case, real)))
            if run.events:
                jobs, flat = run.chain_real()
                items.append((run.chain_expr(), ('chain', {'key': key, 'delay': run.delay, 'batch': run.batch, 'kind': run.kind,
                                                           'workflow': run.wf['yaml'], 'events': run.events, 'trace': run.trace},
                                                 [jobs, flat])))
    ctx.cov['suites'].setdefault('chain', {})['stats'] = stats
    reset_cfg()
    return items


def compare_chain(ctx, items, res):
    for (expr, (what, case, real)), r in zip(items, res):
        ctx.cov['disagreements_checked'] += 1
        if what == 'check':
            if ints(r) != real:
                ctx.disagree('chain', case, r, real)
        else:
            tl = two_lists(r)
            if tl is None or sorted(tl[0]) != sorted(real[0]) or tl[1] != real[1]:
                ctx.disagree('chain', case, r, real)
    chains = [it for it in items if it[1][0] == 'chain']
    if chains:
        c = chains[0][1]
        ctx.sample({'suite': 'chain', 'key': c[1]['key'], 'kind': c[1]['kind'], 'delay': c[1]['delay'], 'real': c[2]})



# ---------------------------------------------------------------------------
# corpus: minimised interesting cases (run first)

def local_corpus(ctx):
    """threshold boundary, late result in both orders, a task-less action first in the batch."""
    m = mods()
    items = []
    for name, cfgc, script in CORPUS:
        d = new_driver('legacy', ctx.seed)
        apply_cfg(cfgc)
        apply_integrity_cfg(20, 5)
        run = OpsRun.__new__(OpsRun)
        run.ctx, run.key, run.report = ctx, 'corpus/' + name, True
        run.rng = random.Random(name)
        run.m, run.sched, run.d, run.cfg = m, 'legacy', d, cfgc
        run.wf = {'yaml': CORPUS_WF, 'tasks': {}}
        run.idx, run.info, run.ops, run.trace, run.snaps, run.real_log = {}, {}, [], [], [], []
        run.notified, run.orphaned, run.failed, run.kinds = {}, False, False, {}
        run.done_epoch, run.epoch = {}, 0
        d.create_workflows(CORPUS_WF)
        for step in script:
            if step[0] == 'start':
                d.start_workflow('wf', {})
                run.settle()
            elif step[0] == 'adhoc':
                d._call('start_action', d.engine.start_action, 'verif.act', {'tag': 'adhoc', 'sync': True}, save_result=True)
            elif step[0] == 'tick':
                d.clock += step[1]
                run.ops.append('OTick %d%%N' % step[1])
            elif step[0] == 'pass':
                run.op_pass()
            elif step[0] == 'result':
                run.sync_rows()
                i = run.where(step[1])
                res = m.ml_actions.Result(data=1) if step[2] == 'ok' else m.ml_actions.Result(error='e')
                run._deliver_checked(i, 'result', lambda: d.operator('action_complete', run.info[i]['id'], res))
                run.ops.append('OResult %s %s' % (NAT(i), 'GSuccess' if step[2] == 'ok' else 'GError'))
            elif step[0] == 'beat':
                run.sync_rows()
                ids = [run.where(w) for w in step[1]]
                d._call('hb', d.engine.process_action_heartbeats, [run.info[i]['id'] for i in ids])
                for i in ids:
                    run.info[i]['hb'] = d.clock
                run.ops.append('OBeat %s' % core.coq_list([NAT(i) for i in ids]))
            elif step[0] == 'expect':
                cur = run.sync_rows()
                got = {w: cur[run.where(w)][1] for w in step[1]}
                if got != step[1]:
                    ctx.fail('corpus:%s' % name, 'corpus case %s: action states %r, required %r' % (name, got, step[1]),
                             {'suite': 'corpus', 'name': name})
            run.snapshot(run.sync_rows())
        nops, rows_flat, log = run.snaps[-1]
        items.append((model_ops_expr(cfgc, run.ops), {'key': 'corpus/' + name, 'cfg': cfgc, 'workflow': CORPUS_WF, 'ops': run.ops,
                                                     'trace': run.trace, 'rows': rows_flat, 'log': [list(x) for x in log]}))
        ctx.count('corpus', name)
    reset_cfg()
    return items


CORPUS_WF = """version: '2.0'
wf:
  tasks:
    a0:
      action: verif.act tag="a0"
      on-error: h0
    a1:
      action: verif.act tag="a1" sync=false
    a2:
      with-items: i in [0, 1]
      action: verif.act tag="a2" item=<% $.i %>
    h0:
      action: verif.act tag="h0"
"""
_C = {'interval': 20, 'max_missed': 15, 'first_timeout': 3600, 'batch': 10}
CORPUS = [
    ('boundary', _C, [('start',), ('tick', 3900), ('pass',),
                      ('expect', {'a0': 'RUNNING', 'a1': 'RUNNING', 'a2/0': 'RUNNING', 'a2/1': 'RUNNING'}),
                      ('tick', 1), ('pass',), ('expect', {'a0': 'ERROR', 'a1': 'RUNNING', 'a2/0': 'ERROR', 'a2/1': 'ERROR'})]),
    ('late-result-after-expiry', _C, [('start',), ('tick', 3901), ('pass',), ('result', 'a0', 'ok'), ('result', 'a2/1', 'err'),
                                      ('expect', {'a0': 'ERROR', 'a2/1': 'ERROR'})]),
    ('expiry-after-result', _C, [('start',), ('tick', 3000), ('result', 'a0', 'ok'), ('tick', 2000), ('pass',),
                                 ('expect', {'a0': 'SUCCESS', 'a1': 'RUNNING', 'a2/0': 'ERROR'})]),
    ('taskless-first-in-batch', dict(_C, batch=1), [('adhoc',), ('start',), ('tick', 3901), ('pass',), ('tick', 20), ('pass',),
                                                    ('tick', 20), ('pass',), ('tick', 20), ('pass',),
                                                    ('expect', {'adhoc': 'RUNNING', 'a0': 'ERROR', 'a2/0': 'ERROR', 'a2/1': 'ERROR'})]),
    ('beat-protects', _C, [('start',), ('tick', 3800), ('beat', ['a0']), ('tick', 300), ('pass',),
                           ('expect', {'a0': 'RUNNING', 'a2/0': 'ERROR'}), ('tick', 1), ('pass',), ('expect', {'a0': 'ERROR'})]),
    ('disabled', dict(_C, interval=0), [('start',), ('tick', 100000), ('pass',), ('expect', {'a0': 'RUNNING', 'a2/0': 'RUNNING'})]),
]


# ---------------------------------------------------------------------------

LOCAL = {'corpus': local_corpus, 'select': local_select, 'service': local_service, 'sender': local_sender,
         'ops': local_ops, 'integrity': local_integrity, 'chain': local_chain}
COMPARE = {'corpus': lambda ctx, items, res: compare_ops(ctx, items, res, suite='corpus'), 'select': compare_select,
           'service': compare_service, 'sender': lambda ctx, items, res: None, 'ops': compare_ops, 'integrity': compare_integrity,
           'chain': compare_chain}


def _worker(job):
    """Runs in a forked worker process (own in-memory DB): one chunk of one suite on the real code."""
    suite, seed, tier, kwargs = job
    import logging
    logging.disable(logging.CRITICAL)
    wctx = core.Ctx('C20', tier, seed)
    try:
        items = LOCAL[suite](wctx, **kwargs)
        err = None
    except Exception:
        import traceback
        items, err = [], traceback.format_exc()
    return {'failures': wctx.failures, 'cov': wctx.cov, 'items': items, 'error': err}


def chunks(seq, n):
    seq = list(seq)
    n = max(1, min(n, len(seq)))
    return [seq[i::n] for i in range(n)]


def run_jobs(ctx, jobs, in_process=False):
    """jobs: [(suite, kwargs)] -> evaluated in worker processes (the parent never boots mistral, so fork is safe);
    results merged in job order (deterministic)."""
    full = [(s, ctx.seed, ctx.tier, kw) for s, kw in jobs]
    if in_process or len(full) == 1:
        results = [_worker(j) for j in full]
    else:
        import multiprocessing
        from concurrent.futures import ProcessPoolExecutor
        with ProcessPoolExecutor(max_workers=min(core.NPROC, len(full)), mp_context=multiprocessing.get_context('fork')) as ex:
            results = list(ex.map(_worker, full))
    per_suite = {}
    for (suite, kw), r in zip(jobs, results):
        if r['error']:
            raise RuntimeError('suite %s crashed on current source:\n%s' % (suite, r['error']))
        ctx.failures += r['failures']
        cov = r['cov']
        ctx.cov['evaluations'] += cov['evaluations']
        ctx.cov['distinct_nontrivial'] += cov['distinct_nontrivial']
        ctx.cov['traces_validated_against_impl'] += cov['traces_validated_against_impl']
        for name, st in cov['suites'].items():
            tgt = ctx.cov['suites'].setdefault(name, {'evaluations': 0, 'distinct_nontrivial': 0})
            for k, v in st.items():
                if isinstance(v, dict):
                    t2 = tgt.setdefault(k, {})
                    for kk, vv in v.items():
                        t2[kk] = t2.get(kk, 0) + vv
                else:
                    tgt[k] = tgt.get(k, 0) + v
        per_suite.setdefault(suite, []).extend(r['items'])
    return per_suite


def evaluate(ctx, per_suite):
    import time
    for suite, items in per_suite.items():
        if not items:
            continue
        t0 = time.time()
        res = core.coq_eval('c20' + suite, IMPORTS, [e for e, _ in items], chunk=40 if suite in ('ops', 'corpus') else 100)
        COMPARE[suite](ctx, items, res)
        ctx.cov['suites'].setdefault(suite, {})['model_eval_s'] = round(time.time() - t0, 1)


def correspondence_and_oracle(ctx):
    n_ops = ctx.n(96, 960)
    n_int = ctx.n(96, 960)
    n_sel = ctx.n(160, 1600)
    k = core.NPROC
    jobs = [('corpus', {}), ('service', {}), ('sender', {})]
    jobs += [('ops', {'keys': c}) for c in chunks(['%s/ops/%d' % (ctx.seed, i) for i in range(n_ops)], 2 * k)]
    jobs += [('integrity', {'keys': c}) for c in chunks(['%s/integrity/%d' % (ctx.seed, i) for i in range(n_int)], 2 * k)]
    n_chain = ctx.n(64, 640)
    jobs += [('chain', {'keys': c}) for c in chunks(['%s/chain/%d' % (ctx.seed, i) for i in range(n_chain)], k)]
    jobs += [('select', {'sets': c}) for c in chunks(range(n_sel), k)]
    import time
    t0 = time.time()
    per_suite = run_jobs(ctx, jobs)
    ctx.cov['real_runs_s'] = round(time.time() - t0, 1)
    evaluate(ctx, per_suite)


def engine_traces(ctx):
    """Engine-level trace correspondence (whole-engine model) is added here by the lead."""
    pass


SUITES = [correspondence_and_oracle, engine_traces]


def run(ctx):
    ctx.cov['rule'] = ('seeded scenarios: raw action rows (state x is_sync x heartbeat around threshold +-3 / NULL) x settings '
                       '(interval, max_missed incl. 0, batch) x clock at threshold -1/0/+1; op sequences of 8-25 operations on '
                       'generated workflows (1-4 parallel tasks: sync/async/with-items, with/without on-error), both '
                       'schedulers; integrity scenarios (1-7 tasks, fates running/stuck/touched/partial/lost-job/born-finished/'
                       'done, delay in {-1,0,1,5,20}, batch in {1,2,5,100}); distinct = distinct scenario key')
    for s in SUITES:
        s(ctx)
    ctx.assumptions += ['one checker pass / one integrity check = one transaction (tx_lock); threads of start()/_loop replaced by explicit calls',
                        'virtual clock in whole seconds (utc_now_sec, timeutils.utcnow patched by the engine driver)',
                        'task-less actions are "broken" (skipped); integrity recovery required inside the batch window only']


def search(ctx):
    """Widened oracle-only search (no model) for a concrete failing input."""
    k = core.NPROC
    jobs = [('select', {'sets': c, 'oracle_only': True}) for c in chunks(range(4000, 4600), k)]
    jobs += [('ops', {'keys': c, 'oracle_only': True}) for c in chunks(['%s/search-ops/%d' % (ctx.seed, i) for i in range(400)], 2 * k)]
    jobs += [('integrity', {'keys': c, 'oracle_only': True}) for c in chunks(['%s/search-int/%d' % (ctx.seed, i) for i in range(400)], 2 * k)]
    jobs += [('chain', {'keys': c, 'oracle_only': True}) for c in chunks(['%s/search-chain/%d' % (ctx.seed, i) for i in range(200)], k)]
    run_jobs(ctx, jobs)


def replay(obj):
    import logging
    logging.disable(logging.CRITICAL)
    r = obj.get('replay', {})
    ctx = core.Ctx('C20', 'quick', obj.get('seed', 0) or 0)
    suite = r.get('suite')
    if suite == 'ops' and 'key' in r:
        jobs = [('ops', {'keys': [r['key']], 'oracle_only': True})]
    elif suite == 'integrity' and 'key' in r:
        jobs = [('integrity', {'keys': [r['key']], 'oracle_only': True})]
    elif suite == 'chain' and 'key' in r:
        jobs = [('chain', {'keys': [r['key']], 'oracle_only': True})]
    elif suite == 'select':
        jobs = [('select', {'sets': [r.get('set', 0)], 'oracle_only': True})]
    elif suite == 'corpus':
        jobs = [('corpus', {})]
    elif suite in ('service', 'sender'):
        jobs = [('service', {}), ('sender', {})]
    else:
        print(json.dumps(obj, indent=1, default=str)[:3000])
        return 1
    run_jobs(ctx, jobs, in_process=True)
    for f in ctx.failures[:5]:
        print('FAIL %s: %s' % (f['signature'], f['what']))
    print('replayed %s: %d oracle failure(s)' % (suite, len(ctx.failures)))
    return 1 if ctx.failures else 0
