"""C11 - engine-level check: Coq theorems over coq/Model/Engine.v (Properties/C11.v), trace
correspondence between the model and the REAL engine driven by harness/engine_driver.py, and the
implementation-side oracles of harness/engine_trace.py (Observer) restricted to this property.

Execution-tree part (harness/engine_stoptree.py, coq/Model/StopTree.v, coq/Proofs/StopTreeProofs.v, module Tree of
Properties/C11.v): stop SUCCESS / ERROR / CANCELLED, pause and resume on the root or on a nested execution of call
chains of depth 0-3 (plain and with-items sub-workflow tasks, parallel asynchronous branches), at seeded random points of a
seeded random delivery order - incl. pause (root or nested) followed by cancel, cancel while a child's result is in flight,
stop between a task completion and its follow-up.  Correspondence: the DB tree before / after every operator request and
every hand-off of a finished child vs the Coq model.  Oracle = the property text (see engine_stoptree docstring).
A sub-workflow whose start request was on its way at the time of the cancel (finding fixed by repo commit 404dec69): it
must be created CANCELLED, never own a task, its parent task must end CANCELLED (signatures cancel:late-subworkflow-*; the
start events are compared with start_child_at of the model).  Reverting 404dec69: VIOLATION cancel:late-subworkflow-created-tasks
/ -not-CANCELLED plus model disagreements on the start events.

Self-test (scratch worktrees, VERIF_REPO): reverting any of the engine fix commits recorded in
known_findings.json makes this or a sibling engine check report a VIOLATION (see DESIGN.md appendix).
Tree part, mutations tried on top of the repaired walkers (`VERIF_REPO=<worktree> ./check C11`): see SELFTEST in
harness/engine_stoptree.py.
"""
from harness import engine_stoptree
from harness import engine_trace as et

GEN = ['States', 'WfGuards']
PROPS = ['C11'] + []

MANIFEST = {
    'level_text': 'Coq theorems (all programs/states/events/histories): an accepted stop holds the requested state (declared error otherwise, no change), no task is created in a stopped workflow, late results/timers/duplicates do not change it. Execution tree (Model/StopTree.v; every tree, address and state, induction over the tree): closed form of the cancel walk - every unfinished execution below a cancelled one becomes CANCELLED with the message and sends one result, finished ones keep their row, nothing is created; its parent task (Plain or with-items) is CANCELLED once the result is processed; hand-offs in any order reach the same tree, a second hand-off changes nothing; over any sequence of stop/pause/resume requests, upward reports and hand-offs a sub-workflow has reported exactly once iff finished, a finished execution never changes again and no task or execution is created; a sub-workflow started below a CANCELLED execution (its start request was on its way) is CANCELLED with the parent message, owns no task ever and cancels its parent task. Decided by correspondence + oracle on the real engine, not proved: that the engine follows the tree model (DB tree compared before/after every operator request and failed/cancelled hand-off), outputs.',
    'level_note': 'Model = control-flow core of the engine (one direct-workflow execution, action tasks, joins all/one/N, on-success/on-error/on-complete with guards whose value is part of the program, engine commands fail/succeed/pause/noop, operator pause/resume/stop/rerun/skip, duplicate deliveries). One event = one committed transaction (tx_lock); data flow, policies, with-items and sub-workflows are outside this model (component models / oracles). Tree model (StopTree.v) = workflow executions (state, state_info tag, results sent) with their task executions (state, plain / with-items, owned sub-workflow executions); one function per transaction of stop_workflow / pause_workflow / resume_workflow incl. the upward propagation through Plain parent tasks, and of the parent side of a hand-off; what a resume continues with and completion checks are left to the core model (resumes after which a RUNNING execution has no unfinished task are outside the tree model). Trusted: the harness interception points (rpc client, executor, post_tx_queue threads, scheduler rows, clock, uuid source), view abstraction, Gen/States translator.',
    'technique': 'Coq per-step + history induction; trace correspondence with stop injection; oracle',
    'design_ref': '6 C11, 4, 5',
    'engine': 'coq+engine-harness',
}


def run(ctx):
    ctx.cov['rule'] = ('programs: seeded generator of direct workflows (1-6 tasks, forks, joins all/one/N, guards true/false/raising in '
                       'YAQL or Jinja, engine commands, 20% with cycles), outcome oracle per task attempt; schedules: seeded random walks over the '
                       'enabled events of the real engine with injection profiles [stop, stop, operator] (both scheduler types); '
                       'distinct = distinct (program, event list); non-trivial = at least 6 events')
    et.trace_suite(ctx, ['C11'], ['stop', 'stop', 'operator'], 220, 3000, suite='engine_trace_C11')
    ctx.cov['rule'] += '; tree part: ' + engine_stoptree.RULE
    engine_stoptree.run(ctx, ctx.n(260, 3200), suite='engine_stoptree_C11', props=('C11',))


def search(ctx):
    """wider oracle search on the real engine (no model involved)"""
    import random
    rng = random.Random('search/C11/%d' % ctx.seed)
    jobs = []
    for i in range(1500):
        prof = ['stop', 'stop', 'operator'][i % 3]
        prog = et.gen_program(rng, max_tasks=6, allow_cycles=(rng.random() < 0.2))
        jobs.append({'tasks': prog.tasks, 'seed': 7000003 + i, 'inject': et.PROFILES[prof], 'max_events': 160})
    for t in et.run_jobs(jobs):
        for f in t.failures:
            if f['property'] in PROPS:
                ctx.fail(f['signature'], f['what'], dict(t.to_json(), events=t.labels[:f['at_event'] + 1], kind='engine-trace'))
    engine_stoptree.search(ctx, 1200, props=('C11',))


def replay(obj):
    if obj.get('replay', obj).get('kind') == 'engine-stoptree':
        return engine_stoptree.replay(obj)
    return et.replay_case(obj)
