"""C01 - engine-level check: Coq theorems over coq/Model/Engine.v (Properties/C01.v), trace
correspondence between the model and the REAL engine driven by harness/engine_driver.py, and the
implementation-side oracles of harness/engine_trace.py (Observer) restricted to this property.

Self-test (scratch worktrees, VERIF_REPO): reverting any of the engine fix commits recorded in
known_findings.json makes this or a sibling engine check report a VIOLATION (see DESIGN.md appendix).
"""
from harness import engine_trace as et

GEN = ['States']
PROPS = ['C01'] + []

MANIFEST = {
    'level_text': 'Reverse workflows: Coq theorems over Model/Reverse.v (every definition, target and operation sequence: only tasks the target depends on exist, one execution each, everything an existing execution requires has succeeded, nothing needed is forgotten), tied to the real ReverseWorkflowController by differential runs and to the real engine by generated reverse workflows (requires graphs, task-defaults requires) with the prescribed-outcome oracle. Direct workflows: Coq theorems over Model/Engine.v for every program/state/event: non-declared failures arise only from stale or duplicate messages, impossible joins are ERROR exactly when the cardinality is unreachable, joins run only with the cardinality met, workflow moves are documented table edges, final states are final; the no-stuck clause (quiescent => final) and the match with the language semantics are NOT proved: decided by trace correspondence model-vs-real-engine (0 disagreements required) and the implementation-side oracle on every quiescent trace.',
    'level_note': 'Model = control-flow core of the engine (one direct-workflow execution, action tasks, joins all/one/N, on-success/on-error/on-complete with guards whose value is part of the program, engine commands fail/succeed/pause/noop, operator pause/resume/stop/rerun/skip, duplicate deliveries). One event = one committed transaction (tx_lock); data flow, policies, with-items and sub-workflows are outside this model (component models / oracles). Trusted: the harness interception points (rpc client, executor, post_tx_queue threads, scheduler rows, clock, uuid source), view abstraction, Gen/States translator.',
    'technique': 'Coq per-step theorems + trace correspondence of the real engine under a deterministic scheduler harness + quiescence oracle',
    'design_ref': '6 C01, 4, 5',
    'engine': 'coq+engine-harness',
}


def run(ctx):
    ctx.cov['rule'] = ('programs: seeded generator of direct workflows (1-6 tasks, forks, joins all/one/N, guards true/false/raising in '
                       'YAQL or Jinja, engine commands, 20% with cycles), outcome oracle per task attempt; schedules: seeded random walks over the '
                       'enabled events of the real engine with injection profiles [plain, plain, operator] (both scheduler types); '
                       'distinct = distinct (program, event list); non-trivial = at least 6 events')
    et.trace_suite(ctx, ['C01'], ['plain', 'plain', 'operator'], 220, 3000, suite='engine_trace_C01')
    # feature level (with-items, retry / wait / timeout, sub-workflows, data flow), real engine, oracle only:
    # quiescent => final, no lost message, no internal error; for C10 also: runs with pause/resume end like runs without
    from harness import engine_explore as ee
    ee.explore(ctx, ['C01'], ee.FEATURES, ctx.n(30, 300), 4, suite='engine_explore_C01')
    # reverse workflows (requires graphs, task-defaults requires, a target): the real engine under seeded delivery orders
    # with pauses; oracle = the prescribed outcome (the tasks the target depends on, each after what it requires
    # succeeded, each once; final state) - and the real controller vs Model/Reverse.v over generated row sets and runs
    ee.explore(ctx, ['C01'], ['reverse'], ctx.n(24, 240), 3, suite='engine_explore_reverse')
    from harness.suites import C04
    C04.suite_reverse(ctx)
    C04.suite_reverse_runs(ctx)


def search(ctx):
    """wider oracle search on the real engine (no model involved)"""
    import random
    rng = random.Random('search/C01/%d' % ctx.seed)
    jobs = []
    for i in range(1500):
        prof = ['plain', 'plain', 'operator'][i % 3]
        prog = et.gen_program(rng, max_tasks=6, allow_cycles=(rng.random() < 0.2))
        jobs.append({'tasks': prog.tasks, 'seed': 7000003 + i, 'inject': et.PROFILES[prof], 'max_events': 160})
    for t in et.run_jobs(jobs):
        for f in t.failures:
            if f['property'] in PROPS:
                ctx.fail(f['signature'], f['what'], dict(t.to_json(), events=t.labels[:f['at_event'] + 1], kind='engine-trace'))


def replay(obj):
    return et.replay_case(obj)
