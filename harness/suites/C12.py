"""C12 - engine-level check: Coq theorems over coq/Model/Engine.v (Properties/C12.v), trace
correspondence between the model and the REAL engine driven by harness/engine_driver.py, and the
implementation-side oracles of harness/engine_trace.py (Observer) restricted to this property.

Second part (harness/engine_rerun.py, coq/Model/Rerun.v, coq/Proofs/RerunProofs.v, module Tree of
Properties/C12.v): rerun / skip over the EXECUTION TREE - failing task plain / with-items / retry /
upstream of a join, at nesting depth 0-2 (sub-workflows, also started through with-items), parallel
branches still RUNNING or finished at the time of the request, requests through the engine or the real
REST controller, repeated reruns, new attempt ok / error / cancelled, skip.  Correspondence: the DB
abstraction before / after every rerun, skip, start_task(rerun) and refused request vs the Coq model.
Oracle: "right after" (chain RUNNING, task RUNNING / SKIPPED, refusals change nothing) and "then" (the
drained run equals the REFERENCE run of the same program in which the new result came first).

Self-test (scratch worktrees, VERIF_REPO): reverting any of the engine fix commits recorded in
known_findings.json makes this or a sibling engine check report a VIOLATION (see DESIGN.md appendix).
Mutations of the rerun code tried against the tree part (scratch worktree = HEAD 8d14b765 + the two fixes below,
`PYTHONPATH=<worktree>:/verif python -m harness.engine_rerun 260 0` and `VERIF_REPO=<worktree> ./check C12`):
  S   seeded: workflows.py _recursive_rerun returns early when the parent workflow is RUNNING           CAUGHT
      after-rerun:parent-task-not-RUNNING (20x) / after-skip:parent-task-not-RUNNING, differs-from-first-time-run:* (15x),
      20 model disagreements (rerun_workflow: parent task row)
  M1  workflows.py _recursive_rerun: mark_task_running(parent_task_ex) only if the parent task is ERROR CAUGHT
      after-rerun:parent-task-not-RUNNING (parent CANCELLED), stuck-after-rerun:*, 20 model disagreements
      (missed before the cancelled-parent cases `inst0` were added to the generator)
  M2  tasks.py _reset_actions: reset off un-accepts every accepted execution                            CAUGHT
      with-items-rerun:wrong-items-re-executed:reset=False, with-items-rerun:item-run-count, 26 model disagreements
  M3  api task.py put: the `task_ex.state != ERROR` guard applied to state=RUNNING only                 CAUGHT
      skip-of-<STATE>-task-not-refused, refused-request-changed-state:<STATE>, 67 model disagreements (api_put)
  M4  task_handler.create_task: the fix of the rerun window removed                                     CAUGHT
      after-rerun:task-not-RUNNING, differs-from-first-time-run:* (CORPUS cases 'hold_start'), model disagreements
  M5  workflows.py Workflow.rerun: task.cleanup_runtime_context() removed (retry counter survives)      CAUGHT
      differs-from-first-time-run:retry:* (12x); no model disagreement (runtime context is not in the tree model)
Findings of this part on the then unchanged code (both accepted, fixed in /repo, histories kept in
engine_rerun.CORPUS): "rerun window" (the rerun task stayed ERROR until its start request was delivered: a
completion check in between failed the workflow), "publish-on-skip lost at a join".
"""
from harness import engine_rerun
from harness import engine_trace as et

GEN = ['States']
PROPS = ['C12'] + ['C01', 'C03']

MANIFEST = {
    'level_text': 'Coq theorems: rerun/skip are the only events leaving ERROR/CANCELLED and do so along table edges; refusals (paused or succeeded workflow, succeeded task) change nothing; routes of a skipped task; over the execution tree (Model/Rerun.v, any depth, any row states, induction on the chain): closed form of the propagation, after an accepted request every enclosing workflow and parent task is RUNNING (a RUNNING ancestor included), nothing outside the chain changes, accepted iff no ancestor succeeded, refusals and REST guards change nothing, with-items reset off = exactly the failed items / reset on = all, repeated requests idempotent and monotone. "finishes as if the new result had come first" is not proved: trace correspondence with rerun/skip of every kind of failed task at random positions, reference-run oracle on the real engine.',
    'level_note': 'Model = control-flow core of the engine (one direct-workflow execution, action tasks, joins all/one/N, on-success/on-error/on-complete with guards whose value is part of the program, engine commands fail/succeed/pause/noop, operator pause/resume/stop/rerun/skip, duplicate deliveries). One event = one committed transaction (tx_lock); data flow, policies, with-items and sub-workflows are outside this model (component models / oracles). Tree model (Rerun.v) = rows of workflow / task / action executions, one function per transaction of rerun_workflow / start_task(rerun) / REST put; what a skip continues with in the same transaction is left to the core model. Trusted: the harness interception points (rpc client, executor, post_tx_queue threads, scheduler rows, clock, uuid source), view abstraction, Gen/States translator.',
    'technique': 'Coq per-step theorems; trace correspondence with rerun/skip injection; oracle',
    'design_ref': '6 C12, 4, 5',
    'engine': 'coq+engine-harness',
}


def run(ctx):
    ctx.cov['rule'] = ('programs: seeded generator of direct workflows (1-6 tasks, forks, joins all/one/N, guards true/false/raising in '
                       'YAQL or Jinja, engine commands, 20% with cycles), outcome oracle per task attempt; schedules: seeded random walks over the '
                       'enabled events of the real engine with injection profiles [rerun, rerun, operator] (both scheduler types); '
                       'distinct = distinct (program, event list); non-trivial = at least 6 events')
    et.trace_suite(ctx, ['C12'], ['rerun', 'rerun', 'operator'], 220, 3000, suite='engine_trace_C12')
    ctx.cov['rule'] += ('; tree part: ' + engine_rerun.RULE)
    engine_rerun.run(ctx, ctx.n(260, 4000), suite='engine_rerun')


def search(ctx):
    """wider oracle search on the real engine (no model involved)"""
    import random
    rng = random.Random('search/C12/%d' % ctx.seed)
    jobs = []
    for i in range(1500):
        prof = ['rerun', 'rerun', 'operator'][i % 3]
        prog = et.gen_program(rng, max_tasks=6, allow_cycles=(rng.random() < 0.2))
        jobs.append({'tasks': prog.tasks, 'seed': 7000003 + i, 'inject': et.PROFILES[prof], 'max_events': 160})
    for t in et.run_jobs(jobs):
        for f in t.failures:
            if f['property'] in PROPS:
                ctx.fail(f['signature'], f['what'], dict(t.to_json(), events=t.labels[:f['at_event'] + 1], kind='engine-trace'))
    engine_rerun.search(ctx, 1200)


def replay(obj):
    if obj.get('replay', obj).get('kind') == 'engine-rerun':
        return engine_rerun.replay(obj)
    return et.replay_case(obj)
