"""C04 - no task starts before its prerequisites; a join runs exactly once (component level + engine oracle).

Ties the Coq models to the REAL code of /repo (never re-implementations):
  Model/Join.v     possible_route(_top) / induced / logical / logical_task_state / affected
     vs DirectWorkflowController._possible_route / _get_induced_join_state / _get_join_logical_state /
        get_logical_task_state / find_indirectly_affected_task_executions, instantiated on specs parsed by
        mistral.lang.parser from generated YAML, with _get_task_executions served from generated rows
        (suites join_corpus, join; the generator's reading of on-clauses / task-defaults / requires is itself compared
        with wf_spec.find_outbound_task_names / get_task_requires, its validity prediction with the real validator)
  Model/Reverse.v  candidates / satisfied / next_tasks / rrun
     vs ReverseWorkflowController._find_task_specs_with_satisfied_dependencies / _is_satisfied_task (suites reverse,
        reverse_run: whole runs of continue / state-change operations)
  Model/JoinProto.v (check - lock - re-check - act, guards from Gen/Locks.v)
     vs the REAL bodies of Task.defer and task_handler._refresh_task_state, one thread per transaction, every DB call
        a scheduling point, over an in-memory store with READ COMMITTED / REPEATABLE READ reads, named locks held to
        the end of the transaction and an optional unique constraint (suite proto: final count and the program
        counter of every transaction after each generated schedule)
  Model/JoinLife.v on_trigger (re-arm flags from Gen/Locks.v) vs the real Task.defer on an existing execution of every
     state, in a definition with / without a cycle through the join (suite defer_decision)
Oracles (no model involved):
  direct    a join reported RUNNING has >= k inbound rows that are completed and list it in next_tasks; ERROR only if
            k can no longer be reached and WAITING only while it can (independent worklist fixpoint); an exception
            where RUNNING/ERROR is prescribed = the join stays WAITING forever; completion of a task refreshes exactly
            the join executions that depend on it
  reverse   every returned task has all its requires SUCCESS, has no execution, lies in the requires-closure of the
            target, no duplicates, nothing needed and satisfied is left out
  proto     under READ COMMITTED and the schema's own unique constraint: <= 1 join row per key, <= 1 start per join
            execution at every moment of every schedule, exactly 1 when all transactions finished
  engine    whole engine under harness/engine_driver.py (generated fork/join definitions incl. nested joins, joins fed
            by on-error / on-complete / task-defaults, conditional routes that fire or not; seeded schedules): one
            row per join, one action execution per join, first start only with >= k inbound tasks completed and
            routed, failure without running only when k is unreachable, no join WAITING at quiescence.  Joins of
            definitions with cycles and runs where a task with several inbound transitions executed more than once
            are checked for row uniqueness only (the code keeps one execution per task name, see its TODOs).
`engine_traces` is the placeholder for the lead's trace-correspondence suite and is called last.

Self-test: mutations of /repo HEAD fd32502d in a scratch worktree, `VERIF_REPO=<wt> ./check C04` (quick, seed 0); every one
gave VIOLATION lines with a concrete failing input (signature of the first one given):
  M1  direct_workflow._get_join_logical_state: `runnings >= cardinality` -> `>`            join-not-started
  M2  _get_induced_join_state: "not triggered" -> WAITING instead of ERROR                 join-waits-forever
  M3  _possible_route: drop the `visited` test (revert of fix 80b093e7)                    join-stuck:unbounded-recursion-in-possible-route
  M4  task_handler._refresh_task_state: drop the state check after the lock               join-started-twice (+ theorem C04_join_starts_once broken)
  M5  reverse_workflow._is_satisfied_task: any completed state counts as SUCCESS           reverse-starts-before-requires
  M6  find_indirectly_affected_task_executions: direct successors only                     join-not-refreshed
  M8  _get_join_logical_state: `errors > total - N` -> `>=`                                join-fails-while-reachable
  M9  tasks.Task.defer: drop `_can_be_reentered()` (revert of fix 1c5aca86)               partial-join-rerun-by-late-branch
  M10 _get_induced_join_state: a RUNNING inbound task no longer induces WAITING            join-fails-while-reachable
  M11 reverse_workflow._is_satisfied_task: only RUNNING rows count as existing             reverse-task-started-again
  M12 tasks.Task.defer: drop the re-read inside the lock                                   join-waits-forever:engine (duplicate-key errors) + proto disagreement
  M7  models.TaskExecution: drop UniqueConstraint('unique_key')                            theorem C04_join_row_once broken; no failing input under
                                                                                           READ COMMITTED (the lock + re-read still hold): no-failing-input-found
"""
import json
import re

from harness import core

GEN = ['States', 'Locks']

MANIFEST = {
    'level_text': 'Coq theorems (closed under the global context) over hand models of the decision cores: '
                  '(1) the logical state of a join is RUNNING iff >= k inbound tasks completed and routed to it, ERROR iff the '
                  'inbound tasks that can never route to it leave < k, WAITING otherwise - for all definitions, row sets, join '
                  'kinds all/one/N and inbound counts; RUNNING and ERROR are stable under every continuation of the run, ERROR '
                  'implies k is unreachable in every continuation; _possible_route (with its visited set) decides exactly the '
                  'least-fixpoint "can still start" and always returns within |tasks|+2 nested calls, cycles included; '
                  '(2) reverse: chosen tasks have all requires SUCCESS, lie in the requires-closure of the target, are chosen '
                  'once, nothing needed is forgotten; invariant over all continue/state-change sequences; '
                  '(3) check-lock-recheck-act protocol: for any number of racing transactions and any interleaving the join row '
                  'is inserted / the join started at most once, exactly once when all finished, with the guards extracted '
                  'from the source into Gen/Locks.v; (4) whole-engine model (Model/Engine.v, every program, id order and event '
                  'list without operator reruns): one task execution per join key, a task execution - other than a join on a '
                  'cycle - never gets a second action execution however many branches, duplicates, refresh jobs, pauses and '
                  'resumes arrive, and every join whose logical state changes when a task execution changes gets a refresh job '
                  '(completeness of find_indirectly_affected_task_executions). Models tied to /repo by differential runs of the real controller '
                  'methods on parsed definitions with generated rows, of the real Task.defer/_refresh_task_state bodies under '
                  'generated schedules, and by an oracle on whole-engine runs under the deterministic driver.',
    'level_note': 'Trusted: YAML->spec parsing (only find_outbound_task_names/get_task_requires are compared with the '
                  'generator), expression evaluation of route conditions (a route either appears in next_tasks or not), the DB '
                  'semantics assumed by the protocol model (READ COMMITTED, named lock held until transaction end, unique '
                  'constraint) - the real code runs over an in-memory store implementing exactly these; several executions '
                  'of one task name (re-entered cycles) and rerun are outside the stability theorems (correspondence only); '
                  'engine-level start ordering is checked by an oracle on real runs, its theorems are the lead\'s.',
    'technique': 'Coq proof (induction over fuel / inbound lists / operation sequences / schedules, invariants) over hand '
                 'models; source-fact translator for the lock protocol; differential correspondence on the real code',
    'design_ref': '6 C04',
}

IMPORTS = ['Gen.States', 'Model.Join']
FUEL = 64           # > any acyclic depth of a generated spec; Python gives up at ~1000 frames
CMDS = {'fail': 1000, 'succeed': 1001, 'pause': 1002, 'noop': 1003}
STATES = ['IDLE', 'WAITING', 'RUNNING', 'DELAYED', 'PAUSED', 'SUCCESS', 'CANCELLED', 'ERROR', 'SKIPPED']
COMPLETED = ('SUCCESS', 'ERROR', 'CANCELLED', 'SKIPPED')
COQ_STATE = {'DELAYED': 'RUNNING_DELAYED'}
EVENTS = ['on-success', 'on-error', 'on-complete', 'on-skip']


# ---------------------------------------------------------------------------
# parsing of Coq values printed by vm_compute (lists, tuples, strings, nats, bools)

_TOK = re.compile(r'\s*(?:("(?:[^"]|"")*")|([\[\]();,])|([A-Za-z0-9_.\']+)|(%[a-z_]+))')


def parse_coq(text):
    toks = []
    pos = 0
    text = text.strip()
    while pos < len(text):
        m = _TOK.match(text, pos)
        if not m:
            raise ValueError('cannot tokenise %r at %d' % (text, pos))
        pos = m.end()
        if m.group(4):
            continue                       # scope annotation
        toks.append(m.group(1) or m.group(2) or m.group(3))
    toks.append(None)
    i = [0]

    def atom():
        t = toks[i[0]]
        i[0] += 1
        if t == '(':
            items = [expr()]
            while toks[i[0]] == ',':
                i[0] += 1
                items.append(expr())
            assert toks[i[0]] == ')', toks[i[0]]
            i[0] += 1
            if len(items) == 1:
                return items[0]
            return tuple(items)
        if t == '[':
            items = []
            if toks[i[0]] == ']':
                i[0] += 1
                return items
            items.append(expr())
            while toks[i[0]] == ';':
                i[0] += 1
                items.append(expr())
            assert toks[i[0]] == ']', toks[i[0]]
            i[0] += 1
            return items
        if t.startswith('"'):
            return t[1:-1].replace('""', '"')
        if t == 'true':
            return True
        if t == 'false':
            return False
        if t.isdigit():
            return int(t)
        return t

    def expr():
        return atom()
    v = expr()
    assert toks[i[0]] is None, toks[i[0]:]
    return v


def flat(t):
    """Coq prints nested pairs (a, b, c) flat already; normalise nested tuples to flat lists."""
    if isinstance(t, tuple):
        out = []
        for x in t:
            out.append(flat(x))
        return out
    if isinstance(t, list):
        return [flat(x) for x in t]
    return t


# ---------------------------------------------------------------------------
# direct workflows: generated specs and row sets

def tname(i):
    return 't%d' % i


def gen_direct_spec(rng, mode):
    """A direct workflow as a JSON-able dict.
    modes: dag (forks / nested joins), chain (long no-row chains crossing MAX_SEARCH_DEPTH), cyclic, wild."""
    n = rng.choice([2, 3, 4, 5, 6, 7, 8, 10, 12]) if mode != 'chain' else rng.choice([7, 8, 9, 10, 11])
    names = [tname(i) for i in range(n)]
    tasks = {nm: {'join': None, 'on-success': [], 'on-error': [], 'on-complete': [], 'on-skip': []} for nm in names}

    def add(src, dst, ev=None, cond=None):
        ev = ev or rng.choice(['on-success', 'on-success', 'on-success', 'on-error', 'on-complete', 'on-skip'
                               if rng.random() < 0.3 else 'on-success'])
        if cond is None:
            cond = rng.random() < 0.25
        if any(e[0] == dst for e in tasks[src][ev]):
            return
        tasks[src][ev].append([dst, '<% $.get(x, 0) = 1 %>' if cond else None])

    if mode == 'chain':
        # head -> c1 -> ... -> ck -> join, plus short branches into the join
        k = rng.choice([5, 6, 7, 8]) if n > 8 else n - 2
        k = min(k, n - 2)
        j = n - 1
        for i in range(k):
            add(names[i], names[i + 1] if i + 1 < k else names[j])
        for i in range(k, n - 1):
            add(names[i], names[j])
            if rng.random() < 0.4 and i > 0:
                add(names[rng.randrange(0, k)], names[i])
        tasks[names[j]]['join'] = rng.choice(['all', 'one', 2, 1])
    else:
        density = rng.choice([0.15, 0.25, 0.4])
        for a in range(n):
            for b in range(a + 1, n):
                if rng.random() < density:
                    add(names[a], names[b])
        if mode in ('cyclic', 'wild'):
            for _ in range(rng.choice([1, 1, 2, 3])):
                a = rng.randrange(n)
                b = rng.randrange(n)
                add(names[max(a, b)], names[min(a, b)])     # back edge or self loop
        for nm in names:
            if rng.random() < 0.12:
                tasks[nm][rng.choice(EVENTS[:3])].append([rng.choice(list(CMDS)), None])
    defaults = None
    if rng.random() < 0.2:
        defaults = {rng.choice(EVENTS[:3]): [[rng.choice(names), None]]}
    spec = {'order': names[:], 'tasks': tasks, 'defaults': defaults}
    rng.shuffle(spec['order'])
    # joins: on tasks with >= 1 inbound mostly; the clause is valid for the inbound count mostly
    for nm in names:
        if tasks[nm]['join'] is not None:
            continue
        cnt = len(inbound_of(spec, nm))
        p = 0.6 if cnt >= 2 else (0.15 if cnt == 1 else 0.03)
        if rng.random() < p:
            pool = ['all', 'all', 'one'] + list(range(1, cnt + 1))
            if mode == 'wild':
                pool += [0, cnt + 1, cnt + 2]
            tasks[nm]['join'] = rng.choice(pool)
    return spec


def outs_of(spec, nm):
    """find_outbound_task_names as the generator understands the language: per event the task's own clause,
    or - when that is empty - the task-defaults clause without the task itself."""
    out = []
    for ev in EVENTS:
        own = spec['tasks'][nm][ev]
        lst = own
        if not own and spec['defaults'] and spec['defaults'].get(ev):
            lst = [e for e in spec['defaults'][ev] if e[0] != nm]
        for e in lst:
            if e[0] not in out:
                out.append(e[0])
    return out


def inbound_of(spec, nm):
    return [s for s in spec['order'] if nm in outs_of(spec, s)]


def spec_yaml(spec, wf_name='wf'):
    import yaml

    def clause(lst):
        return [({e[0]: e[1]} if e[1] else e[0]) for e in lst]
    wf = {'type': 'direct'}
    if spec['defaults']:
        wf['task-defaults'] = {ev: clause(l) for ev, l in spec['defaults'].items()}
    wf['tasks'] = {}
    for nm in spec['order']:
        t = spec['tasks'][nm]
        d = {'action': 'std.noop'}
        if t['join'] is not None:
            d['join'] = t['join']
        for ev in EVENTS:
            if t[ev]:
                d[ev] = clause(t[ev])
        wf['tasks'][nm] = d
    return yaml.safe_dump({'version': '2.0', wf_name: wf}, sort_keys=False, default_flow_style=False)


def gen_rows(rng, spec, mode):
    """Row sets: 'run' = a prefix of a plausible execution (one row per name, created only when routed to),
    'random' = arbitrary states / next_tasks, 'multi' = several rows of a name, 'malformed' = completed rows
    without next_tasks."""
    names = spec['order']
    rows = []

    def mk(nm, state, nxt):
        rows.append({'id': 'r%d' % len(rows), 'name': nm, 'state': state, 'next': nxt})

    def pick_next(nm, bias):
        outs = [o for o in outs_of(spec, nm) if o not in CMDS]
        return [[o, rng.choice(EVENTS[:3])] for o in outs if rng.random() < bias]
    if mode == 'run':
        bias = rng.choice([0.5, 0.8, 1.0])
        frontier = [nm for nm in names if not inbound_of(spec, nm)]
        rng.shuffle(frontier)
        have = set()
        budget = rng.randrange(0, 2 * len(names) + 2)
        running = []
        for nm in frontier:
            mk(nm, 'RUNNING', None)
            have.add(nm)
            running.append(len(rows) - 1)
        while budget > 0 and running:
            budget -= 1
            i = running.pop(rng.randrange(len(running)))
            r = rows[i]
            r['state'] = rng.choice(['SUCCESS', 'SUCCESS', 'SUCCESS', 'ERROR', 'CANCELLED', 'SKIPPED'])
            r['next'] = pick_next(r['name'], bias)
            for o, _ in r['next']:
                if o not in have:
                    have.add(o)
                    mk(o, 'WAITING' if spec['tasks'][o]['join'] else rng.choice(['RUNNING', 'IDLE', 'RUNNING']), None)
                    if not spec['tasks'][o]['join'] or rng.random() < 0.3:
                        running.append(len(rows) - 1)
        for i in running:
            if rng.random() < 0.2:
                rows[i]['state'] = rng.choice(['DELAYED', 'PAUSED', 'IDLE', 'WAITING'])
        if rng.random() < 0.3:
            rng.shuffle(rows)
            for k, r in enumerate(rows):
                r['id'] = 'r%d' % k
    else:
        p_row = rng.choice([0.3, 0.5, 0.8])
        for nm in names:
            reps = 1
            if mode == 'multi' and rng.random() < 0.3:
                reps = rng.choice([2, 3])
            for _ in range(reps):
                if rng.random() < p_row:
                    st = rng.choice(STATES + ['SUCCESS', 'ERROR', 'SUCCESS'])
                    if st in COMPLETED:
                        nxt = pick_next(nm, rng.choice([0.3, 0.7, 1.0]))
                        if rng.random() < 0.1:
                            nxt.append([rng.choice(names), 'on-success'])      # a name that is not an outbound
                        if mode == 'malformed' and rng.random() < 0.3:
                            nxt = None
                    else:
                        nxt = None if rng.random() < 0.8 else []
                    mk(nm, st, nxt)
        rng.shuffle(rows)
        for k, r in enumerate(rows):
            r['id'] = 'r%d' % k
    return rows


# ---- the real controller on fake rows --------------------------------------

class FakeRow(object):
    def __init__(self, d):
        self.id = d['id']
        self.name = d['name']
        self.state = d['state']
        self.state_info = None
        self.next_tasks = None if d['next'] is None else [tuple(x) for x in d['next']]
        self.processed = d.get('processed', False)

    def __repr__(self):
        return 'Row(%s,%s,%s,%s)' % (self.id, self.name, self.state, self.next_tasks)


class FakeWfEx(object):
    id = 'wf-ex-id'
    state = 'RUNNING'

    def __init__(self, rows, params=None):
        self.task_executions = rows
        self.params = params or {}


def _select(rows, kw):
    out = []
    for r in rows:
        ok = True
        for k, v in kw.items():
            if k in ('fields', 'sort_keys'):
                continue
            val = getattr(r, k)
            if isinstance(v, dict):
                (op, arg), = v.items()
                if op != 'in':
                    raise AssertionError('unexpected filter %r' % (kw,))
                ok = ok and val in arg
            else:
                ok = ok and val == v
        if ok:
            out.append(r)
    return out


_CTRL = {}


def controllers():
    """Subclasses of the REAL controllers whose only override is the DB read."""
    if _CTRL:
        return _CTRL
    from mistral.db.v2 import api as db_api  # noqa: import order
    from mistral.workflow import direct_workflow, reverse_workflow

    class Direct(direct_workflow.DirectWorkflowController):
        def __init__(self, wf_spec, rows):
            self.wf_spec = wf_spec
            self.wf_ex = FakeWfEx(rows)

        def _get_task_executions(self, **kw):
            return _select(self.wf_ex.task_executions, kw)

    class Reverse(reverse_workflow.ReverseWorkflowController):
        def __init__(self, wf_spec, rows, target):
            self.wf_spec = wf_spec
            self.wf_ex = FakeWfEx(rows, {'task_name': target})

        def _get_task_executions(self, **kw):
            return _select(self.wf_ex.task_executions, kw)
    _CTRL['direct'] = Direct
    _CTRL['reverse'] = Reverse
    return _CTRL


_VALIDATED = {'n': 0}


def parse_spec(text, expect_valid=None, check_validity=False):
    """The spec object through the real parser.  Schema + semantic validation of the real parser costs ~1 s per
    definition (jsonschema re-checks its schema on every call), so it is run on a sample only
    (check_validity=True) and compared with the generator's own prediction `expect_valid`; the controller code
    under test does not depend on it.  Returns (spec, valid?)."""
    from mistral.db.v2 import api as db_api  # noqa: import order
    from mistral.lang import parser as spec_parser
    spec = spec_parser.get_workflow_list_spec_from_yaml(text, validate=False).get_workflows()[0]
    if not check_validity:
        return spec, bool(expect_valid)
    _VALIDATED['n'] += 1
    try:
        spec_parser.get_workflow_list_spec_from_yaml(text)
        return spec, True
    except Exception:
        return spec, False


def direct_valid(spec):
    """The generator's prediction of DirectWorkflowSpec.validate_semantics: a start task exists, every join has
    enough inbound tasks."""
    if not any(not inbound_of(spec, nm) for nm in spec['order']):
        return False
    for nm in spec['order']:
        j = spec['tasks'][nm]['join']
        if j is None or j == 0:
            continue
        cnt = len(inbound_of(spec, nm))
        if j == 'all' or j == 'one':
            if cnt < 1:
                return False
        elif cnt < j:
            return False
    return True


def reverse_valid(spec):
    for nm in spec['order']:
        r = spec['requires'][nm]
        if len(set(r)) != len(r) or any(x not in spec['requires'] for x in r):
            return False
    if spec['defaults'] and any(x not in spec['requires'] for x in spec['defaults']):
        return False
    return True


def guarded(fn):
    try:
        return ('ok', fn())
    except RecursionError:
        return ('recursion', None)
    except Exception as e:
        return ('crash', type(e).__name__)


# ---- model expressions -------------------------------------------------------

def nat_of(spec, nm):
    if nm in CMDS:
        return CMDS[nm]
    return int(nm[1:])


def coq_jkind(j):
    if j is None:
        return 'None'
    if j == 'all':
        return '(Some JAll)'
    if j == 'one':
        return '(Some (JNum 1))'
    return '(Some (JNum %d))' % j


def coq_jk(j):
    return 'JAll' if j == 'all' else ('(JNum 1)' if j == 'one' else '(JNum %d)' % j)


def coq_spec(spec):
    ts = []
    for nm in spec['order']:
        ts.append('mkTask %d %s %s' % (nat_of(spec, nm), coq_jkind(spec['tasks'][nm]['join']),
                                       core.coq_list([str(nat_of(spec, o)) for o in outs_of(spec, nm)])))
    return core.coq_list(ts)


def coq_rows(spec, rows):
    rs = []
    for i, r in enumerate(rows):
        nxt = 'None' if r['next'] is None else '(Some %s)' % core.coq_list([str(nat_of(spec, x[0])) for x in r['next']])
        rs.append('mkRow %d %d %s %s' % (i, nat_of(spec, r['name']), COQ_STATE.get(r['state'], r['state']), nxt))
    return core.coq_list(rs)


def direct_model_expr(spec, rows, plan):
    """One Coq expression computing everything the plan asks for."""
    parts = []
    parts.append(core.coq_list(['show_logical (logical %d sp rows %d %s)' % (FUEL, nat_of(spec, j), coq_jk(spec['tasks'][j]['join']))
                                for j in plan['joins']]))
    parts.append(core.coq_list(['show_pr (possible_route_top %d sp rows %d 1)' % (FUEL, nat_of(spec, t)) for t in plan['routes']]))
    parts.append(core.coq_list(['show_induced (induced %d sp rows %d %d)' % (FUEL, nat_of(spec, j), nat_of(spec, s))
                                for j, s in plan['induced']]))
    parts.append(core.coq_list(['show_state (logical_task_state %d sp rows (mkRow 0 %d %s None))' % (
        FUEL, nat_of(spec, rows[i]['name']), COQ_STATE.get(rows[i]['state'], rows[i]['state'])) for i in plan['lts']]))
    parts.append(core.coq_list(['affected sp rows %d' % nat_of(spec, t) for t in plan['affected']]))
    return 'direct_out %s %s (fun sp rows => (%s))' % (coq_spec(spec), coq_rows(spec, rows), ', '.join(parts))


def direct_impl(spec, rows, plan, text=None, check_validity=False):
    """The same plan on the REAL controller."""
    text = text or spec_yaml(spec)
    wf_spec, validated = parse_spec(text, direct_valid(spec), check_validity)
    res0 = {'valid_predicted': direct_valid(spec)}
    frows = [FakeRow(r) for r in rows]
    idx = {r.id: i for i, r in enumerate(frows)}
    Direct = controllers()['direct']
    tasks = wf_spec.get_tasks()
    res = {'validated': validated, 'outs': {}, 'valid_predicted': res0['valid_predicted']}
    for nm in spec['order']:
        res['outs'][nm] = sorted(wf_spec.find_outbound_task_names(nm))
    out = []
    for j in plan['joins']:
        c = Direct(wf_spec, frows)

        def f(c=c, j=j):
            ls = c._get_join_logical_state(tasks[j])
            return [ls.state, ls.cardinality, [idx[t['task_id']] for t in ls.triggered_by]]
        out.append(guarded(f))
    res['joins'] = out
    out = []
    for k, t in enumerate(plan['routes']):
        c = Direct(wf_spec, frows)
        cache = {} if k % 2 == 0 else None

        def f(c=c, t=t, cache=cache):
            if cache is None:
                cache = c._prepare_task_executions_cache(tasks[t])
            b, d = c._possible_route(tasks[t], cache, 1)
            return [bool(b), d]
        out.append(guarded(f))
    res['routes'] = out
    out = []
    for j, s in plan['induced']:
        c = Direct(wf_spec, frows)

        def f(c=c, j=j, s=s):
            cache = c._prepare_task_executions_cache(tasks[j])
            st, d, _ev = c._get_induced_join_state(tasks[s], cache[s], tasks[j], cache)
            return [st, d]
        out.append(guarded(f))
    res['induced'] = out
    out = []
    for i in plan['lts']:
        c = Direct(wf_spec, frows)
        out.append(guarded(lambda c=c, i=i: c.get_logical_task_state(frows[i]).state))
    res['lts'] = out
    out = []
    for t in plan['affected']:
        c = Direct(wf_spec, frows)
        out.append(guarded(lambda c=c, t=t: sorted(set(nat_of(spec, r.name) for r in c.find_indirectly_affected_task_executions(t)))))
    res['affected'] = out
    return res


def make_plan(spec, rows):
    joins = [nm for nm in spec['order'] if spec['tasks'][nm]['join'] is not None]
    return {
        'joins': joins,
        'routes': list(spec['order']),
        'induced': [(j, s) for j in joins for s in inbound_of(spec, j)],
        'lts': list(range(len(rows))),
        'affected': list(spec['order']),
    }


def canon_model(v):
    """Model tuple -> the same shape as direct_impl's canonical values."""
    v = flat(v)
    joins = [('ok', [x[0], x[1], x[2]]) if x[0] not in ('recursion', 'crash') else (x[0], None) for x in v[0]]
    routes = [('ok', [x[1], x[2]]) if x[0] == 'ok' else (x[0], None) for x in v[1]]
    induced = [('ok', [x[0], x[1]]) if x[0] not in ('recursion', 'crash') else (x[0], None) for x in v[2]]
    lts = [('ok', x) if x not in ('recursion', 'crash') else (x, None) for x in v[3]]
    aff = [('ok', sorted(set(x))) for x in v[4]]
    return {'joins': joins, 'routes': routes, 'induced': induced, 'lts': lts, 'affected': aff}


def canon_impl(res):
    def c(x):
        return (x[0], x[1] if x[0] == 'ok' else None)
    return {k: [c(x) for x in res[k]] for k in ('joins', 'routes', 'induced', 'lts', 'affected')}


# ---- the property, stated directly on rows (no model, no recursion) -----------

def k_of(join, total):
    return total if join == 'all' else (1 if join == 'one' else join)


def last_rows(rows):
    d = {}
    for r in rows:
        d[r['name']] = r
    return d


def startable(spec, rows):
    """Names without a row that can still get one: least fixpoint computed by a worklist (independent of the
    recursion scheme of the code)."""
    last = last_rows(rows)
    ok = set()
    changed = True
    while changed:
        changed = False
        for nm in spec['order']:
            if nm in last or nm in ok:
                continue
            ins = inbound_of(spec, nm)
            good = not ins
            for p in ins:
                if p in last:
                    r = last[p]
                    if r['state'] not in COMPLETED or nm in [x[0] for x in (r['next'] or [])]:
                        good = True
                elif p in ok:
                    good = True
            if good:
                ok.add(nm)
                changed = True
    return ok


def prescribed_join_state(spec, rows, j):
    """What the property text prescribes for join j on this row set."""
    ins = inbound_of(spec, j)
    if not ins:
        return 'RUNNING', 0, 0
    last = last_rows(rows)
    can = startable(spec, rows)
    k = k_of(spec['tasks'][j]['join'], len(ins))
    routed = 0
    dead = 0
    for s in ins:
        if s in last:
            r = last[s]
            if r['state'] in COMPLETED:
                if j in [x[0] for x in (r['next'] or [])]:
                    routed += 1
                else:
                    dead += 1
        elif s not in can:
            dead += 1
    if routed >= k:
        return 'RUNNING', routed, dead
    if len(ins) - dead < k:
        return 'ERROR', routed, dead
    return 'WAITING', routed, dead


def oracle_direct(ctx, case, impl):
    spec, rows = case['spec'], case['rows']
    if case['rows_mode'] in ('multi', 'malformed') or not impl['validated']:
        return      # several instances of one task / rows the engine never writes / rejected definitions: no claim
    if len(set(r['name'] for r in rows)) != len(rows):
        return
    for j, got in zip(case['plan']['joins'], impl['joins']):
        if not spec['tasks'][j]['join']:
            continue
        want, routed, dead = prescribed_join_state(spec, rows, j)
        ins = inbound_of(spec, j)
        k = k_of(spec['tasks'][j]['join'], len(ins))
        rep = {'kind': 'direct', 'yaml': case['yaml'], 'spec': spec, 'rows': rows, 'join': j,
               'required': want, 'observed': got, 'k': k, 'routed': routed, 'dead': dead, 'inbound': ins}
        if got[0] == 'ok':
            st = got[1][0]
            if st == want:
                continue
            if st == 'RUNNING':
                sig = 'join-premature-start'
                what = 'join %s reported RUNNING with %d of %d required inbound tasks completed and routed to it' % (j, routed, k)
            elif st == 'ERROR':
                sig = 'join-fails-while-reachable'
                what = 'join %s reported ERROR although %d inbound tasks can still route to it (needs %d)' % (j, len(ins) - dead, k)
            elif want == 'RUNNING':
                sig = 'join-not-started'
                what = 'join %s reported %s although %d >= %d inbound tasks completed and routed to it' % (j, st, routed, k)
            else:
                sig = 'join-waits-forever'
                what = 'join %s reported %s although only %d inbound tasks can still route to it (needs %d)' % (j, st, len(ins) - dead, k)
            ctx.fail(sig, what, rep)
        elif got[0] == 'recursion' and want in ('RUNNING', 'ERROR'):
            ctx.fail('join-stuck:unbounded-recursion-in-possible-route',
                     'join %s must be %s but _get_join_logical_state raises RecursionError (inbound branch with a cycle '
                     'of tasks that have no execution): the join stays WAITING forever' % (j, want), rep)
        elif got[0] == 'crash':
            ctx.fail('join-logical-state-crash:%s' % got[1], 'join %s: _get_join_logical_state raises %s' % (j, got[1]), rep)


# ---- corpus -------------------------------------------------------------------

def _t(join=None, **kw):
    d = {'join': join, 'on-success': [], 'on-error': [], 'on-complete': [], 'on-skip': []}
    for k, v in kw.items():
        d[k.replace('_', '-')] = [[x, None] if isinstance(x, str) else list(x) for x in v]
    return d


CORPUS_DIRECT = [
    # fork / join all, one branch via on-error, one conditional route that did not fire
    {'spec': {'order': ['t0', 't1', 't2', 't3'], 'defaults': None, 'tasks': {
        't0': _t(on_success=['t1', 't2']), 't1': _t(on_success=['t3']),
        't2': _t(on_error=['t3'], on_success=[('t3', '<% $.get(x, 0) = 1 %>')]), 't3': _t(join='all')}},
     'rows': [{'id': 'r0', 'name': 't0', 'state': 'SUCCESS', 'next': [['t1', 'on-success'], ['t2', 'on-success']]},
              {'id': 'r1', 'name': 't1', 'state': 'SUCCESS', 'next': [['t3', 'on-success']]},
              {'id': 'r2', 'name': 't2', 'state': 'SUCCESS', 'next': []},
              {'id': 'r3', 'name': 't3', 'state': 'WAITING', 'next': None}], 'rows_mode': 'run'},
    # join 2 of 3: two errors make it unreachable
    {'spec': {'order': ['t0', 't1', 't2', 't3'], 'defaults': None, 'tasks': {
        't0': _t(on_success=['t3']), 't1': _t(on_success=['t3']), 't2': _t(on_success=['t3']), 't3': _t(join=2)}},
     'rows': [{'id': 'r0', 'name': 't0', 'state': 'ERROR', 'next': []},
              {'id': 'r1', 'name': 't1', 'state': 'ERROR', 'next': []},
              {'id': 'r2', 'name': 't2', 'state': 'RUNNING', 'next': None}], 'rows_mode': 'run'},
    # a chain of 7 tasks without rows behind the join: beyond MAX_SEARCH_DEPTH
    {'spec': {'order': ['t8', 't0', 't1', 't2', 't3', 't4', 't5', 't6', 't7'], 'defaults': None, 'tasks': {
        't0': _t(on_success=['t1']), 't1': _t(on_success=['t2']), 't2': _t(on_success=['t3']), 't3': _t(on_success=['t4']),
        't4': _t(on_success=['t5']), 't5': _t(on_success=['t6']), 't6': _t(on_success=['t8']), 't7': _t(on_success=['t8']),
        't8': _t(join='all')}},
     'rows': [{'id': 'r0', 'name': 't0', 'state': 'ERROR', 'next': []},
              {'id': 'r1', 'name': 't7', 'state': 'SUCCESS', 'next': [['t8', 'on-success']]},
              {'id': 'r2', 'name': 't8', 'state': 'WAITING', 'next': None}], 'rows_mode': 'run'},
    # F-C04-1: inbound branch t3 <-> t1 cycle without executions, its only live entry t2 routed elsewhere
    {'spec': {'order': ['t0', 't1', 't2', 't5', 't3', 't4'], 'defaults': None, 'tasks': {
        't0': _t(on_success=['t4']), 't1': _t(on_success=['t3']), 't2': _t(on_success=['t3'], on_error=['t5']),
        't5': _t(), 't3': _t(on_success=['t4'], on_error=['t1']), 't4': _t(join='all')}},
     'rows': [{'id': 'r0', 'name': 't0', 'state': 'SUCCESS', 'next': [['t4', 'on-success']]},
              {'id': 'r1', 'name': 't2', 'state': 'ERROR', 'next': [['t5', 'on-error']]},
              {'id': 'r2', 'name': 't5', 'state': 'SUCCESS', 'next': []},
              {'id': 'r3', 'name': 't4', 'state': 'WAITING', 'next': None}], 'rows_mode': 'run'},
]


def run_direct_cases(ctx, cases, tag):
    exprs = []
    impls = []
    dist = ctx.cov['suites'].setdefault(tag, {'evaluations': 0, 'distinct_nontrivial': 0})
    modes = dist.setdefault('modes', {})
    outcomes = dist.setdefault('join_outcomes', {})
    for k, c in enumerate(cases):
        c['yaml'] = spec_yaml(c['spec'])
        c['plan'] = make_plan(c['spec'], c['rows'])
        impl = direct_impl(c['spec'], c['rows'], c['plan'], c['yaml'], check_validity=(k < ctx.n(5, 60)))
        if impl['validated'] != impl['valid_predicted']:
            ctx.disagree(tag + ':validity', {'yaml': c['yaml']}, impl['valid_predicted'], impl['validated'])
        # the generator's reading of the language (task-defaults, engine commands) vs the real spec class
        for nm in c['spec']['order']:
            mine = sorted(outs_of(c['spec'], nm))
            if mine != impl['outs'][nm]:
                ctx.disagree(tag + ':outbound', {'yaml': c['yaml'], 'task': nm}, mine, impl['outs'][nm])
        oracle_direct(ctx, c, impl)
        if c['rows_mode'] not in ('multi',):
            oracle_affected(ctx, c, impl)
        impls.append(impl)
        exprs.append(direct_model_expr(c['spec'], c['rows'], c['plan']))
        key = '%s/%s%s' % (c.get('spec_mode', 'corpus'), c['rows_mode'], '' if impl['validated'] else '/unvalidated')
        modes[key] = modes.get(key, 0) + 1
        for g in impl['joins']:
            o = g[1][0] if g[0] == 'ok' else g[0]
            outcomes[o] = outcomes.get(o, 0) + 1
    res = core.coq_eval('c04' + re.sub(r'\W', '', tag), IMPORTS, exprs, chunk=40)
    for c, impl, r in zip(cases, impls, res):
        if r is None:
            raise core.CoqEvalError('no value for case %r' % (c['yaml'],))
        model = canon_model(parse_coq(r))
        ci = canon_impl(impl)
        n_items = sum(len(v) for v in ci.values())
        ctx.count(tag, (c['yaml'], json.dumps(c['rows'], sort_keys=True)), nontrivial=bool(c['plan']['joins']), evaluations=n_items)
        ctx.cov['disagreements_checked'] += n_items
        for part in ('joins', 'routes', 'induced', 'lts', 'affected'):
            for item, m, i in zip(c['plan'][part], model[part], ci[part]):
                if json.loads(json.dumps(m)) != json.loads(json.dumps(i)):
                    ctx.disagree('%s:%s' % (tag, part), {'yaml': c['yaml'], 'rows': c['rows'], 'item': item}, m, i)
    if cases:
        ctx.sample({'suite': tag, 'yaml': cases[-1]['yaml'], 'rows': cases[-1]['rows'], 'impl_joins': impls[-1]['joins']})


def gen_direct_cases(ctx, n):
    rng = ctx.rng
    cases = []
    for _ in range(n):
        sm = rng.choice(['dag', 'dag', 'dag', 'chain', 'chain', 'cyclic', 'wild'])
        rm = rng.choice(['run', 'run', 'run', 'random', 'random', 'multi', 'malformed'])
        spec = gen_direct_spec(rng, sm)
        cases.append({'spec': spec, 'rows': gen_rows(rng, spec, rm), 'spec_mode': sm, 'rows_mode': rm})
    return cases


def suite_direct(ctx):
    run_direct_cases(ctx, [dict(c) for c in CORPUS_DIRECT], 'join_corpus')
    run_direct_cases(ctx, gen_direct_cases(ctx, ctx.n(400, 6000)), 'join')


# ---------------------------------------------------------------------------
# reverse workflows

REV_IMPORTS = ['Gen.States', 'Model.Reverse']


def gen_reverse_spec(rng, mode):
    n = rng.choice([1, 2, 3, 4, 5, 6, 8, 10])
    names = [tname(i) for i in range(n)]
    req = {}
    for i, nm in enumerate(names):
        pool = names[:i] if mode != 'cyclic' else names
        k = rng.choice([0, 0, 1, 1, 2, 3])
        r = [rng.choice(pool) for _ in range(k)] if pool else []
        if mode != 'wild':
            r = sorted(set(r), key=r.index)
        if mode == 'wild' and rng.random() < 0.2:
            r.append('t%d' % (n + rng.randrange(3)))             # a name that is not a task (unvalidated definitions only)
        if rng.random() < 0.1:
            r.append(nm)                                         # requires itself: discarded by get_task_requires
        req[nm] = r
    defaults = None
    if rng.random() < 0.15:
        defaults = [rng.choice(names)]
    order = names[:]
    rng.shuffle(order)
    return {'order': order, 'requires': req, 'defaults': defaults, 'target': rng.choice(names)}


def rev_requires(spec, nm):
    out = []
    for r in spec['requires'][nm] + (spec['defaults'] or []):
        if r != nm and r not in out:
            out.append(r)
    return out


def rev_yaml(spec):
    import yaml
    wf = {'type': 'reverse'}
    if spec['defaults']:
        wf['task-defaults'] = {'requires': spec['defaults']}
    wf['tasks'] = {}
    for nm in spec['order']:
        d = {'action': 'std.noop'}
        r = spec['requires'][nm]
        if r:
            d['requires'] = r[0] if (len(r) == 1 and len(nm) % 2 == 0) else r
        wf['tasks'][nm] = d
    return yaml.safe_dump({'version': '2.0', 'wf': wf}, sort_keys=False, default_flow_style=False)


def gen_rev_rows(rng, spec, mode):
    rows = []
    if mode == 'run':
        # a prefix of a plausible run: tasks whose requires succeeded get rows
        done = set()
        have = set()
        for _ in range(rng.randrange(0, 2 * len(spec['order']) + 1)):
            ready = [nm for nm in spec['order'] if nm not in have and all(r in done for r in rev_requires(spec, nm))]
            run = [r for r in rows if r['state'] == 'RUNNING']
            if ready and (not run or rng.random() < 0.5):
                nm = rng.choice(ready)
                have.add(nm)
                rows.append({'id': 'r%d' % len(rows), 'name': nm, 'state': 'RUNNING', 'next': None})
            elif run:
                r = rng.choice(run)
                r['state'] = rng.choice(['SUCCESS', 'SUCCESS', 'SUCCESS', 'ERROR', 'CANCELLED'])
                if r['state'] == 'SUCCESS':
                    done.add(r['name'])
    else:
        for nm in spec['order']:
            if rng.random() < 0.5:
                rows.append({'id': 'r%d' % len(rows), 'name': nm, 'state': rng.choice(STATES + ['SUCCESS'] * 4), 'next': None})
            if mode == 'multi' and rng.random() < 0.15:
                rows.append({'id': 'r%d' % len(rows), 'name': nm, 'state': rng.choice(['SUCCESS', 'ERROR', 'RUNNING']), 'next': None})
        rng.shuffle(rows)
    return rows


def rnat(nm):
    return int(nm[1:])


def coq_rspec(spec):
    return core.coq_list(['mkRT %d %s' % (rnat(nm), core.coq_list([str(rnat(r)) for r in rev_requires(spec, nm)]))
                          for nm in spec['order']])


def coq_rrows(rows):
    return core.coq_list(['mkRR %d %s' % (rnat(r['name']), COQ_STATE.get(r['state'], r['state'])) for r in rows])


def rev_closure(spec, target):
    """Tasks the target (transitively) requires - plain worklist."""
    seen = {target}
    work = [target]
    while work:
        x = work.pop()
        for r in rev_requires(spec, x):
            if r in spec['requires'] and r not in seen:
                seen.add(r)
                work.append(r)
    return seen


def oracle_reverse(ctx, spec, text, rows, got, tag='reverse'):
    """The property on what the real controller returned for this row set."""
    rep = {'kind': 'reverse', 'yaml': text, 'spec': spec, 'rows': rows, 'returned': got}
    names_with_row = set(r['name'] for r in rows)
    ok = set(r['name'] for r in rows if r['state'] == 'SUCCESS')
    clo = rev_closure(spec, spec['target'])
    if len(set(got)) != len(got):
        ctx.fail('reverse-task-twice', 'the reverse controller returns a task twice: %s' % got, rep)
    for t in got:
        missing = [r for r in rev_requires(spec, t) if r not in ok]
        if missing:
            ctx.fail('reverse-starts-before-requires', 'task %s is started although %s has not succeeded' % (t, missing), rep)
        if t in names_with_row:
            ctx.fail('reverse-task-started-again', 'task %s already has an execution and is started again' % t, rep)
        if t not in clo:
            ctx.fail('reverse-runs-unneeded-task', 'task %s is started although target %s does not depend on it' % (t, spec['target']), rep)
    for t in clo:
        if t not in names_with_row and t not in got and all(r in ok for r in rev_requires(spec, t)):
            ctx.fail('reverse-needed-task-not-started', 'task %s is needed, all it requires succeeded, but it is not started' % t, rep)


def reverse_impl(spec, text, rows, check_validity=False):
    wf_spec, validated = parse_spec(text, reverse_valid(spec), check_validity)
    frows = [FakeRow(r) for r in rows]
    Reverse = controllers()['reverse']
    c = Reverse(wf_spec, frows, spec['target'])
    got = guarded(lambda: [t.get_name() for t in c._find_task_specs_with_satisfied_dependencies()])
    sat = []
    for nm in spec['order']:
        sat.append(guarded(lambda nm=nm: bool(c._is_satisfied_task(wf_spec.get_tasks()[nm]))))
    reqs = {nm: sorted(wf_spec.get_task_requires(wf_spec.get_tasks()[nm])) for nm in spec['order']}
    return {'validated': validated, 'next': got, 'sat': sat, 'reqs': reqs}


CORPUS_REVERSE = [
    {'spec': {'order': ['t0', 't1', 't2', 't3'], 'requires': {'t0': ['t1', 't2'], 't1': ['t2'], 't2': [], 't3': ['t0']},
              'defaults': None, 'target': 't0'},
     'rows': [{'id': 'r0', 'name': 't2', 'state': 'SUCCESS', 'next': None}], 'rows_mode': 'run'},
    {'spec': {'order': ['t1', 't0', 't2'], 'requires': {'t0': ['t1'], 't1': [], 't2': ['t1']}, 'defaults': None, 'target': 't0'},
     'rows': [{'id': 'r0', 'name': 't1', 'state': 'ERROR', 'next': None}], 'rows_mode': 'run'},
]


def suite_reverse(ctx):
    rng = ctx.rng
    cases = [dict(c) for c in CORPUS_REVERSE]
    for _ in range(ctx.n(300, 5000)):
        sm = rng.choice(['dag', 'dag', 'dag', 'cyclic', 'wild'])
        rm = rng.choice(['run', 'run', 'random', 'multi'])
        spec = gen_reverse_spec(rng, sm)
        cases.append({'spec': spec, 'rows': gen_rev_rows(rng, spec, rm), 'rows_mode': rm, 'spec_mode': sm})
    exprs, impls = [], []
    dist = ctx.cov['suites'].setdefault('reverse', {'evaluations': 0, 'distinct_nontrivial': 0})
    modes = dist.setdefault('modes', {})
    sizes = dist.setdefault('returned_sizes', {})
    for k, c in enumerate(cases):
        spec, rows = c['spec'], c['rows']
        c['yaml'] = rev_yaml(spec)
        impl = reverse_impl(spec, c['yaml'], rows, check_validity=(k < ctx.n(5, 60)))
        impls.append(impl)
        if impl['validated'] != reverse_valid(spec):
            ctx.disagree('reverse:validity', {'yaml': c['yaml']}, reverse_valid(spec), impl['validated'])
        for nm in spec['order']:
            if sorted(rev_requires(spec, nm)) != impl['reqs'][nm]:
                ctx.disagree('reverse:requires', {'yaml': c['yaml'], 'task': nm}, sorted(rev_requires(spec, nm)), impl['reqs'][nm])
        if impl['next'][0] == 'ok' and impl['validated'] and c['rows_mode'] != 'multi':
            oracle_reverse(ctx, spec, c['yaml'], rows, impl['next'][1])
        elif impl['next'][0] != 'ok':
            ctx.fail('reverse-controller-crash:%s' % (impl['next'][1] or impl['next'][0]),
                     'ReverseWorkflowController._find_task_specs_with_satisfied_dependencies raises', {'kind': 'reverse', 'yaml': c['yaml'], 'spec': spec, 'rows': rows})
        key = '%s/%s%s' % (c.get('spec_mode', 'corpus'), c['rows_mode'], '' if impl['validated'] else '/unvalidated')
        modes[key] = modes.get(key, 0) + 1
        if impl['next'][0] == 'ok':
            k = str(len(impl['next'][1]))
            sizes[k] = sizes.get(k, 0) + 1
        exprs.append('reverse_out %s %s (fun sp rows => (next_tasks sp rows %d, map (fun n => (n, satisfied sp rows n)) %s))' % (
            coq_rspec(spec), coq_rrows(rows), rnat(spec['target']), core.coq_list([str(rnat(nm)) for nm in spec['order']])))
    res = core.coq_eval('c04reverse', REV_IMPORTS, exprs, chunk=60)
    for c, impl, r in zip(cases, impls, res):
        v = flat(parse_coq(r))
        m_next = sorted(v[0])
        m_sat = [bool(x[1]) for x in v[1]]
        i_next = sorted(rnat(t) for t in impl['next'][1]) if impl['next'][0] == 'ok' else impl['next'][0]
        i_sat = [x[1] if x[0] == 'ok' else x[0] for x in impl['sat']]
        ctx.count('reverse', (c['yaml'], json.dumps(c['rows'], sort_keys=True)), nontrivial=len(c['spec']['order']) > 1,
                  evaluations=1 + len(m_sat))
        ctx.cov['disagreements_checked'] += 1 + len(m_sat)
        if m_next != i_next:
            ctx.disagree('reverse:next_tasks', {'yaml': c['yaml'], 'rows': c['rows'], 'target': c['spec']['target']}, m_next, i_next)
        if m_sat != i_sat:
            ctx.disagree('reverse:satisfied', {'yaml': c['yaml'], 'rows': c['rows'], 'order': c['spec']['order']}, m_sat, i_sat)
    ctx.sample({'suite': 'reverse', 'yaml': cases[-1]['yaml'], 'rows': cases[-1]['rows'], 'returned': impls[-1]['next']})


def suite_reverse_runs(ctx):
    """Whole runs: the real controller is asked again and again while executions complete; vs Model rrun."""
    rng = ctx.rng
    Reverse = controllers()['reverse']
    exprs, finals, cases = [], [], []
    for _ in range(ctx.n(120, 2000)):
        spec = gen_reverse_spec(rng, rng.choice(['dag', 'dag', 'dag', 'cyclic']))
        text = rev_yaml(spec)
        wf_spec, validated = parse_spec(text, reverse_valid(spec))
        rows = []
        ops = []
        for _ in range(rng.randrange(1, 3 * len(spec['order']) + 3)):
            if not rows or rng.random() < 0.45:
                ops.append(('C',))
                frows = [FakeRow(r) for r in rows]
                got = [t.get_name() for t in Reverse(wf_spec, frows, spec['target'])._find_task_specs_with_satisfied_dependencies()]
                if validated:
                    oracle_reverse(ctx, spec, text, [dict(r) for r in rows], got, 'reverse_run')
                for t in sorted(got, key=rnat):
                    rows.append({'id': 'r%d' % len(rows), 'name': t, 'state': 'RUNNING', 'next': None})
            else:
                nm = rng.choice(spec['order'])
                st = rng.choice(['SUCCESS', 'SUCCESS', 'SUCCESS', 'ERROR', 'RUNNING', 'CANCELLED', 'PAUSED'])
                ops.append(('S', nm, st))
                for r in rows:
                    if r['name'] == nm and r['state'] not in COMPLETED:
                        r['state'] = st
        names = [r['name'] for r in rows]
        if len(set(names)) != len(names):
            ctx.fail('reverse-task-twice', 'a reverse run created two executions of one task: %s' % names,
                     {'kind': 'reverse_run', 'yaml': text, 'spec': spec, 'ops': ops})
        coq_ops = core.coq_list(['Continue' if o[0] == 'C' else 'SetState %d %s' % (rnat(o[1]), COQ_STATE.get(o[2], o[2])) for o in ops])
        exprs.append('show_rrows (rrun %s %d %s)' % (coq_rspec(spec), rnat(spec['target']), coq_ops))
        finals.append(sorted([rnat(r['name']), r['state']] for r in rows))
        cases.append({'yaml': text, 'ops': ops, 'target': spec['target']})
    res = core.coq_eval('c04revrun', REV_IMPORTS, exprs, chunk=60)
    for c, fin, r in zip(cases, finals, res):
        m = sorted([x[0], x[1]] for x in flat(parse_coq(r))) if r.strip() not in ('[]', 'nil') else []
        ctx.count('reverse_run', (c['yaml'], json.dumps(c['ops'])), nontrivial=len(fin) > 1, evaluations=len(c['ops']))
        ctx.cov['disagreements_checked'] += 1
        ctx.cov['traces_validated_against_impl'] += 1
        if m != fin:
            ctx.disagree('reverse_run', c, m, fin)


# ---------------------------------------------------------------------------
# created once, started once: the REAL Task.defer / _refresh_task_state bodies, one thread per transaction,
# every DB call a scheduling point, over an in-memory store with the transactional behaviour the code relies on

PROTO_IMPORTS = ['Model.JoinProto', 'Gen.Locks']


class _Blocked(Exception):
    pass


class TxStore(object):
    """Committed rows + named locks.  READ COMMITTED (fresh=True): a read sees what is committed now plus the
    transaction's own writes; fresh=False: the transaction keeps the snapshot of its first read.  A named lock is
    held until the transaction ends (models.NamedLock docstring).  unique=True: INSERT of an existing committed
    key raises DBDuplicateEntry, INSERT while another transaction has an uncommitted row of the key blocks."""

    def __init__(self, fresh, unique):
        self.fresh = fresh
        self.unique = unique
        self.committed = {}        # id -> dict(state=..., unique_key=...)
        self.lock_holder = {}      # name -> tx
        self.txs = []
        self.acts = 0              # committed acts (starts) for the refresh protocol

    def visible(self, tx):
        base = self.committed if (self.fresh or tx.snapshot is None) else tx.snapshot
        if tx.snapshot is None:
            tx.snapshot = {k: dict(v) for k, v in self.committed.items()}
            base = self.committed if self.fresh else tx.snapshot
        out = {k: dict(v) for k, v in base.items()}
        for k, v in tx.writes.items():
            out[k] = dict(v)
        return out


class Tx(object):
    """One transaction = one thread running real code; `point(kind)` parks it until the scheduler lets it go."""

    def __init__(self, store, pid, body):
        import threading
        self.store = store
        self.pid = pid
        self.body = body
        self.snapshot = None
        self.writes = {}
        self.held = []
        self.waiting_for = None     # kind of the DB call it is parked at
        self.want = None            # lock name / key it wants
        self.finished = False
        self.acted = False
        self.error = None
        self.trace = []
        self.go = threading.Semaphore(0)
        self.arrived = threading.Semaphore(0)
        self.thread = threading.Thread(target=self._main, daemon=True)

    def _main(self):
        try:
            while True:
                try:
                    self.body(self)
                    self.point('commit') if (self.held or self.acted) else None
                    self._commit()
                    break
                except _Retry:
                    self._rollback()
        except _Abort:
            return
        except BaseException as e:  # noqa
            self.error = '%s: %s' % (type(e).__name__, e)
        self.finished = True
        self.waiting_for = None
        self.arrived.release()

    def point(self, kind, want=None):
        self.waiting_for = kind
        self.want = want
        self.arrived.release()
        self.go.acquire()
        if getattr(self.store, 'abort', False):
            raise _Abort()
        self.trace.append(kind)

    def _commit(self):
        st = self.store
        for k, v in self.writes.items():
            st.committed[k] = dict(v)
        if self.acted:
            st.acts += 1
        self._end()

    def _rollback(self):
        self._end()

    def _end(self):
        st = self.store
        for nm in self.held:
            if st.lock_holder.get(nm) is self:
                del st.lock_holder[nm]
        self.held = []
        self.writes = {}
        self.snapshot = None
        self.acted = False


class _Retry(Exception):
    pass


class _Abort(BaseException):
    pass


def _blocked(store, tx):
    """Would the DB call the transaction is parked at block right now?"""
    if tx.waiting_for == 'lock':
        h = store.lock_holder.get(tx.want)
        return h is not None and h is not tx
    if tx.waiting_for == 'act' and store.unique and tx.want is not None:
        if any(r.get('unique_key') == tx.want for r in store.committed.values()):
            return False           # fails at once with a duplicate-key error
        return any(o is not tx and any(w.get('unique_key') == tx.want for w in o.writes.values()) for o in store.txs)
    return False


def run_schedule(store, bodies, sched):
    """Run the transactions under the schedule (list of pids); returns per-pid pc codes as the model prints them."""
    store.txs = [Tx(store, i, b) for i, b in enumerate(bodies)]
    for tx in store.txs:
        tx.thread.start()
        tx.arrived.acquire()
    for pid in sched:
        if pid >= len(store.txs):
            continue
        tx = store.txs[pid]
        if tx.finished or _blocked(store, tx):
            continue
        tx.go.release()
        tx.arrived.acquire()
    codes = []
    for tx in store.txs:
        if tx.finished:
            codes.append(6)
        else:
            codes.append({'check': 0, 'lock': 1, 'recheck': 2, 'act': 3, 'commit': 5 if tx.acted else 4}[tx.waiting_for])
    errors = [tx.error for tx in store.txs if tx.error]
    store.abort = True             # unpark and end the transactions that did not finish
    for tx in store.txs:
        if not tx.finished:
            tx.go.release()
    for tx in store.txs:
        tx.thread.join(5)
    return codes, errors


class _ThreadCurrent(object):
    """Which Tx the calling thread is."""

    def __init__(self):
        import threading
        self.local = threading.local()


_CUR = _ThreadCurrent()


def _tx():
    return _CUR.local.tx


class FakeTaskRow(object):
    def __init__(self, id, d, tx):
        self.id = id
        self.name = d.get('name', 'j')
        self.state = d['state']
        self.state_info = None
        self.unique_key = d.get('unique_key')
        self.runtime_context = {}
        self.executions = []
        self.workflow_execution_id = 'wf'
        self.workflow_execution = FakeWfEx([])
        self._tx = tx


def defer_harness():
    """A fake `db_api` for mistral.engine.tasks and a factory of bodies calling the REAL Task.defer."""
    from mistral.db.v2 import api as db_api  # noqa
    from mistral.engine import tasks as tasks_mod
    from mistral.lang import parser as spec_parser
    from oslo_db import exception as db_exc
    import contextlib

    wf_spec = spec_parser.get_workflow_list_spec_from_yaml(
        "version: '2.0'\nwf:\n  tasks:\n    a:\n      action: std.noop\n      on-success: [j]\n    b:\n      action: std.noop\n"
        "      on-success: [j]\n    j:\n      join: all\n      action: std.noop\n", validate=False).get_workflows()[0]
    KEY = 'join-task-wf-j'

    class WfEx(object):
        id = 'wf'
        workflow_name = 'wf'
        workflow_namespace = ''
        workflow_id = 'wfdef'
        project_id = 'p'
        params = {}

    class FakeDb(object):
        seq = [0]

        def get_task_executions(self, **kw):
            tx = _tx()
            kind = 'check' if 'state' in kw else 'recheck'
            tx.point(kind)
            out = []
            for id, r in tx.store.visible(tx).items():
                if r.get('unique_key') == kw.get('unique_key') and ('state' not in kw or r['state'] == kw['state']):
                    out.append(FakeTaskRow(id, r, tx))
            return out

        @contextlib.contextmanager
        def named_lock(self, name):
            tx = _tx()
            tx.point('lock', name)
            assert tx.store.lock_holder.get(name) in (None, tx)
            tx.store.lock_holder[name] = tx
            tx.held.append(name)
            yield
            # delete_named_lock: the row lock of the named_locks entry lives until the transaction ends

        def create_task_execution(self, values):
            tx = _tx()
            tx.point('act', values['unique_key'])
            st = tx.store
            if st.unique and any(r.get('unique_key') == values['unique_key'] for r in st.committed.values()):
                raise db_exc.DBDuplicateEntry()
            self.seq[0] += 1
            id = 'row%d' % self.seq[0]
            tx.writes[id] = {'state': values['state'], 'unique_key': values['unique_key'], 'name': values['name']}
            tx.acted = True
            return FakeTaskRow(id, tx.writes[id], tx)

    fake = FakeDb()

    def body(tx):
        _CUR.local.tx = tx
        t = tasks_mod.RegularTask(WfEx(), wf_spec, wf_spec.get_tasks()['j'], {}, task_ex=None, unique_key=KEY,
                                  waiting=True, triggered_by=[{'task_id': 'x', 'event': 'on-success'}])
        try:
            t.defer()
        except db_exc.DBDuplicateEntry:
            raise _Retry()      # db_utils.retry_on_db_error around the engine entry point
    return tasks_mod, fake, body, KEY


def probe_defer(existing_state, cyclic, known_trigger=False, started=True, still_impossible=False, wf_body=False):
    """What the REAL Task.defer does when the join execution already exists in `existing_state` (None = absent) and
    a task routes to it: 'create' | 'keep' | 'rearm' (put back to WAITING).  `started`: the execution has action
    executions (it ran) or none (it completed by its logical state only).  `still_impossible`: what the task's own
    test of its logical state (Task._is_still_impossible, where the source has it) answers - replaced here so that the
    probe never reaches the database.  Sequential, no race."""
    from unittest import mock
    from mistral.db.v2 import api as db_api  # noqa
    from mistral.engine import tasks as tasks_mod
    from mistral.lang import parser as spec_parser
    import contextlib
    text = ("version: '2.0'\nwf:\n  tasks:\n    a:\n      action: std.noop\n      on-success: [j]\n    b:\n      action: std.noop\n"
            "      on-success: [j]\n    j:\n      join: one\n      action: std.noop\n")
    if cyclic:
        text += "      on-success: [a]\n"
    wf_spec = spec_parser.get_workflow_list_spec_from_yaml(text, validate=False).get_workflows()[0]
    KEY = 'join-task-wf-j'
    effects = []

    class WfEx(object):
        id = 'wf'
        workflow_name = 'wf'
        workflow_namespace = ''
        workflow_id = 'wfdef'
        project_id = 'p'
        params = {}

    row = None
    if existing_state is not None:
        row = FakeTaskRow('row1', {'state': existing_state, 'unique_key': KEY, 'name': 'j'}, None)
        row.runtime_context = {'triggered_by': [{'task_id': 'ta', 'event': 'on-success'}]}
        # what the join ran: action executions, or - when its body is a sub-workflow (wf_body) - workflow executions only
        row.executions = [object()] if started else []
        row.action_executions = [] if wf_body else row.executions
        row.workflow_executions = row.executions if wf_body else []

    class FakeDb(object):
        def get_task_executions(self, **kw):
            if row is None or ('state' in kw and row.state != kw['state']):
                return []
            return [row]

        @contextlib.contextmanager
        def named_lock(self, name):
            yield

        def create_task_execution(self, values):
            effects.append('create')
            return FakeTaskRow('row2', {'state': values['state'], 'unique_key': values['unique_key'], 'name': 'j'}, None)

    def set_state(self, state, state_info, processed=None, first_run=False):
        effects.append('rearm' if state == 'WAITING' else 'set:%s' % state)
        return True
    class FakeQueue(object):
        @staticmethod
        def register_operation(func, args=None, in_tx=False):
            pass        # e.g. a workflow completion check: does not touch the join execution
    trig = [{'task_id': 'ta' if known_trigger else 'tb', 'event': 'on-success'}]
    with contextlib.ExitStack() as stack:
        stack.enter_context(mock.patch.object(tasks_mod, 'db_api', FakeDb()))
        stack.enter_context(mock.patch.object(tasks_mod.Task, 'set_state', set_state))
        stack.enter_context(mock.patch.object(tasks_mod, 'post_tx_queue', FakeQueue))
        if hasattr(tasks_mod.Task, '_is_still_impossible'):
            stack.enter_context(mock.patch.object(tasks_mod.Task, '_is_still_impossible', lambda self: still_impossible))
        t = tasks_mod.RegularTask(WfEx(), wf_spec, wf_spec.get_tasks()['j'], {}, task_ex=None, unique_key=KEY,
                                  waiting=True, triggered_by=trig)
        t.defer()
    return effects[0] if effects else 'keep'


def suite_defer_decision(ctx):
    """on_trigger of Model/JoinLife.v (with the re-arm flags of Gen/Locks.v) vs the real Task.defer."""
    abstract = {None: 'JAbsent', 'WAITING': 'JWaiting', 'RUNNING': 'JRunning', 'DELAYED': 'JRunning', 'PAUSED': 'JRunning',
                'IDLE': 'JRunning', 'SUCCESS': 'JDone', 'ERROR': 'JDone', 'CANCELLED': 'JDone', 'SKIPPED': 'JDone'}
    code = {'JAbsent': 0, 'JWaiting': 1, 'JRunning': 2, 'JDone': 3, 'JFailed': 4}
    exprs, obs, cases = [], [], []
    for cyclic in (False, True):
        for st in [None] + STATES:
            variants = [(True, False, False)]
            if st in COMPLETED:
                variants.append((True, False, True))       # the join's body is a sub-workflow: it HAS run
                variants.append((False, False, False))
                # a join that never started and still cannot run is not re-armed (where the source has that test)
                from mistral.engine import tasks as tasks_mod
                if hasattr(tasks_mod.Task, '_is_still_impossible'):
                    variants.append((False, True, False))
            for started, impossible, wf_body in variants:
                eff = probe_defer(st, cyclic, started=started, still_impossible=impossible, wf_body=wf_body)
                flag = 'defer_rearm_cyclic' if cyclic else 'defer_rearm_acyclic'
                a = abstract[st] if started else 'JFailed'
                # a never-started join is re-armed when it can run now, or - like one that ran - when it lies on a cycle
                exprs.append('jstate_code (on_trigger %s ((defer_rearm_unstarted && negb %s) || %s) %s)'
                             % (flag, 'true' if impossible else 'false', flag, a))
                # the state the real code leaves behind, abstracted the same way
                after = {'create': 'JWaiting', 'rearm': 'JWaiting', 'keep': a}.get(eff, eff)
                obs.append(code.get(after, after))
                cases.append({'existing': st, 'cyclic': cyclic, 'started': started, 'still_impossible': impossible, 'wf_body': wf_body, 'effect': eff})
    res = core.coq_eval('c04defer', ['Model.JoinLife', 'Gen.Locks'], exprs)
    for c, o, r in zip(cases, obs, res):
        ctx.count('defer_decision', json.dumps(c, sort_keys=True), nontrivial=c['existing'] is not None)
        ctx.cov['disagreements_checked'] += 1
        if str(o) != r.strip():
            ctx.disagree('defer_decision', c, r, o)
    ctx.cov['suites']['defer_decision']['effects'] = {
        '%s/%s/%s' % (c['existing'], 'cyclic' if c['cyclic'] else 'acyclic',
                      ('ran-sub-workflow' if c.get('wf_body') else 'ran') if c['started'] else ('never-ran-still-impossible' if c['still_impossible'] else 'never-ran')): c['effect']
        for c in cases}


def refresh_harness():
    """A fake environment for mistral.engine.task_handler and bodies calling the REAL _refresh_task_state."""
    from mistral.db.v2 import api as db_api  # noqa
    from mistral.engine import task_handler as th
    from mistral.workflow import base as wf_base
    import contextlib

    raw = th._refresh_task_state
    while hasattr(raw, '__wrapped__'):
        raw = raw.__wrapped__

    class FakeDb(object):
        @contextlib.contextmanager
        def transaction(self):
            yield

        def load_task_execution(self, id):
            tx = _tx()
            tx.point('check')
            r = tx.store.visible(tx).get(id)
            return FakeTaskRow(id, r, tx) if r else None

        @contextlib.contextmanager
        def named_lock(self, name):
            tx = _tx()
            tx.point('lock', name)
            assert tx.store.lock_holder.get(name) in (None, tx)
            tx.store.lock_holder[name] = tx
            tx.held.append(name)
            yield

        def refresh(self, obj):
            tx = _tx()
            tx.point('recheck')
            obj.state = tx.store.visible(tx)[obj.id]['state']

    class Ctrl(object):
        def get_logical_task_state(self, task_ex):
            return wf_base.TaskLogicalState('RUNNING', triggered_by=[])

    def continue_task(task_ex):
        tx = _tx()
        tx.point('act')
        tx.writes[task_ex.id] = {'state': 'RUNNING', 'unique_key': task_ex.unique_key, 'name': task_ex.name}
        task_ex.state = 'RUNNING'
        tx.acted = True

    def complete_task(task_ex, state, state_info):
        raise AssertionError('logical state is RUNNING')

    class SpecParser(object):
        @staticmethod
        def get_workflow_spec_by_execution_id(id):
            return None

    class WfBase(object):
        @staticmethod
        def get_controller(wf_ex, wf_spec):
            return Ctrl()

    patches = {'db_api': FakeDb(), 'continue_task': continue_task, 'complete_task': complete_task,
               'spec_parser': SpecParser, 'wf_base': WfBase}

    def body(tx):
        _CUR.local.tx = tx
        raw('join-row')
    return th, patches, body


def suite_proto(ctx):
    """Schedules x environments: real control flow over the store vs Model/JoinProto.run with the guards of Gen/Locks.v."""
    from unittest import mock
    from mistral.db.v2 import api as db_api  # noqa
    from mistral.db.v2.sqlalchemy import models
    rng = ctx.rng
    schema_unique = any(type(c).__name__ == 'UniqueConstraint' and [col.name for col in c.columns] == ['unique_key']
                        for c in models.TaskExecution.__table__.constraints)
    tasks_mod, fake_db, defer_body, KEY = defer_harness()
    th, patches, refresh_body = refresh_harness()
    n_cases = ctx.n(160, 2500)
    exprs, obs, cases = [], [], []
    dist = ctx.cov['suites'].setdefault('proto', {'evaluations': 0, 'distinct_nontrivial': 0})
    kinds = dist.setdefault('kinds', {})
    for k in range(n_cases):
        which = 'defer' if k % 2 == 0 else 'refresh'
        n = rng.choice([1, 2, 2, 3, 3, 4])
        fresh = rng.random() < 0.7
        unique = (rng.random() < 0.5) if which == 'defer' else False
        style = rng.choice(['random', 'random', 'rr', 'bursts'])
        L = rng.randrange(4, 9 * n + 4)
        if style == 'rr':
            sched = [i % n for i in range(L)]
        elif style == 'bursts':
            sched = []
            while len(sched) < L:
                sched += [rng.randrange(n)] * rng.randrange(1, 5)
        else:
            sched = [rng.randrange(n + (1 if rng.random() < 0.1 else 0)) for _ in range(L)]
        store = TxStore(fresh, unique)
        if which == 'defer':
            with mock.patch.object(tasks_mod, 'db_api', fake_db), mock.patch.object(tasks_mod, 'post_tx_queue', mock.Mock()):
                codes, errors = run_schedule(store, [defer_body] * n, sched)
            count = sum(1 for r in store.committed.values() if r.get('unique_key') == KEY)
            cfg = '(mkCfg defer_locked defer_recheck %s %s)' % (core.coq_bool(fresh), core.coq_bool(unique))
        else:
            store.committed['join-row'] = {'state': 'WAITING', 'unique_key': KEY, 'name': 'j'}
            with mock.patch.multiple(th, **patches):
                codes, errors = run_schedule(store, [refresh_body] * n, sched)
            count = store.acts
            cfg = '(mkCfg (refresh_locked && continue_locked) refresh_recheck %s false)' % core.coq_bool(fresh)
        case = {'kind': 'proto', 'which': which, 'n': n, 'fresh': fresh, 'unique': unique, 'sched': sched}
        if errors:
            ctx.disagree('proto:thread-error', case, 'no error', errors[:2])
        # the property, under the isolation level the code documents and the constraint the schema has
        if fresh and (which == 'refresh' or unique == schema_unique):
            if count > 1:
                ctx.fail('join-created-twice' if which == 'defer' else 'join-started-twice',
                         '%d transactions racing in %s: %d %s' % (n, 'Task.defer' if which == 'defer' else '_refresh_task_state',
                                                                   count, 'join rows with one unique key' if which == 'defer'
                                                                   else 'starts of one join execution'),
                         dict(case, observed=count, required='<= 1'))
            if all(c == 6 for c in codes) and count == 0:
                ctx.fail('join-%s-never' % ('created' if which == 'defer' else 'started'),
                         'all %d transactions finished and the join was %s %d times' % (n, 'created' if which == 'defer' else 'started', count),
                         dict(case, observed=count, required='= 1'))
        exprs.append('show_sys (run %s %d %s) %d' % (cfg, n, core.coq_list([str(x) for x in sched]), n))
        obs.append([count, codes])
        cases.append(case)
        kk = '%s/n=%d/%s/%s' % (which, n, 'rc' if fresh else 'rr-iso', 'uniq' if unique else 'nouniq')
        kinds[kk] = kinds.get(kk, 0) + 1
    res = core.coq_eval('c04proto', PROTO_IMPORTS, exprs, chunk=100)
    for c, o, r in zip(cases, obs, res):
        m = flat(parse_coq(r))
        m = [m[0], list(m[1])]
        ctx.count('proto', json.dumps(c, sort_keys=True), nontrivial=c['n'] > 1, evaluations=len(c['sched']))
        ctx.cov['disagreements_checked'] += 1
        ctx.cov['traces_validated_against_impl'] += 1
        if m != o:
            ctx.disagree('proto:' + c['which'], c, m, o)
    ctx.sample({'suite': 'proto', 'case': cases[-1], 'observed': obs[-1]})
    ctx.cov['suites']['proto']['schema_has_unique_key_constraint'] = schema_unique


# ---------------------------------------------------------------------------
# whole engine under the deterministic driver: implementation-side oracle only (trace correspondence with the
# engine model is the lead's suite, see engine_traces)

def engine_yaml(spec, wf_name):
    import yaml

    def clause(lst):
        return [({e[0]: e[1]} if e[1] else e[0]) for e in lst]
    wf = {'type': 'direct', 'tasks': {}}
    if spec['defaults']:
        wf['task-defaults'] = {ev: clause(l) for ev, l in spec['defaults'].items()}
    for nm in spec['order']:
        t = spec['tasks'][nm]
        d = {'action': 'verif.act tag="%s"' % nm}
        if t['join'] is not None:
            d['join'] = t['join']
        for ev in EVENTS[:3]:
            if t[ev]:
                d[ev] = clause(t[ev])
        wf['tasks'][nm] = d
    return yaml.safe_dump({'version': '2.0', wf_name: wf}, sort_keys=False, default_flow_style=False)


def gen_engine_spec(rng):
    """Small fork/join shapes: nested joins, joins fed by on-error / on-complete, conditional routes that fire or not."""
    while True:
        spec = gen_direct_spec(rng, rng.choice(['dag', 'dag', 'dag', 'chain', 'cyclic']))
        if len(spec['order']) > 9:
            continue
        for nm in spec['order']:
            spec['tasks'][nm]['on-skip'] = []
            for ev in EVENTS[:3]:
                lst = [e for e in spec['tasks'][nm][ev] if e[0] not in ('pause',)]
                for e in lst:
                    if e[1]:
                        e[1] = rng.choice(['<% $.get(x, 0) = 1 %>', '<% 1 = 1 %>'])
                spec['tasks'][nm][ev] = lst
        if spec['defaults']:
            spec['defaults'] = {ev: l for ev, l in spec['defaults'].items() if ev != 'on-skip'} or None
        for nm in spec['order']:
            j = spec['tasks'][nm]['join']
            if j is not None and j != 'all' and j != 'one':
                cnt = len(inbound_of(spec, nm))
                if j == 0 or j > cnt:
                    spec['tasks'][nm]['join'] = 'all' if cnt else None
            if spec['tasks'][nm]['join'] in ('all', 'one') and not inbound_of(spec, nm):
                spec['tasks'][nm]['join'] = None
        if direct_valid(spec) and any(spec['tasks'][nm]['join'] for nm in spec['order']):
            return spec


def is_acyclic(spec):
    color = {}

    def visit(n):
        color[n] = 1
        for o in outs_of(spec, n):
            if o in CMDS:
                continue
            if color.get(o) == 1:
                return False
            if o not in color and not visit(o):
                return False
        color[n] = 2
        return True
    return all(visit(n) for n in spec['order'] if n not in color)


def view_rows(v, wf='R'):
    """Task rows of the root workflow in creation order of their canonical ids: [{'name','state','next', 'cid'}]"""
    rows = []
    for cid, t in v['tasks'].items():
        m = re.match(r'^%s/(\w+)#(\d+)$' % re.escape(wf), cid)
        if not m:
            continue
        rows.append({'id': cid, 'name': m.group(1), 'k': int(m.group(2)), 'state': t['state'],
                     'next': t['next_tasks'] if t['state'] in COMPLETED else None})
    rows.sort(key=lambda r: (r['name'], r['k']))
    return rows


def oracle_engine_view(ctx, spec, v, rep, acyclic, seen):
    rows = view_rows(v)
    by_name = {}
    for r in rows:
        by_name.setdefault(r['name'], []).append(r)
    acts = {}
    for aid in v['actions']:
        m = re.match(r'^R/(\w+)#(\d+)!', aid)
        if m:
            acts.setdefault((m.group(1), int(m.group(2))), []).append(aid)
    for j in spec['order']:
        jk = spec['tasks'][j]['join']
        if not jk:
            continue
        jrows = by_name.get(j, [])
        if len(jrows) > 1:
            ctx.fail('join-created-twice:engine', 'join %s has %d task executions in one workflow execution' % (j, len(jrows)),
                     dict(rep, join=j))
        if not jrows or not acyclic or len(set(r['name'] for r in rows)) != len(rows):
            # joins on cycles, and definitions where a task with several inbound transitions ran more than once
            # (the code keeps ONE execution per name, see the TODOs in direct_workflow.py), are outside the oracle
            continue
        jr = jrows[-1]
        n_acts = len(acts.get((j, jr['k']), []))
        if n_acts > 1:
            partial = jk != 'all' and k_of(jk, len(inbound_of(spec, j))) < len(inbound_of(spec, j))
            ctx.fail('partial-join-rerun-by-late-branch' if partial else 'join-started-twice:engine',
                     'join %s (join: %s, %d inbound tasks) has %d action executions in one run' % (j, jk, len(inbound_of(spec, j)), n_acts),
                     dict(rep, join=j, observed='%d action executions' % n_acts, required='1'))
        started = jr['state'] not in ('WAITING',) and not (jr['state'] == 'ERROR' and n_acts == 0) and jr['state'] != 'CANCELLED'
        want, routed, dead = prescribed_join_state(spec, [r for r in rows if r['name'] != j], j)
        ins = inbound_of(spec, j)
        k = k_of(jk, len(ins))
        if (started or n_acts > 0) and (j, 'start') not in seen:
            seen.add((j, 'start'))
            if routed < k:
                ctx.fail('join-premature-start:engine',
                         'join %s is %s with %d action executions while %d of %d required inbound tasks completed and routed to it'
                         % (j, jr['state'], n_acts, routed, k), dict(rep, join=j, rows=rows))
        if jr['state'] == 'ERROR' and n_acts == 0 and (j, 'err') not in seen:
            seen.add((j, 'err'))
            if want != 'ERROR' and v['wf'].get('R', {}).get('state') not in ('ERROR', 'CANCELLED'):
                ctx.fail('join-fails-while-reachable:engine',
                         'join %s failed without running although %d inbound tasks can still route to it (needs %d)'
                         % (j, len(ins) - dead, k), dict(rep, join=j, rows=rows))


# partial join fed by three branches: under some completion orders a branch arrives after the join completed
DISCRIMINATOR = {'order': ['t0', 't1', 't2', 't3'], 'defaults': None, 'tasks': {
    't0': _t(on_success=['t3']), 't1': _t(on_success=['t3']), 't2': _t(on_success=['t3']), 't3': _t(join='one')}}
TWO_OF_THREE = {'order': ['t0', 't1', 't2', 't3', 't4'], 'defaults': None, 'tasks': {
    't0': _t(on_success=['t3']), 't1': _t(on_complete=['t3']), 't2': _t(on_error=['t3'], on_success=['t4']),
    't3': _t(join=2), 't4': _t()}}
CORPUS_ENGINE = [(DISCRIMINATOR, {}, [3, 5, 8, 1]), (TWO_OF_THREE, {'t2': 'err'}, [3, 8, 0])]


def suite_engine_oracle(ctx, n_specs=None):
    import random as _random
    from harness import engine_driver as ed
    rng = ctx.rng
    d = ed.Driver('legacy', ctx.seed)
    n_specs = n_specs or ctx.n(16, 160)
    dist = ctx.cov['suites'].setdefault('engine', {'evaluations': 0, 'distinct_nontrivial': 0})
    finals = dist.setdefault('final_wf_states', {})
    jstates = dist.setdefault('final_join_states', {})
    plan = []
    for ci, (cspec, couts, cseeds) in enumerate(CORPUS_ENGINE):
        for sd in cseeds:
            plan.append((cspec, dict({nm: 'ok' for nm in cspec['order']}, **couts), sd, 'corpus%d' % ci))
    for si in range(n_specs):
        spec = gen_engine_spec(rng)
        for rep_i in range(ctx.n(1, 2)):
            plan.append((spec, {nm: rng.choice(['ok', 'ok', 'ok', 'ok', 'ok', 'err']) for nm in spec['order']},
                         rng.randrange(1 << 30), 'g%d' % si))
    for spec, outcomes, sseed, label in plan:
        acyclic = is_acyclic(spec)
        name = 'wfc04_%s' % label
        text = engine_yaml(spec, name)
        for _once in (0,):
            d.reset(sseed)
            try:
                d.create_workflows(text)
            except Exception as e:
                ctx.disagree('engine:definition-rejected', {'yaml': text}, 'valid (generator)', '%s: %s' % (type(e).__name__, str(e)[:200]))
                break
            for nm, o in outcomes.items():
                d.oracle[(nm, None, None)] = ('ok', 1) if o == 'ok' else ('err', 'boom')
            rep = {'kind': 'engine', 'yaml': text, 'spec': spec, 'wf_name': name, 'outcomes': outcomes, 'schedule_seed': sseed}
            out, wid = d.start_workflow(name, {})
            seen = set()
            events = [0]

            def on_event(ev, out, spec=spec, rep=rep, acyclic=acyclic, seen=seen, events=events):
                events[0] += 1
                oracle_engine_view(ctx, spec, d.view(), rep, acyclic, seen)
            srng = _random.Random(sseed)
            oracle_engine_view(ctx, spec, d.view(), rep, acyclic, seen)
            d.run_schedule(srng, max_events=600, on_event=on_event)
            v = d.view()
            wf_state = v['wf'].get('R', {}).get('state')
            finals[str(wf_state)] = finals.get(str(wf_state), 0) + 1
            rows = view_rows(v)
            for j in spec['order']:
                if spec['tasks'][j]['join']:
                    st = [r['state'] for r in rows if r['name'] == j]
                    key = st[-1] if st else 'absent'
                    jstates[key] = jstates.get(key, 0) + 1
                    # joins of definitions with cycles are outside this oracle (a join can wait for itself by
                    # definition; a join routing directly to itself is re-armed but not refreshed)
                    if st and st[-1] == 'WAITING' and wf_state == 'RUNNING' and events[0] < 600 and acyclic:
                        errs = sorted(set(e['type'] for e in d.entry_errors))
                        ctx.fail('join-waits-forever:engine' + (':' + errs[0] if errs else ''),
                                 'the run is quiescent, workflow RUNNING, join %s still WAITING%s' % (
                                     j, ' (exceptions in jobs: %s)' % errs if errs else ''), dict(rep, join=j, rows=rows))
            ctx.count('engine', (text, sseed, json.dumps(outcomes, sort_keys=True)), nontrivial=True, evaluations=events[0] + 1)
            ctx.cov['traces_validated_against_impl'] += 1
    ctx.sample({'suite': 'engine', 'yaml': text, 'outcomes': outcomes, 'final': wf_state})


def engine_traces(ctx):
    """Whole-engine traces: the real engine against coq/Model/Engine.v (view after every event) plus the
    engine-level C04 oracles (join row unique, join started only with its cardinality met, started once)."""
    from harness import engine_trace as et
    et.trace_suite(ctx, ['C04'], ['plain', 'plain', 'operator'], 150, 2000, suite='engine_trace_C04')


def run(ctx):
    import time
    ctx.cov['rule'] = ('seeded generators: direct definitions (dag / long chains crossing MAX_SEARCH_DEPTH / cyclic / wild incl. '
                       'task-defaults, engine commands, join 0 and join > inbound) x row sets (prefix of a plausible run / random / '
                       'several rows per name / completed rows without next_tasks); reverse definitions x row sets and whole '
                       'runs; schedules of 1-4 racing transactions x isolation x unique constraint; engine runs under seeded '
                       'schedules; distinct = distinct (suite, definition, rows | ops | schedule); non-trivial = has a join / '
                       'more than one task / more than one transaction')
    times = ctx.cov.setdefault('suite_wall_s', {})
    for f in (suite_direct, suite_reverse, suite_reverse_runs, suite_proto, suite_defer_decision, suite_engine_oracle,
              engine_traces):
        t0 = time.time()
        f(ctx)
        times[f.__name__] = round(time.time() - t0, 1)
    # real engine, oracle only: joins whose body is a sub-workflow or an action, triggered by branches completing in any order
    t0 = time.time()
    from harness import engine_explore as ee
    ee.explore(ctx, ['C04'], ['joinsub'], ctx.n(16, 200), 4, suite='engine_explore_C04')
    times['engine_explore_C04'] = round(time.time() - t0, 1)
    ctx.cov['definitions_checked_by_real_validator'] = _VALIDATED['n']
    ctx.assumptions += [
        'a route condition either puts the target into next_tasks or not (expression evaluation is not modelled)',
        'DB semantics of the protocol model: READ COMMITTED reads, named lock held until the transaction ends, '
        'unique constraint on task_executions_v2.unique_key (models.NamedLock docstring, TaskExecution.__table_args__)',
        'stability theorems: one execution per task name, completed executions final (no rerun, no re-entered cycle)',
        'engine-level oracle: joins on cycles are checked for row uniqueness and (when prescribed) for not waiting forever only',
    ]


def oracle_only_direct(ctx, cases):
    for c in cases:
        c['yaml'] = spec_yaml(c['spec'])
        c['plan'] = {'joins': [nm for nm in c['spec']['order'] if c['spec']['tasks'][nm]['join'] is not None],
                     'routes': [], 'induced': [], 'lts': [], 'affected': []}
        oracle_direct(ctx, c, direct_impl(c['spec'], c['rows'], c['plan'], c['yaml']))


def oracle_affected(ctx, case, impl):
    """Completion of a task must refresh every join execution whose logical state it can change: a join with a row,
    reachable from the task through tasks that are not joins with a row (plain worklist search)."""
    spec, rows = case['spec'], case['rows']
    have = set(r['name'] for r in rows)
    for t, got in zip(case['plan']['affected'], impl['affected']):
        if got[0] != 'ok':
            continue
        seen, work, want = {t}, [o for o in outs_of(spec, t)], set()
        while work:
            x = work.pop()
            if x in seen or x in CMDS:
                continue
            seen.add(x)
            if spec['tasks'][x]['join'] and x in have:
                want.add(nat_of(spec, x))
                continue
            work.extend(outs_of(spec, x))
        if sorted(want) != got[1]:
            ctx.fail('join-not-refreshed' if want - set(got[1]) else 'refresh-of-unaffected-join',
                     'completion of %s refreshes joins %s, the joins depending on it are %s' % (t, got[1], sorted(want)),
                     {'kind': 'affected', 'yaml': case['yaml'], 'spec': spec, 'rows': rows, 'task': t,
                      'observed': got[1], 'required': sorted(want)})


def search(ctx):
    """Widened oracle-only search for a failing input (no model involved), bounded to a few minutes."""
    import time
    t0 = time.time()
    budget = 300 if ctx.tier == 'quick' else 900
    oracle_only_direct(ctx, [dict(c) for c in CORPUS_DIRECT])
    while time.time() - t0 < budget * 0.35 and not ctx.failures:
        oracle_only_direct(ctx, gen_direct_cases(ctx, 300))
    rng = ctx.rng
    while time.time() - t0 < budget * 0.5 and not ctx.failures:
        for _ in range(300):
            spec = gen_reverse_spec(rng, rng.choice(['dag', 'dag', 'cyclic']))
            rows = gen_rev_rows(rng, spec, rng.choice(['run', 'run', 'random']))
            text = rev_yaml(spec)
            impl = reverse_impl(spec, text, rows)
            if impl['next'][0] == 'ok' and impl['validated']:
                oracle_reverse(ctx, spec, text, rows, impl['next'][1])
    while time.time() - t0 < budget and not ctx.failures:
        suite_engine_oracle(ctx, n_specs=12)


def replay(obj):
    import logging
    logging.disable(logging.CRITICAL)
    r = obj.get('replay') or {}
    kind = r.get('kind')
    if r.get('kind') in ('engine-explore', 'engine-trace', 'engine-rerun'):
        from harness import engine_trace as _et     # engine-level replays (exploration, traces, rerun trees)
        return _et.replay_case(obj)
    ctx = core.Ctx('C04', 'quick', obj.get('seed', 0))
    if kind == 'direct':
        c = {'spec': r['spec'], 'rows': r['rows'], 'rows_mode': 'run'}
        oracle_only_direct(ctx, [c])
    elif kind == 'affected':
        c = {'spec': r['spec'], 'rows': r['rows'], 'rows_mode': 'run'}
        c['yaml'] = spec_yaml(c['spec'])
        c['plan'] = {'joins': [], 'routes': [], 'induced': [], 'lts': [], 'affected': [r['task']]}
        oracle_affected(ctx, c, direct_impl(c['spec'], c['rows'], c['plan'], c['yaml']))
    elif kind == 'reverse':
        impl = reverse_impl(r['spec'], r['yaml'], r['rows'])
        print('returned: %s' % (impl['next'],))
        if impl['next'][0] == 'ok':
            oracle_reverse(ctx, r['spec'], r['yaml'], r['rows'], impl['next'][1])
        else:
            ctx.fail('reverse-controller-crash', 'raises', r)
    elif kind == 'proto':
        replay_proto(ctx, r)
    elif kind == 'engine':
        replay_engine(ctx, r)
    else:
        print(json.dumps(obj, indent=1)[:4000])
        return 1
    for f in ctx.failures[:5]:
        print('STILL FAILS [%s] %s' % (f['signature'], f['what']))
    if not ctx.failures:
        print('the recorded input no longer violates the property (recorded: %s)' % obj.get('what'))
    return 1 if ctx.failures else 0


def replay_proto(ctx, r):
    from unittest import mock
    store = TxStore(r['fresh'], r['unique'])
    if r['which'] == 'defer':
        tasks_mod, fake_db, body, KEY = defer_harness()
        with mock.patch.object(tasks_mod, 'db_api', fake_db), mock.patch.object(tasks_mod, 'post_tx_queue', mock.Mock()):
            codes, errors = run_schedule(store, [body] * r['n'], r['sched'])
        count = sum(1 for x in store.committed.values() if x.get('unique_key') == KEY)
    else:
        th, patches, body = refresh_harness()
        store.committed['join-row'] = {'state': 'WAITING', 'unique_key': 'k', 'name': 'j'}
        with mock.patch.multiple(th, **patches):
            codes, errors = run_schedule(store, [body] * r['n'], r['sched'])
        count = store.acts
    print('%s: %d transactions, schedule %s -> %d (required %s)' % (r['which'], r['n'], r['sched'], count, r.get('required')))
    if count > 1 or (all(c == 6 for c in codes) and count != 1):
        ctx.fail('join-%s-not-once' % r['which'], 'count=%d' % count, r)


def replay_engine(ctx, r):
    import random as _random
    from harness import engine_driver as ed
    d = ed.Driver('legacy', 0)
    d.reset(r['schedule_seed'])
    d.create_workflows(r['yaml'])
    for nm, o in r['outcomes'].items():
        d.oracle[(nm, None, None)] = ('ok', 1) if o == 'ok' else ('err', 'boom')
    spec = r['spec']
    acyclic = is_acyclic(spec)
    seen = set()
    d.start_workflow(r['wf_name'], {})
    n = d.run_schedule(_random.Random(r['schedule_seed']), max_events=600,
                       on_event=lambda ev, out: oracle_engine_view(ctx, spec, d.view(), r, acyclic, seen))
    v = d.view()
    rows = view_rows(v)
    print('final workflow state %s; tasks %s' % (v['wf'].get('R', {}).get('state'), [(x['name'], x['state']) for x in rows]))
    for j in spec['order']:
        st = [x['state'] for x in rows if x['name'] == j]
        if spec['tasks'][j]['join'] and st and st[-1] == 'WAITING' and v['wf']['R']['state'] == 'RUNNING' and n < 600 and acyclic:
            ctx.fail('join-waits-forever:engine', 'join %s WAITING at quiescence' % j, r)


