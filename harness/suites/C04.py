"""C04 - no task starts before its prerequisites; a join runs exactly once (component level).

Ties the Coq models to the REAL code of /repo (never re-implementations):
  Model/Join.v     possible_route / induced / logical / logical_task_state / affected
     vs DirectWorkflowController._possible_route / _get_induced_join_state / _get_join_logical_state /
        get_logical_task_state / find_indirectly_affected_task_executions, instantiated on specs parsed by
        mistral.lang.parser from generated YAML, with _get_task_executions served from generated rows
  Model/Reverse.v  candidates / satisfied / next_tasks
     vs ReverseWorkflowController._find_task_specs_with_satisfied_dependencies / _is_satisfied_task
  Model/JoinProto.v (check - lock - re-check - insert)  vs the REAL Task.defer run by several creators against a real
     DB, the unique constraint on task_executions_v2.unique_key, and Gen/Locks.v extracted from the source
Oracles (no model involved): a join reported RUNNING has >= k inbound rows that are completed and list it in next_tasks;
ERROR only if k can no longer be reached (independent worklist search) and never an exception where the property
prescribes RUNNING/ERROR; WAITING only while k is still reachable; reverse: every returned task has all its requires
SUCCESS, has no row, lies in the requires-closure of the target, no duplicates; engine runs under the deterministic
driver: one row per join, children created once, only after k inbound completed and routed, no join left WAITING at
quiescence.

Self-test (scratch worktree, each gave VIOLATION): see MUTATIONS at the end of this docstring block.
"""
import json
import os
import re

from harness import core

GEN = ['States', 'Locks']

MANIFEST = {
    'level_text': 'filled below',
    'level_note': 'filled below',
    'technique': 'Coq proofs (induction over fuel / inbound lists / schedules, invariants) over hand models; '
                 'source-fact translator for the lock protocol; differential correspondence on the real controllers',
    'design_ref': '6 C04',
}

IMPORTS = ['Gen.States', 'Model.Join']
FUEL = 64           # > any acyclic depth of a generated spec; Python gives up at ~1000 frames
CMDS = {'fail': 1000, 'succeed': 1001, 'pause': 1002, 'noop': 1003}
STATES = ['IDLE', 'WAITING', 'RUNNING', 'DELAYED', 'PAUSED', 'SUCCESS', 'CANCELLED', 'ERROR', 'SKIPPED']
COMPLETED = ('SUCCESS', 'ERROR', 'CANCELLED', 'SKIPPED')
COQ_STATE = {'DELAYED': 'RUNNING_DELAYED'}
EVENTS = ['on-success', 'on-error', 'on-complete', 'on-skip']


# ---------------------------------------------------------------------------
# parsing of Coq values printed by vm_compute (lists, tuples, strings, nats, bools)

_TOK = re.compile(r'\s*(?:("(?:[^"]|"")*")|([\[\]();,])|([A-Za-z0-9_.\']+)|(%[a-z_]+))')


def parse_coq(text):
    toks = []
    pos = 0
    text = text.strip()
    while pos < len(text):
        m = _TOK.match(text, pos)
        if not m:
            raise ValueError('cannot tokenise %r at %d' % (text, pos))
        pos = m.end()
        if m.group(4):
            continue                       # scope annotation
        toks.append(m.group(1) or m.group(2) or m.group(3))
    toks.append(None)
    i = [0]

    def atom():
        t = toks[i[0]]
        i[0] += 1
        if t == '(':
            items = [expr()]
            while toks[i[0]] == ',':
                i[0] += 1
                items.append(expr())
            assert toks[i[0]] == ')', toks[i[0]]
            i[0] += 1
            if len(items) == 1:
                return items[0]
            return tuple(items)
        if t == '[':
            items = []
            if toks[i[0]] == ']':
                i[0] += 1
                return items
            items.append(expr())
            while toks[i[0]] == ';':
                i[0] += 1
                items.append(expr())
            assert toks[i[0]] == ']', toks[i[0]]
            i[0] += 1
            return items
        if t.startswith('"'):
            return t[1:-1].replace('""', '"')
        if t == 'true':
            return True
        if t == 'false':
            return False
        if t.isdigit():
            return int(t)
        return t

    def expr():
        return atom()
    v = expr()
    assert toks[i[0]] is None, toks[i[0]:]
    return v


def flat(t):
    """Coq prints nested pairs (a, b, c) flat already; normalise nested tuples to flat lists."""
    if isinstance(t, tuple):
        out = []
        for x in t:
            out.append(flat(x))
        return out
    if isinstance(t, list):
        return [flat(x) for x in t]
    return t


# ---------------------------------------------------------------------------
# direct workflows: generated specs and row sets

def tname(i):
    return 't%d' % i


def gen_direct_spec(rng, mode):
    """A direct workflow as a JSON-able dict.
    modes: dag (forks / nested joins), chain (long no-row chains crossing MAX_SEARCH_DEPTH), cyclic, wild."""
    n = rng.choice([2, 3, 4, 5, 6, 7, 8, 10, 12]) if mode != 'chain' else rng.choice([7, 8, 9, 10, 11])
    names = [tname(i) for i in range(n)]
    tasks = {nm: {'join': None, 'on-success': [], 'on-error': [], 'on-complete': [], 'on-skip': []} for nm in names}

    def add(src, dst, ev=None, cond=None):
        ev = ev or rng.choice(['on-success', 'on-success', 'on-success', 'on-error', 'on-complete', 'on-skip'
                               if rng.random() < 0.3 else 'on-success'])
        if cond is None:
            cond = rng.random() < 0.25
        if any(e[0] == dst for e in tasks[src][ev]):
            return
        tasks[src][ev].append([dst, '<% $.get(x, 0) = 1 %>' if cond else None])

    if mode == 'chain':
        # head -> c1 -> ... -> ck -> join, plus short branches into the join
        k = rng.choice([5, 6, 7, 8]) if n > 8 else n - 2
        k = min(k, n - 2)
        j = n - 1
        for i in range(k):
            add(names[i], names[i + 1] if i + 1 < k else names[j])
        for i in range(k, n - 1):
            add(names[i], names[j])
            if rng.random() < 0.4 and i > 0:
                add(names[rng.randrange(0, k)], names[i])
        tasks[names[j]]['join'] = rng.choice(['all', 'one', 2, 1])
    else:
        density = rng.choice([0.15, 0.25, 0.4])
        for a in range(n):
            for b in range(a + 1, n):
                if rng.random() < density:
                    add(names[a], names[b])
        if mode in ('cyclic', 'wild'):
            for _ in range(rng.choice([1, 1, 2, 3])):
                a = rng.randrange(n)
                b = rng.randrange(n)
                add(names[max(a, b)], names[min(a, b)])     # back edge or self loop
        for nm in names:
            if rng.random() < 0.12:
                tasks[nm][rng.choice(EVENTS[:3])].append([rng.choice(list(CMDS)), None])
    defaults = None
    if rng.random() < 0.2:
        defaults = {rng.choice(EVENTS[:3]): [[rng.choice(names), None]]}
    spec = {'order': names[:], 'tasks': tasks, 'defaults': defaults}
    rng.shuffle(spec['order'])
    # joins: on tasks with >= 1 inbound mostly; the clause is valid for the inbound count mostly
    for nm in names:
        if tasks[nm]['join'] is not None:
            continue
        cnt = len(inbound_of(spec, nm))
        p = 0.6 if cnt >= 2 else (0.15 if cnt == 1 else 0.03)
        if rng.random() < p:
            pool = ['all', 'all', 'one'] + list(range(1, cnt + 1))
            if mode == 'wild':
                pool += [0, cnt + 1, cnt + 2]
            tasks[nm]['join'] = rng.choice(pool)
    return spec


def outs_of(spec, nm):
    """find_outbound_task_names as the generator understands the language: per event the task's own clause,
    or - when that is empty - the task-defaults clause without the task itself."""
    out = []
    for ev in EVENTS:
        own = spec['tasks'][nm][ev]
        lst = own
        if not own and spec['defaults'] and spec['defaults'].get(ev):
            lst = [e for e in spec['defaults'][ev] if e[0] != nm]
        for e in lst:
            if e[0] not in out:
                out.append(e[0])
    return out


def inbound_of(spec, nm):
    return [s for s in spec['order'] if nm in outs_of(spec, s)]


def spec_yaml(spec, wf_name='wf'):
    import yaml

    def clause(lst):
        return [({e[0]: e[1]} if e[1] else e[0]) for e in lst]
    wf = {'type': 'direct'}
    if spec['defaults']:
        wf['task-defaults'] = {ev: clause(l) for ev, l in spec['defaults'].items()}
    wf['tasks'] = {}
    for nm in spec['order']:
        t = spec['tasks'][nm]
        d = {'action': 'std.noop'}
        if t['join'] is not None:
            d['join'] = t['join']
        for ev in EVENTS:
            if t[ev]:
                d[ev] = clause(t[ev])
        wf['tasks'][nm] = d
    return yaml.safe_dump({'version': '2.0', wf_name: wf}, sort_keys=False, default_flow_style=False)


def gen_rows(rng, spec, mode):
    """Row sets: 'run' = a prefix of a plausible execution (one row per name, created only when routed to),
    'random' = arbitrary states / next_tasks, 'multi' = several rows of a name, 'malformed' = completed rows
    without next_tasks."""
    names = spec['order']
    rows = []

    def mk(nm, state, nxt):
        rows.append({'id': 'r%d' % len(rows), 'name': nm, 'state': state, 'next': nxt})

    def pick_next(nm, bias):
        outs = [o for o in outs_of(spec, nm) if o not in CMDS]
        return [[o, rng.choice(EVENTS[:3])] for o in outs if rng.random() < bias]
    if mode == 'run':
        bias = rng.choice([0.5, 0.8, 1.0])
        frontier = [nm for nm in names if not inbound_of(spec, nm)]
        rng.shuffle(frontier)
        have = set()
        budget = rng.randrange(0, 2 * len(names) + 2)
        running = []
        for nm in frontier:
            mk(nm, 'RUNNING', None)
            have.add(nm)
            running.append(len(rows) - 1)
        while budget > 0 and running:
            budget -= 1
            i = running.pop(rng.randrange(len(running)))
            r = rows[i]
            r['state'] = rng.choice(['SUCCESS', 'SUCCESS', 'SUCCESS', 'ERROR', 'CANCELLED', 'SKIPPED'])
            r['next'] = pick_next(r['name'], bias)
            for o, _ in r['next']:
                if o not in have:
                    have.add(o)
                    mk(o, 'WAITING' if spec['tasks'][o]['join'] else rng.choice(['RUNNING', 'IDLE', 'RUNNING']), None)
                    if not spec['tasks'][o]['join'] or rng.random() < 0.3:
                        running.append(len(rows) - 1)
        for i in running:
            if rng.random() < 0.2:
                rows[i]['state'] = rng.choice(['DELAYED', 'PAUSED', 'IDLE', 'WAITING'])
        if rng.random() < 0.3:
            rng.shuffle(rows)
            for k, r in enumerate(rows):
                r['id'] = 'r%d' % k
    else:
        p_row = rng.choice([0.3, 0.5, 0.8])
        for nm in names:
            reps = 1
            if mode == 'multi' and rng.random() < 0.3:
                reps = rng.choice([2, 3])
            for _ in range(reps):
                if rng.random() < p_row:
                    st = rng.choice(STATES + ['SUCCESS', 'ERROR', 'SUCCESS'])
                    if st in COMPLETED:
                        nxt = pick_next(nm, rng.choice([0.3, 0.7, 1.0]))
                        if rng.random() < 0.1:
                            nxt.append([rng.choice(names), 'on-success'])      # a name that is not an outbound
                        if mode == 'malformed' and rng.random() < 0.3:
                            nxt = None
                    else:
                        nxt = None if rng.random() < 0.8 else []
                    mk(nm, st, nxt)
        rng.shuffle(rows)
        for k, r in enumerate(rows):
            r['id'] = 'r%d' % k
    return rows


# ---- the real controller on fake rows --------------------------------------

class FakeRow(object):
    def __init__(self, d):
        self.id = d['id']
        self.name = d['name']
        self.state = d['state']
        self.state_info = None
        self.next_tasks = None if d['next'] is None else [tuple(x) for x in d['next']]
        self.processed = d.get('processed', False)

    def __repr__(self):
        return 'Row(%s,%s,%s,%s)' % (self.id, self.name, self.state, self.next_tasks)


class FakeWfEx(object):
    id = 'wf-ex-id'
    state = 'RUNNING'

    def __init__(self, rows, params=None):
        self.task_executions = rows
        self.params = params or {}


def _select(rows, kw):
    out = []
    for r in rows:
        ok = True
        for k, v in kw.items():
            if k in ('fields', 'sort_keys'):
                continue
            val = getattr(r, k)
            if isinstance(v, dict):
                (op, arg), = v.items()
                if op != 'in':
                    raise AssertionError('unexpected filter %r' % (kw,))
                ok = ok and val in arg
            else:
                ok = ok and val == v
        if ok:
            out.append(r)
    return out


_CTRL = {}


def controllers():
    """Subclasses of the REAL controllers whose only override is the DB read."""
    if _CTRL:
        return _CTRL
    from mistral.db.v2 import api as db_api  # noqa: import order
    from mistral.workflow import direct_workflow, reverse_workflow

    class Direct(direct_workflow.DirectWorkflowController):
        def __init__(self, wf_spec, rows):
            self.wf_spec = wf_spec
            self.wf_ex = FakeWfEx(rows)

        def _get_task_executions(self, **kw):
            return _select(self.wf_ex.task_executions, kw)

    class Reverse(reverse_workflow.ReverseWorkflowController):
        def __init__(self, wf_spec, rows, target):
            self.wf_spec = wf_spec
            self.wf_ex = FakeWfEx(rows, {'task_name': target})

        def _get_task_executions(self, **kw):
            return _select(self.wf_ex.task_executions, kw)
    _CTRL['direct'] = Direct
    _CTRL['reverse'] = Reverse
    return _CTRL


_VALIDATED = {'n': 0}


def parse_spec(text, expect_valid=None, check_validity=False):
    """The spec object through the real parser.  Schema + semantic validation of the real parser costs ~1 s per
    definition (jsonschema re-checks its schema on every call), so it is run on a sample only
    (check_validity=True) and compared with the generator's own prediction `expect_valid`; the controller code
    under test does not depend on it.  Returns (spec, valid?)."""
    from mistral.db.v2 import api as db_api  # noqa: import order
    from mistral.lang import parser as spec_parser
    spec = spec_parser.get_workflow_list_spec_from_yaml(text, validate=False).get_workflows()[0]
    if not check_validity:
        return spec, bool(expect_valid)
    _VALIDATED['n'] += 1
    try:
        spec_parser.get_workflow_list_spec_from_yaml(text)
        return spec, True
    except Exception:
        return spec, False


def direct_valid(spec):
    """The generator's prediction of DirectWorkflowSpec.validate_semantics: a start task exists, every join has
    enough inbound tasks."""
    if not any(not inbound_of(spec, nm) for nm in spec['order']):
        return False
    for nm in spec['order']:
        j = spec['tasks'][nm]['join']
        if j is None or j == 0:
            continue
        cnt = len(inbound_of(spec, nm))
        if j == 'all' or j == 'one':
            if cnt < 1:
                return False
        elif cnt < j:
            return False
    return True


def reverse_valid(spec):
    for nm in spec['order']:
        r = spec['requires'][nm]
        if len(set(r)) != len(r) or any(x not in spec['requires'] for x in r):
            return False
    if spec['defaults'] and any(x not in spec['requires'] for x in spec['defaults']):
        return False
    return True


def guarded(fn):
    try:
        return ('ok', fn())
    except RecursionError:
        return ('recursion', None)
    except Exception as e:
        return ('crash', type(e).__name__)


# ---- model expressions -------------------------------------------------------

def nat_of(spec, nm):
    if nm in CMDS:
        return CMDS[nm]
    return int(nm[1:])


def coq_jkind(j):
    if j is None:
        return 'None'
    if j == 'all':
        return '(Some JAll)'
    if j == 'one':
        return '(Some (JNum 1))'
    return '(Some (JNum %d))' % j


def coq_jk(j):
    return 'JAll' if j == 'all' else ('(JNum 1)' if j == 'one' else '(JNum %d)' % j)


def coq_spec(spec):
    ts = []
    for nm in spec['order']:
        ts.append('mkTask %d %s %s' % (nat_of(spec, nm), coq_jkind(spec['tasks'][nm]['join']),
                                       core.coq_list([str(nat_of(spec, o)) for o in outs_of(spec, nm)])))
    return core.coq_list(ts)


def coq_rows(spec, rows):
    rs = []
    for i, r in enumerate(rows):
        nxt = 'None' if r['next'] is None else '(Some %s)' % core.coq_list([str(nat_of(spec, x[0])) for x in r['next']])
        rs.append('mkRow %d %d %s %s' % (i, nat_of(spec, r['name']), COQ_STATE.get(r['state'], r['state']), nxt))
    return core.coq_list(rs)


def direct_model_expr(spec, rows, plan):
    """One Coq expression computing everything the plan asks for."""
    parts = []
    parts.append(core.coq_list(['show_logical (logical %d sp rows %d %s)' % (FUEL, nat_of(spec, j), coq_jk(spec['tasks'][j]['join']))
                                for j in plan['joins']]))
    parts.append(core.coq_list(['show_pr (possible_route %d sp rows %d 1)' % (FUEL, nat_of(spec, t)) for t in plan['routes']]))
    parts.append(core.coq_list(['show_induced (induced %d sp rows %d %d)' % (FUEL, nat_of(spec, j), nat_of(spec, s))
                                for j, s in plan['induced']]))
    parts.append(core.coq_list(['show_state (logical_task_state %d sp rows (mkRow 0 %d %s None))' % (
        FUEL, nat_of(spec, rows[i]['name']), COQ_STATE.get(rows[i]['state'], rows[i]['state'])) for i in plan['lts']]))
    parts.append(core.coq_list(['affected sp rows %d' % nat_of(spec, t) for t in plan['affected']]))
    return 'direct_out %s %s (fun sp rows => (%s))' % (coq_spec(spec), coq_rows(spec, rows), ', '.join(parts))


def direct_impl(spec, rows, plan, text=None, check_validity=False):
    """The same plan on the REAL controller."""
    text = text or spec_yaml(spec)
    wf_spec, validated = parse_spec(text, direct_valid(spec), check_validity)
    res0 = {'valid_predicted': direct_valid(spec)}
    frows = [FakeRow(r) for r in rows]
    idx = {r.id: i for i, r in enumerate(frows)}
    Direct = controllers()['direct']
    tasks = wf_spec.get_tasks()
    res = {'validated': validated, 'outs': {}, 'valid_predicted': res0['valid_predicted']}
    for nm in spec['order']:
        res['outs'][nm] = sorted(wf_spec.find_outbound_task_names(nm))
    out = []
    for j in plan['joins']:
        c = Direct(wf_spec, frows)

        def f(c=c, j=j):
            ls = c._get_join_logical_state(tasks[j])
            return [ls.state, ls.cardinality, [idx[t['task_id']] for t in ls.triggered_by]]
        out.append(guarded(f))
    res['joins'] = out
    out = []
    for k, t in enumerate(plan['routes']):
        c = Direct(wf_spec, frows)
        cache = {} if k % 2 == 0 else None

        def f(c=c, t=t, cache=cache):
            if cache is None:
                cache = c._prepare_task_executions_cache(tasks[t])
            b, d = c._possible_route(tasks[t], cache, 1)
            return [bool(b), d]
        out.append(guarded(f))
    res['routes'] = out
    out = []
    for j, s in plan['induced']:
        c = Direct(wf_spec, frows)

        def f(c=c, j=j, s=s):
            cache = c._prepare_task_executions_cache(tasks[j])
            st, d, _ev = c._get_induced_join_state(tasks[s], cache[s], tasks[j], cache)
            return [st, d]
        out.append(guarded(f))
    res['induced'] = out
    out = []
    for i in plan['lts']:
        c = Direct(wf_spec, frows)
        out.append(guarded(lambda c=c, i=i: c.get_logical_task_state(frows[i]).state))
    res['lts'] = out
    out = []
    for t in plan['affected']:
        c = Direct(wf_spec, frows)
        out.append(guarded(lambda c=c, t=t: sorted(set(nat_of(spec, r.name) for r in c.find_indirectly_affected_task_executions(t)))))
    res['affected'] = out
    return res


def make_plan(spec, rows):
    joins = [nm for nm in spec['order'] if spec['tasks'][nm]['join'] is not None]
    return {
        'joins': joins,
        'routes': list(spec['order']),
        'induced': [(j, s) for j in joins for s in inbound_of(spec, j)],
        'lts': list(range(len(rows))),
        'affected': list(spec['order']),
    }


def canon_model(v):
    """Model tuple -> the same shape as direct_impl's canonical values."""
    v = flat(v)
    joins = [('ok', [x[0], x[1], x[2]]) if x[0] not in ('recursion', 'crash') else (x[0], None) for x in v[0]]
    routes = [('ok', [x[1], x[2]]) if x[0] == 'ok' else (x[0], None) for x in v[1]]
    induced = [('ok', [x[0], x[1]]) if x[0] not in ('recursion', 'crash') else (x[0], None) for x in v[2]]
    lts = [('ok', x) if x not in ('recursion', 'crash') else (x, None) for x in v[3]]
    aff = [('ok', sorted(set(x))) for x in v[4]]
    return {'joins': joins, 'routes': routes, 'induced': induced, 'lts': lts, 'affected': aff}


def canon_impl(res):
    def c(x):
        return (x[0], x[1] if x[0] == 'ok' else None)
    return {k: [c(x) for x in res[k]] for k in ('joins', 'routes', 'induced', 'lts', 'affected')}


# ---- the property, stated directly on rows (no model, no recursion) -----------

def k_of(join, total):
    return total if join == 'all' else (1 if join == 'one' else join)


def last_rows(rows):
    d = {}
    for r in rows:
        d[r['name']] = r
    return d


def startable(spec, rows):
    """Names without a row that can still get one: least fixpoint computed by a worklist (independent of the
    recursion scheme of the code)."""
    last = last_rows(rows)
    ok = set()
    changed = True
    while changed:
        changed = False
        for nm in spec['order']:
            if nm in last or nm in ok:
                continue
            ins = inbound_of(spec, nm)
            good = not ins
            for p in ins:
                if p in last:
                    r = last[p]
                    if r['state'] not in COMPLETED or nm in [x[0] for x in (r['next'] or [])]:
                        good = True
                elif p in ok:
                    good = True
            if good:
                ok.add(nm)
                changed = True
    return ok


def prescribed_join_state(spec, rows, j):
    """What the property text prescribes for join j on this row set."""
    ins = inbound_of(spec, j)
    if not ins:
        return 'RUNNING', 0, 0
    last = last_rows(rows)
    can = startable(spec, rows)
    k = k_of(spec['tasks'][j]['join'], len(ins))
    routed = 0
    dead = 0
    for s in ins:
        if s in last:
            r = last[s]
            if r['state'] in COMPLETED:
                if j in [x[0] for x in (r['next'] or [])]:
                    routed += 1
                else:
                    dead += 1
        elif s not in can:
            dead += 1
    if routed >= k:
        return 'RUNNING', routed, dead
    if len(ins) - dead < k:
        return 'ERROR', routed, dead
    return 'WAITING', routed, dead


def oracle_direct(ctx, case, impl):
    spec, rows = case['spec'], case['rows']
    if case['rows_mode'] in ('multi', 'malformed') or not impl['validated']:
        return      # several instances of one task / rows the engine never writes / rejected definitions: no claim
    if len(set(r['name'] for r in rows)) != len(rows):
        return
    for j, got in zip(case['plan']['joins'], impl['joins']):
        if not spec['tasks'][j]['join']:
            continue
        want, routed, dead = prescribed_join_state(spec, rows, j)
        ins = inbound_of(spec, j)
        k = k_of(spec['tasks'][j]['join'], len(ins))
        rep = {'kind': 'direct', 'yaml': case['yaml'], 'spec': spec, 'rows': rows, 'join': j,
               'required': want, 'observed': got, 'k': k, 'routed': routed, 'dead': dead, 'inbound': ins}
        if got[0] == 'ok':
            st = got[1][0]
            if st == want:
                continue
            if st == 'RUNNING':
                sig = 'join-premature-start'
                what = 'join %s reported RUNNING with %d of %d required inbound tasks completed and routed to it' % (j, routed, k)
            elif st == 'ERROR':
                sig = 'join-fails-while-reachable'
                what = 'join %s reported ERROR although %d inbound tasks can still route to it (needs %d)' % (j, len(ins) - dead, k)
            elif want == 'RUNNING':
                sig = 'join-not-started'
                what = 'join %s reported %s although %d >= %d inbound tasks completed and routed to it' % (j, st, routed, k)
            else:
                sig = 'join-waits-forever'
                what = 'join %s reported %s although only %d inbound tasks can still route to it (needs %d)' % (j, st, len(ins) - dead, k)
            ctx.fail(sig, what, rep)
        elif got[0] == 'recursion' and want in ('RUNNING', 'ERROR'):
            ctx.fail('join-stuck:unbounded-recursion-in-possible-route',
                     'join %s must be %s but _get_join_logical_state raises RecursionError (inbound branch with a cycle '
                     'of tasks that have no execution): the join stays WAITING forever' % (j, want), rep)
        elif got[0] == 'crash':
            ctx.fail('join-logical-state-crash:%s' % got[1], 'join %s: _get_join_logical_state raises %s' % (j, got[1]), rep)


# ---- corpus -------------------------------------------------------------------

def _t(join=None, **kw):
    d = {'join': join, 'on-success': [], 'on-error': [], 'on-complete': [], 'on-skip': []}
    for k, v in kw.items():
        d[k.replace('_', '-')] = [[x, None] if isinstance(x, str) else list(x) for x in v]
    return d


CORPUS_DIRECT = [
    # fork / join all, one branch via on-error, one conditional route that did not fire
    {'spec': {'order': ['t0', 't1', 't2', 't3'], 'defaults': None, 'tasks': {
        't0': _t(on_success=['t1', 't2']), 't1': _t(on_success=['t3']),
        't2': _t(on_error=['t3'], on_success=[('t3', '<% $.get(x, 0) = 1 %>')]), 't3': _t(join='all')}},
     'rows': [{'id': 'r0', 'name': 't0', 'state': 'SUCCESS', 'next': [['t1', 'on-success'], ['t2', 'on-success']]},
              {'id': 'r1', 'name': 't1', 'state': 'SUCCESS', 'next': [['t3', 'on-success']]},
              {'id': 'r2', 'name': 't2', 'state': 'SUCCESS', 'next': []},
              {'id': 'r3', 'name': 't3', 'state': 'WAITING', 'next': None}], 'rows_mode': 'run'},
    # join 2 of 3: two errors make it unreachable
    {'spec': {'order': ['t0', 't1', 't2', 't3'], 'defaults': None, 'tasks': {
        't0': _t(on_success=['t3']), 't1': _t(on_success=['t3']), 't2': _t(on_success=['t3']), 't3': _t(join=2)}},
     'rows': [{'id': 'r0', 'name': 't0', 'state': 'ERROR', 'next': []},
              {'id': 'r1', 'name': 't1', 'state': 'ERROR', 'next': []},
              {'id': 'r2', 'name': 't2', 'state': 'RUNNING', 'next': None}], 'rows_mode': 'run'},
    # a chain of 7 tasks without rows behind the join: beyond MAX_SEARCH_DEPTH
    {'spec': {'order': ['t8', 't0', 't1', 't2', 't3', 't4', 't5', 't6', 't7'], 'defaults': None, 'tasks': {
        't0': _t(on_success=['t1']), 't1': _t(on_success=['t2']), 't2': _t(on_success=['t3']), 't3': _t(on_success=['t4']),
        't4': _t(on_success=['t5']), 't5': _t(on_success=['t6']), 't6': _t(on_success=['t8']), 't7': _t(on_success=['t8']),
        't8': _t(join='all')}},
     'rows': [{'id': 'r0', 'name': 't0', 'state': 'ERROR', 'next': []},
              {'id': 'r1', 'name': 't7', 'state': 'SUCCESS', 'next': [['t8', 'on-success']]},
              {'id': 'r2', 'name': 't8', 'state': 'WAITING', 'next': None}], 'rows_mode': 'run'},
    # F-C04-1: inbound branch t3 <-> t1 cycle without executions, its only live entry t2 routed elsewhere
    {'spec': {'order': ['t0', 't1', 't2', 't5', 't3', 't4'], 'defaults': None, 'tasks': {
        't0': _t(on_success=['t4']), 't1': _t(on_success=['t3']), 't2': _t(on_success=['t3'], on_error=['t5']),
        't5': _t(), 't3': _t(on_success=['t4'], on_error=['t1']), 't4': _t(join='all')}},
     'rows': [{'id': 'r0', 'name': 't0', 'state': 'SUCCESS', 'next': [['t4', 'on-success']]},
              {'id': 'r1', 'name': 't2', 'state': 'ERROR', 'next': [['t5', 'on-error']]},
              {'id': 'r2', 'name': 't5', 'state': 'SUCCESS', 'next': []},
              {'id': 'r3', 'name': 't4', 'state': 'WAITING', 'next': None}], 'rows_mode': 'run'},
]


def run_direct_cases(ctx, cases, tag):
    exprs = []
    impls = []
    dist = ctx.cov['suites'].setdefault(tag, {'evaluations': 0, 'distinct_nontrivial': 0})
    modes = dist.setdefault('modes', {})
    outcomes = dist.setdefault('join_outcomes', {})
    for k, c in enumerate(cases):
        c['yaml'] = spec_yaml(c['spec'])
        c['plan'] = make_plan(c['spec'], c['rows'])
        impl = direct_impl(c['spec'], c['rows'], c['plan'], c['yaml'], check_validity=(k < ctx.n(12, 150)))
        if impl['validated'] != impl['valid_predicted']:
            ctx.disagree(tag + ':validity', {'yaml': c['yaml']}, impl['valid_predicted'], impl['validated'])
        # the generator's reading of the language (task-defaults, engine commands) vs the real spec class
        for nm in c['spec']['order']:
            mine = sorted(outs_of(c['spec'], nm))
            if mine != impl['outs'][nm]:
                ctx.disagree(tag + ':outbound', {'yaml': c['yaml'], 'task': nm}, mine, impl['outs'][nm])
        oracle_direct(ctx, c, impl)
        impls.append(impl)
        exprs.append(direct_model_expr(c['spec'], c['rows'], c['plan']))
        key = '%s/%s%s' % (c.get('spec_mode', 'corpus'), c['rows_mode'], '' if impl['validated'] else '/unvalidated')
        modes[key] = modes.get(key, 0) + 1
        for g in impl['joins']:
            o = g[1][0] if g[0] == 'ok' else g[0]
            outcomes[o] = outcomes.get(o, 0) + 1
    res = core.coq_eval('c04' + re.sub(r'\W', '', tag), IMPORTS, exprs, chunk=40)
    for c, impl, r in zip(cases, impls, res):
        if r is None:
            raise core.CoqEvalError('no value for case %r' % (c['yaml'],))
        model = canon_model(parse_coq(r))
        ci = canon_impl(impl)
        n_items = sum(len(v) for v in ci.values())
        ctx.count(tag, (c['yaml'], json.dumps(c['rows'], sort_keys=True)), nontrivial=bool(c['plan']['joins']), evaluations=n_items)
        ctx.cov['disagreements_checked'] += n_items
        for part in ('joins', 'routes', 'induced', 'lts', 'affected'):
            for item, m, i in zip(c['plan'][part], model[part], ci[part]):
                if json.loads(json.dumps(m)) != json.loads(json.dumps(i)):
                    ctx.disagree('%s:%s' % (tag, part), {'yaml': c['yaml'], 'rows': c['rows'], 'item': item}, m, i)
    if cases:
        ctx.sample({'suite': tag, 'yaml': cases[-1]['yaml'], 'rows': cases[-1]['rows'], 'impl_joins': impls[-1]['joins']})


def gen_direct_cases(ctx, n):
    rng = ctx.rng
    cases = []
    for _ in range(n):
        sm = rng.choice(['dag', 'dag', 'dag', 'chain', 'chain', 'cyclic', 'wild'])
        rm = rng.choice(['run', 'run', 'run', 'random', 'random', 'multi', 'malformed'])
        spec = gen_direct_spec(rng, sm)
        cases.append({'spec': spec, 'rows': gen_rows(rng, spec, rm), 'spec_mode': sm, 'rows_mode': rm})
    return cases


def suite_direct(ctx):
    run_direct_cases(ctx, [dict(c) for c in CORPUS_DIRECT], 'join_corpus')
    run_direct_cases(ctx, gen_direct_cases(ctx, ctx.n(400, 6000)), 'join')


# ---------------------------------------------------------------------------
# reverse workflows

REV_IMPORTS = ['Gen.States', 'Model.Reverse']


def gen_reverse_spec(rng, mode):
    n = rng.choice([1, 2, 3, 4, 5, 6, 8, 10])
    names = [tname(i) for i in range(n)]
    req = {}
    for i, nm in enumerate(names):
        pool = names[:i] if mode != 'cyclic' else names
        k = rng.choice([0, 0, 1, 1, 2, 3])
        r = [rng.choice(pool) for _ in range(k)] if pool else []
        if mode != 'wild':
            r = sorted(set(r), key=r.index)
        if mode == 'wild' and rng.random() < 0.2:
            r.append('t%d' % (n + rng.randrange(3)))             # a name that is not a task (unvalidated definitions only)
        if rng.random() < 0.1:
            r.append(nm)                                         # requires itself: discarded by get_task_requires
        req[nm] = r
    defaults = None
    if rng.random() < 0.15:
        defaults = [rng.choice(names)]
    order = names[:]
    rng.shuffle(order)
    return {'order': order, 'requires': req, 'defaults': defaults, 'target': rng.choice(names)}


def rev_requires(spec, nm):
    out = []
    for r in spec['requires'][nm] + (spec['defaults'] or []):
        if r != nm and r not in out:
            out.append(r)
    return out


def rev_yaml(spec):
    import yaml
    wf = {'type': 'reverse'}
    if spec['defaults']:
        wf['task-defaults'] = {'requires': spec['defaults']}
    wf['tasks'] = {}
    for nm in spec['order']:
        d = {'action': 'std.noop'}
        r = spec['requires'][nm]
        if r:
            d['requires'] = r[0] if (len(r) == 1 and len(nm) % 2 == 0) else r
        wf['tasks'][nm] = d
    return yaml.safe_dump({'version': '2.0', 'wf': wf}, sort_keys=False, default_flow_style=False)


def gen_rev_rows(rng, spec, mode):
    rows = []
    if mode == 'run':
        # a prefix of a plausible run: tasks whose requires succeeded get rows
        done = set()
        have = set()
        for _ in range(rng.randrange(0, 2 * len(spec['order']) + 1)):
            ready = [nm for nm in spec['order'] if nm not in have and all(r in done for r in rev_requires(spec, nm))]
            run = [r for r in rows if r['state'] == 'RUNNING']
            if ready and (not run or rng.random() < 0.5):
                nm = rng.choice(ready)
                have.add(nm)
                rows.append({'id': 'r%d' % len(rows), 'name': nm, 'state': 'RUNNING', 'next': None})
            elif run:
                r = rng.choice(run)
                r['state'] = rng.choice(['SUCCESS', 'SUCCESS', 'SUCCESS', 'ERROR', 'CANCELLED'])
                if r['state'] == 'SUCCESS':
                    done.add(r['name'])
    else:
        for nm in spec['order']:
            if rng.random() < 0.5:
                rows.append({'id': 'r%d' % len(rows), 'name': nm, 'state': rng.choice(STATES + ['SUCCESS'] * 4), 'next': None})
            if mode == 'multi' and rng.random() < 0.15:
                rows.append({'id': 'r%d' % len(rows), 'name': nm, 'state': rng.choice(['SUCCESS', 'ERROR', 'RUNNING']), 'next': None})
        rng.shuffle(rows)
    return rows


def rnat(nm):
    return int(nm[1:])


def coq_rspec(spec):
    return core.coq_list(['mkRT %d %s' % (rnat(nm), core.coq_list([str(rnat(r)) for r in rev_requires(spec, nm)]))
                          for nm in spec['order']])


def coq_rrows(rows):
    return core.coq_list(['mkRR %d %s' % (rnat(r['name']), COQ_STATE.get(r['state'], r['state'])) for r in rows])


def rev_closure(spec, target):
    """Tasks the target (transitively) requires - plain worklist."""
    seen = {target}
    work = [target]
    while work:
        x = work.pop()
        for r in rev_requires(spec, x):
            if r in spec['requires'] and r not in seen:
                seen.add(r)
                work.append(r)
    return seen


def oracle_reverse(ctx, spec, text, rows, got, tag='reverse'):
    """The property on what the real controller returned for this row set."""
    rep = {'kind': 'reverse', 'yaml': text, 'spec': spec, 'rows': rows, 'returned': got}
    names_with_row = set(r['name'] for r in rows)
    ok = set(r['name'] for r in rows if r['state'] == 'SUCCESS')
    clo = rev_closure(spec, spec['target'])
    if len(set(got)) != len(got):
        ctx.fail('reverse-task-twice', 'the reverse controller returns a task twice: %s' % got, rep)
    for t in got:
        missing = [r for r in rev_requires(spec, t) if r not in ok]
        if missing:
            ctx.fail('reverse-starts-before-requires', 'task %s is started although %s has not succeeded' % (t, missing), rep)
        if t in names_with_row:
            ctx.fail('reverse-task-started-again', 'task %s already has an execution and is started again' % t, rep)
        if t not in clo:
            ctx.fail('reverse-runs-unneeded-task', 'task %s is started although target %s does not depend on it' % (t, spec['target']), rep)
    for t in clo:
        if t not in names_with_row and t not in got and all(r in ok for r in rev_requires(spec, t)):
            ctx.fail('reverse-needed-task-not-started', 'task %s is needed, all it requires succeeded, but it is not started' % t, rep)


def reverse_impl(spec, text, rows, check_validity=False):
    wf_spec, validated = parse_spec(text, reverse_valid(spec), check_validity)
    frows = [FakeRow(r) for r in rows]
    Reverse = controllers()['reverse']
    c = Reverse(wf_spec, frows, spec['target'])
    got = guarded(lambda: [t.get_name() for t in c._find_task_specs_with_satisfied_dependencies()])
    sat = []
    for nm in spec['order']:
        sat.append(guarded(lambda nm=nm: bool(c._is_satisfied_task(wf_spec.get_tasks()[nm]))))
    reqs = {nm: sorted(wf_spec.get_task_requires(wf_spec.get_tasks()[nm])) for nm in spec['order']}
    return {'validated': validated, 'next': got, 'sat': sat, 'reqs': reqs}


CORPUS_REVERSE = [
    {'spec': {'order': ['t0', 't1', 't2', 't3'], 'requires': {'t0': ['t1', 't2'], 't1': ['t2'], 't2': [], 't3': ['t0']},
              'defaults': None, 'target': 't0'},
     'rows': [{'id': 'r0', 'name': 't2', 'state': 'SUCCESS', 'next': None}], 'rows_mode': 'run'},
    {'spec': {'order': ['t1', 't0', 't2'], 'requires': {'t0': ['t1'], 't1': [], 't2': ['t1']}, 'defaults': None, 'target': 't0'},
     'rows': [{'id': 'r0', 'name': 't1', 'state': 'ERROR', 'next': None}], 'rows_mode': 'run'},
]


def suite_reverse(ctx):
    rng = ctx.rng
    cases = [dict(c) for c in CORPUS_REVERSE]
    for _ in range(ctx.n(300, 5000)):
        sm = rng.choice(['dag', 'dag', 'dag', 'cyclic', 'wild'])
        rm = rng.choice(['run', 'run', 'random', 'multi'])
        spec = gen_reverse_spec(rng, sm)
        cases.append({'spec': spec, 'rows': gen_rev_rows(rng, spec, rm), 'rows_mode': rm, 'spec_mode': sm})
    exprs, impls = [], []
    dist = ctx.cov['suites'].setdefault('reverse', {'evaluations': 0, 'distinct_nontrivial': 0})
    modes = dist.setdefault('modes', {})
    sizes = dist.setdefault('returned_sizes', {})
    for k, c in enumerate(cases):
        spec, rows = c['spec'], c['rows']
        c['yaml'] = rev_yaml(spec)
        impl = reverse_impl(spec, c['yaml'], rows, check_validity=(k < ctx.n(12, 150)))
        impls.append(impl)
        if impl['validated'] != reverse_valid(spec):
            ctx.disagree('reverse:validity', {'yaml': c['yaml']}, reverse_valid(spec), impl['validated'])
        for nm in spec['order']:
            if sorted(rev_requires(spec, nm)) != impl['reqs'][nm]:
                ctx.disagree('reverse:requires', {'yaml': c['yaml'], 'task': nm}, sorted(rev_requires(spec, nm)), impl['reqs'][nm])
        if impl['next'][0] == 'ok' and impl['validated'] and c['rows_mode'] != 'multi':
            oracle_reverse(ctx, spec, c['yaml'], rows, impl['next'][1])
        elif impl['next'][0] != 'ok':
            ctx.fail('reverse-controller-crash:%s' % (impl['next'][1] or impl['next'][0]),
                     'ReverseWorkflowController._find_task_specs_with_satisfied_dependencies raises', {'kind': 'reverse', 'yaml': c['yaml'], 'spec': spec, 'rows': rows})
        key = '%s/%s%s' % (c.get('spec_mode', 'corpus'), c['rows_mode'], '' if impl['validated'] else '/unvalidated')
        modes[key] = modes.get(key, 0) + 1
        if impl['next'][0] == 'ok':
            k = str(len(impl['next'][1]))
            sizes[k] = sizes.get(k, 0) + 1
        exprs.append('reverse_out %s %s (fun sp rows => (next_tasks sp rows %d, map (fun n => (n, satisfied sp rows n)) %s))' % (
            coq_rspec(spec), coq_rrows(rows), rnat(spec['target']), core.coq_list([str(rnat(nm)) for nm in spec['order']])))
    res = core.coq_eval('c04reverse', REV_IMPORTS, exprs, chunk=60)
    for c, impl, r in zip(cases, impls, res):
        v = flat(parse_coq(r))
        m_next = sorted(v[0])
        m_sat = [bool(x[1]) for x in v[1]]
        i_next = sorted(rnat(t) for t in impl['next'][1]) if impl['next'][0] == 'ok' else impl['next'][0]
        i_sat = [x[1] if x[0] == 'ok' else x[0] for x in impl['sat']]
        ctx.count('reverse', (c['yaml'], json.dumps(c['rows'], sort_keys=True)), nontrivial=len(c['spec']['order']) > 1,
                  evaluations=1 + len(m_sat))
        ctx.cov['disagreements_checked'] += 1 + len(m_sat)
        if m_next != i_next:
            ctx.disagree('reverse:next_tasks', {'yaml': c['yaml'], 'rows': c['rows'], 'target': c['spec']['target']}, m_next, i_next)
        if m_sat != i_sat:
            ctx.disagree('reverse:satisfied', {'yaml': c['yaml'], 'rows': c['rows'], 'order': c['spec']['order']}, m_sat, i_sat)
    ctx.sample({'suite': 'reverse', 'yaml': cases[-1]['yaml'], 'rows': cases[-1]['rows'], 'returned': impls[-1]['next']})


def suite_reverse_runs(ctx):
    """Whole runs: the real controller is asked again and again while executions complete; vs Model rrun."""
    rng = ctx.rng
    Reverse = controllers()['reverse']
    exprs, finals, cases = [], [], []
    for _ in range(ctx.n(120, 2000)):
        spec = gen_reverse_spec(rng, rng.choice(['dag', 'dag', 'dag', 'cyclic']))
        text = rev_yaml(spec)
        wf_spec, validated = parse_spec(text, reverse_valid(spec))
        rows = []
        ops = []
        for _ in range(rng.randrange(1, 3 * len(spec['order']) + 3)):
            if not rows or rng.random() < 0.45:
                ops.append(('C',))
                frows = [FakeRow(r) for r in rows]
                got = [t.get_name() for t in Reverse(wf_spec, frows, spec['target'])._find_task_specs_with_satisfied_dependencies()]
                if validated:
                    oracle_reverse(ctx, spec, text, [dict(r) for r in rows], got, 'reverse_run')
                for t in sorted(got, key=rnat):
                    rows.append({'id': 'r%d' % len(rows), 'name': t, 'state': 'RUNNING', 'next': None})
            else:
                nm = rng.choice(spec['order'])
                st = rng.choice(['SUCCESS', 'SUCCESS', 'SUCCESS', 'ERROR', 'RUNNING', 'CANCELLED', 'PAUSED'])
                ops.append(('S', nm, st))
                for r in rows:
                    if r['name'] == nm and r['state'] not in COMPLETED:
                        r['state'] = st
        names = [r['name'] for r in rows]
        if len(set(names)) != len(names):
            ctx.fail('reverse-task-twice', 'a reverse run created two executions of one task: %s' % names,
                     {'kind': 'reverse_run', 'yaml': text, 'spec': spec, 'ops': ops})
        coq_ops = core.coq_list(['Continue' if o[0] == 'C' else 'SetState %d %s' % (rnat(o[1]), COQ_STATE.get(o[2], o[2])) for o in ops])
        exprs.append('show_rrows (rrun %s %d %s)' % (coq_rspec(spec), rnat(spec['target']), coq_ops))
        finals.append(sorted([rnat(r['name']), r['state']] for r in rows))
        cases.append({'yaml': text, 'ops': ops, 'target': spec['target']})
    res = core.coq_eval('c04revrun', REV_IMPORTS, exprs, chunk=60)
    for c, fin, r in zip(cases, finals, res):
        m = sorted([x[0], x[1]] for x in flat(parse_coq(r))) if r.strip() not in ('[]', 'nil') else []
        ctx.count('reverse_run', (c['yaml'], json.dumps(c['ops'])), nontrivial=len(fin) > 1, evaluations=len(c['ops']))
        ctx.cov['disagreements_checked'] += 1
        ctx.cov['traces_validated_against_impl'] += 1
        if m != fin:
            ctx.disagree('reverse_run', c, m, fin)


def engine_traces(ctx):
    pass


def run(ctx):
    ctx.cov['rule'] = 'distinct = distinct (suite, definition, row set / schedule); non-trivial = the definition has a join'
    for f in (suite_direct, suite_reverse, suite_reverse_runs, engine_traces):
        f(ctx)


def search(ctx):
    pass


def replay(obj):
    print(json.dumps(obj, indent=1)[:3000])
    return 1
