"""C06 - duplicate or redelivered messages have the effect of a single delivery (COMPONENT level).

Ties Model/Act.v to the real code of /repo:
  executor          DefaultExecutor.run_action/_do_run_action over the COMPLETE finite product
                    redelivered x safe_rerun x action_ex_id x {Result ok, Result error, Result cancel, plain
                    value, raises, times out} x is_sync x engine call 1 {ok, MistralException, other} x engine
                    call 2 {..} (864 points) x irrelevant variations (timeout given, mistral-lib / legacy action
                    class): fake action and engine-client objects, the real thread/timeout machinery
  executor_server   ExecutorServer.run_action on a context rebuilt by MistralContext.from_dict (how
                    `redelivered` is derived from the rpc context) composed with the real executor
  action_complete   RegularAction.complete on action-execution objects: every state x result class, and
                    random delivery sequences (duplicates, error-vs-genuine races)
  task_complete     Task.complete guards with the real Task.set_state over a fake db layer: every
                    cur x new x same-info x CAS outcome
  run_new           RegularTask._run_new: every state x waiting x policy effect; random sequences
  start_workflow_id DefaultEngine.start_workflow with wf_ex_id on the real DB (engine driver): random
                    sequences of start requests over a small id pool vs the model table
Oracle (no model involved), on the real engine booted by harness/engine_driver.py:
  every engine message of a run (start_task, on_action_complete) is delivered again, once or twice, at
  later points; a heartbeat-expiry result (the real handle_expired_actions) races the genuine result in
  both orders; executor requests are redelivered with the transport flag.  Required: final rows equal
  to the duplicate-free run, every action run exactly as often, no result accepted twice, a redelivered
  request for an unsafe action is not run and yields one error report.  Executor-level statements are
  also checked directly on every executor case.

Self-test (mutations of the anchored source in a scratch worktree; `VERIF_REPO=/tmp/wt_C06 ./check C06`; all gave VIOLATION
unless noted; the oracle signature that exposed each one is given):
  M1  default_executor.py  `if redelivered and not safe_rerun:` -> `if redelivered and safe_rerun:`
                           executor:unsafe-redelivery-ran, executor:unsafe-redelivery-reports, engine:unsafe-redelivery-ran
  M2  default_executor.py  send_error_back: `return None` -> `return error_result` (error reported on both channels)
                           executor:unsafe-redelivery-reports
  M3  default_executor.py  `if action_ex_id and (action.is_sync() or result.is_error()):` -> `if action_ex_id:`
                           executor:async-result-sent
  M4  default_executor.py  MistralException handler without `return send_error_back(msg)`
                           correspondence only (no-failing-input-found): a lost result, not a double one
  M5  executor_server.py   `redelivered = rpc_ctx.redelivered or False` -> `redelivered = False`
                           executor:unsafe-redelivery-ran
  M6  engine/actions.py    RegularAction.complete guard `states.is_completed(state)` -> `state == states.SUCCESS`
                           action:second-result-accepted
  M7  engine/tasks.py      Task.complete: `if self.is_completed() and not states.is_skipped(state): return` removed
                           task:completion-logic-twice, engine:duplicate-on_action_complete-changed-rows (sub-workflow result)
  M8  engine/tasks.py      _run_new: `if states.is_idle(state)` -> `if not states.is_completed(state)`
                           task:actions-scheduled-twice, engine:duplicate-start_task-changed-rows
  M9  default_engine.py    start_workflow: DBDuplicateEntryError handler re-raises
                           start:duplicate-id-wrong-execution
  M10 default_executor.py  time-out: the late result is used instead of raising "Timeout"
                           correspondence only (no-failing-input-found)
  M14 engine/tasks.py      Task.complete ignores the CAS result of set_state        task:completion-logic-twice
  M16 default_executor.py  unsafe redelivery: the action is run before the error is sent   executor:unsafe-redelivery-ran
  M20 mistral/context.py   from_dict no longer restores `redelivered`               executor:unsafe-redelivery-ran
  M11 action_handler.py    on_action_complete swallows the ValueError of a duplicate result: NOT flagged, correctly -
                           rows still equal the duplicate-free run (the property holds for this variant)
"""
import copy
import itertools
import json
import threading

from harness import core
from harness.core import coq_bool, coq_list, coq_nat

GEN = ['States']

MANIFEST = {
    'level_text': 'Coq theorems over Model/Act.v. Executor (DefaultExecutor._do_run_action): exhaustive case analysis '
                  'over its finite input space of 864 points (the enumeration is proved complete): unsafe redelivery '
                  '=> not run and exactly one error report; runs <= 1; at most one engine call succeeds, a second '
                  'only after a MistralException; reports are faithful; any number of redelivered copies of an unsafe '
                  'request => at most one run (induction). Action execution (RegularAction.complete): for ALL '
                  'delivery sequences the first result wins and a duplicate inserted anywhere changes nothing '
                  '(induction over lists), heartbeat race both orders. Task.complete/_run_new: for ALL sequences of '
                  'completions / start_task deliveries the completion logic and action scheduling run at most once. '
                  'start_workflow with an id: for ALL request sequences ids stay unique and a redelivered request '
                  'creates nothing. Model tied to the code by exhaustive/random differential runs of the real methods.',
    'level_note': 'Whole-engine statement (final view with duplicates = final view without): proved over Model/Engine.v '
                  'for join-free forward command-free definitions with constant guards (C06_duplicates_same_result_simple: '
                  'repeated start requests at any time and repeated results for action executions that already accepted '
                  'one, mixed with pauses/resumes, leave the executions per task, the final task states and the workflow '
                  'state unchanged); beyond that class (joins, cycles, engine commands, output) it is decided by trace '
                  'correspondence with injected duplicates plus the implementation-side oracle on the real engine. Trusted: threading/join semantics, SQLAlchemy primary-key uniqueness and '
                  'transaction rollback, the fake action / engine-client / db stubs used to drive the real methods; '
                  'one transaction = one atomic step.',
    'technique': 'Coq proof (finite case analysis + list induction) over hand model; exhaustive differential correspondence; '
                 'duplicate-injection oracle on the real engine',
    'design_ref': '6 C06',
}

IMPORTS = ['Gen.States', 'Model.Act']

OUTCOMES = ['ok', 'err', 'cancel', 'plain', 'raise', 'timeout']
COQ_OUTCOME = {'ok': 'RetOk', 'err': 'RetErr', 'cancel': 'RetCancel', 'plain': 'RetPlain', 'raise': 'Raises', 'timeout': 'TimesOut'}
ENG = ['ok', 'mistral', 'other']
COQ_ENG = {'ok': 'EOk', 'mistral': 'EMistral', 'other': 'EOther'}
COQ_KIND = {'ok': 'KOk', 'err': 'KErr', 'cancel': 'KCancel'}
STATE_NAMES = ['IDLE', 'WAITING', 'RUNNING', 'DELAYED', 'PAUSED', 'SUCCESS', 'CANCELLED', 'ERROR', 'SKIPPED']


def coq_state(s):
    return 'RUNNING_DELAYED' if s == 'DELAYED' else s


def state_from_coq(s):
    return 'DELAYED' if s == 'RUNNING_DELAYED' else s


# ---------------------------------------------------------------------------
# executor: fakes + the real DefaultExecutor

class FakeEngineClient:
    def __init__(self, outs):
        self.outs = list(outs)
        self.calls = []

    def on_action_complete(self, action_ex_id, result, wf_action=False, async_=False):
        from mistral import exceptions as exc
        i = len(self.calls)
        o = self.outs[i] if i < len(self.outs) else 'ok'
        kind = 'cancel' if result.is_cancel() else ('err' if result.is_error() else 'ok')
        self.calls.append((kind, o, action_ex_id))
        if o == 'mistral':
            raise exc.MistralException('cannot serialize')
        if o == 'other':
            raise RuntimeError('message bus is down')
        return None


class _Log:
    """stands in for default_executor.LOG: the time-out warning releases the blocked action"""

    def __init__(self, ev):
        self.ev = ev

    def warning(self, *a, **k):
        self.ev.set()

    def __getattr__(self, n):
        return lambda *a, **k: None


def _run_body(self):
    from mistral_lib import actions as ml
    self.runs += 1
    o = self.o
    if o == 'ok':
        return ml.Result(data={'v': 1})
    if o == 'err':
        return ml.Result(error='action error')
    if o == 'cancel':
        return ml.Result(error='cancelled', cancel=True)
    if o == 'plain':
        return {'plain': 7}
    if o == 'raise':
        raise RuntimeError('action raised')
    if o == 'timeout':
        self.ev.wait(10)
        return ml.Result(data='late')
    raise ValueError(o)


def make_action(outcome, sync, ev, lib):
    from mistral_lib import actions as ml

    if lib:
        class LibAct(ml.Action):
            def __init__(self):
                self.o, self.sync, self.ev, self.runs, self.ctxs = outcome, sync, ev, 0, []

            def is_sync(self):
                return self.sync

            def run(self, context):
                self.ctxs.append(context)
                return _run_body(self)

            def test(self, context):
                return None
        return LibAct()

    class LegacyAct(object):
        def __init__(self):
            self.o, self.sync, self.ev, self.runs, self.ctxs = outcome, sync, ev, 0, []

        def is_sync(self):
            return self.sync

        def run(self, context=None):
            self.ctxs.append(context)
            return _run_body(self)
    return LegacyAct()


def set_auth_ctx():
    from mistral import context as actx
    actx.set_ctx(actx.MistralContext(user_id='u', project_id='p', auth_token=None, is_admin=False))


def classify_ret(fn):
    from mistral import exceptions as exc
    try:
        r = fn()
    except exc.MistralException:
        return 'raiseM'
    except Exception:
        return 'raiseO'
    if r is None:
        return 'None'
    return 'R' + ('cancel' if r.is_cancel() else ('err' if r.is_error() else 'ok'))


def real_exec(case, via_server=False):
    """Run the real executor on one point. case: dict(red, safe, hasid, out, sync, e1, e2, with_timeout, lib[, ctxv])"""
    from unittest import mock
    from mistral.executors import default_executor as de
    set_auth_ctx()
    ev = threading.Event()
    eng = FakeEngineClient([case['e1'], case['e2']])
    act = make_action(case['out'], bool(case['sync']), ev, case.get('lib', True))
    timeout = 0.003 if case['out'] == 'timeout' else (30 if case.get('with_timeout') else None)
    aid = 'a-%d' % case.get('idn', 1) if case['hasid'] else (None if case.get('idn', 1) % 2 else '')
    with mock.patch.object(de.rpc, 'get_engine_client', lambda: eng), mock.patch.object(de, 'LOG', _Log(ev)):
        ex = de.DefaultExecutor()
        if via_server:
            from mistral.executors import executor_server
            from mistral import context as actx
            d = {'user': 'u', 'project_id': 'p', 'is_admin': False}
            if case['ctxv'] != 'missing':
                d['redelivered'] = case['ctxv']
            rpc_ctx = actx.MistralContext.from_dict(d)
            srv = executor_server.ExecutorServer(ex, setup_profiler=False)
            ret = classify_ret(lambda: srv.run_action(rpc_ctx, act, aid, bool(case['safe']), {}, timeout))
        else:
            ret = classify_ret(lambda: ex.run_action(act, aid, bool(case['safe']), {}, redelivered=bool(case['red']),
                                                     timeout=timeout))
    ev.set()
    calls = ''.join('%s:%s;' % (c[0], c[1]) for c in eng.calls)
    return {'runs': act.runs, 'calls': calls, 'ret': ret, 'raw_calls': eng.calls,
            'ctx_ok': all((c is not None) == case.get('lib', True) for c in act.ctxs)}


def coq_exec_in(case, red_expr=None):
    return '(mkExecIn %s %s %s %s %s %s %s)' % (
        red_expr or coq_bool(case['red']), coq_bool(case['safe']), coq_bool(case['hasid']), COQ_OUTCOME[case['out']],
        coq_bool(case['sync']), COQ_ENG[case['e1']], COQ_ENG[case['e2']])


def parse_show_exec(s):
    m = core.re.match(r'\((\d+),\s*"(.*?)",\s*"(.*?)"\)', s)
    return {'runs': int(m.group(1)), 'calls': m.group(2), 'ret': m.group(3)}


def exec_oracle(ctx, case, impl, redelivered):
    """The property's executor sentences, stated directly on what the fakes observed."""
    key = {k: case[k] for k in case if k != 'raw'}
    n_ok = sum(1 for c in impl['raw_calls'] if c[1] == 'ok')
    if redelivered and not case['safe']:
        if impl['runs'] != 0:
            ctx.fail('executor:unsafe-redelivery-ran', 'a redelivered request for an action not safe to re-run ran the action '
                     '%d time(s)' % impl['runs'], {'kind': 'executor', 'case': key, 'observed': _pub(impl)})
        n_err = sum(1 for c in impl['raw_calls'] if c[0] == 'err') + (1 if impl['ret'] == 'Rerr' else 0)
        if n_err != 1 or len(impl['raw_calls']) > 1:
            ctx.fail('executor:unsafe-redelivery-reports', 'a redelivered unsafe request must report exactly one error; '
                     'observed calls=%r returned=%s' % (impl['calls'], impl['ret']),
                     {'kind': 'executor', 'case': key, 'observed': _pub(impl)})
    if impl['runs'] > 1:
        ctx.fail('executor:ran-twice', 'the action was run %d times for one request' % impl['runs'],
                 {'kind': 'executor', 'case': key, 'observed': _pub(impl)})
    if n_ok > 1:
        ctx.fail('executor:two-results', 'two results were delivered to the engine for one request: %r' % impl['calls'],
                 {'kind': 'executor', 'case': key, 'observed': _pub(impl)})
    if not (redelivered and not case['safe']) and impl['runs'] == 1:
        # a run action reports at most one result, of the class it produced
        if not case['hasid'] and impl['raw_calls']:
            ctx.fail('executor:report-without-id', 'engine called although no action execution id was given',
                     {'kind': 'executor', 'case': key, 'observed': _pub(impl)})
        if case['hasid'] and not case['sync'] and case['out'] in ('ok', 'plain') and impl['raw_calls']:
            ctx.fail('executor:async-result-sent', 'the executor reported a result for an asynchronous action (which reports '
                     'for itself): %r' % impl['calls'], {'kind': 'executor', 'case': key, 'observed': _pub(impl)})


def _pub(impl):
    return {k: impl[k] for k in ('runs', 'calls', 'ret')}


def exec_product():
    for red, safe, hasid, out, sync, e1, e2 in itertools.product([0, 1], [0, 1], [0, 1], OUTCOMES, [0, 1], ENG, ENG):
        yield {'red': red, 'safe': safe, 'hasid': hasid, 'out': out, 'sync': sync, 'e1': e1, 'e2': e2}


def suite_executor(ctx):
    cases = list(exec_product())
    exprs = ['show_exec (do_run_action %s)' % coq_exec_in(c) for c in cases]
    model = [parse_show_exec(r) for r in core.coq_eval('c06exec', IMPORTS, exprs)]
    all_variants = [(False, True), (True, False), (True, True), (False, False)]
    dist = {}
    idn = 0
    for n, (c, m) in enumerate(zip(cases, model)):
        # every point of the domain runs on the real code; the irrelevant variations rotate in the quick tier
        variants = all_variants if ctx.thorough() else [all_variants[n % 2], all_variants[2 + n % 2]][:2]
        for wt, lib in variants:
            idn += 1
            cc = dict(c, with_timeout=wt, lib=lib, idn=idn)
            impl = real_exec(cc)
            ctx.count('executor', tuple(sorted(cc.items())), nontrivial=True)
            ctx.cov['disagreements_checked'] += 1
            dist[c['out']] = dist.get(c['out'], 0) + 1
            exec_oracle(ctx, cc, impl, bool(c['red']))
            if _pub(impl) != m or not impl['ctx_ok']:
                ctx.disagree('executor', cc, m, dict(_pub(impl), ctx_ok=impl['ctx_ok']))
    ctx.cov['suites']['executor']['by_outcome'] = dist
    ctx.cov['suites']['executor']['domain_points'] = len(cases)
    ctx.sample({'suite': 'executor', 'case': cases[437], 'model': model[437]})


CTXV = ['missing', None, False, True]


def suite_executor_server(ctx):
    """redelivered comes from the rpc context (`rpc_ctx.redelivered or False`)."""
    cases = []
    for ctxv in CTXV:
        for c in exec_product():
            if c['red'] == 0:       # the flag is not an input here: it is derived from the context
                cases.append(dict(c, ctxv=ctxv, lib=True, with_timeout=False))
    coq_v = {'missing': '(Some false)', None: 'None', False: '(Some false)', True: '(Some true)'}
    exprs = ['show_exec (do_run_action %s)' % coq_exec_in(c, '(derive_redelivered %s)' % coq_v[c['ctxv']]) for c in cases]
    model = [parse_show_exec(r) for r in core.coq_eval('c06srv', IMPORTS, exprs)]
    for c, m in zip(cases, model):
        impl = real_exec(c, via_server=True)
        ctx.count('executor_server', tuple(sorted((k, str(v)) for k, v in c.items())), nontrivial=True)
        ctx.cov['disagreements_checked'] += 1
        exec_oracle(ctx, dict(c, ctxv=str(c['ctxv'])), impl, c['ctxv'] is True)
        if _pub(impl) != m:
            ctx.disagree('executor_server', dict(c, ctxv=str(c['ctxv'])), m, _pub(impl))
    ctx.sample({'suite': 'executor_server', 'case': dict(cases[-7], ctxv=str(cases[-7]['ctxv'])), 'model': model[-7]})


# ---------------------------------------------------------------------------
# RegularAction.complete

class FakeActionEx:
    def __init__(self, state):
        self.id = 'ae-1'
        self.name = 'verif.fake'
        self.state = state
        self.accepted = False
        self.output = None
        self.task_execution = None

    def row(self):
        out = None if self.output is None else self.output.get('result')
        return (self.state, bool(self.accepted), out)


class FakeDesc:
    name = 'verif.fake'
    namespace = None

    def post_process_result(self, result):
        return result


def make_result(kind, p):
    from mistral_lib import actions as ml
    if kind == 'ok':
        return ml.Result(data=p)
    if kind == 'err':
        return ml.Result(error=p)
    return ml.Result(error=p, cancel=True)


def real_deliver(state, seq):
    """Deliver results to one (fake-row) action execution through the real RegularAction.complete."""
    from mistral.engine import actions
    ae = FakeActionEx(state)
    accepted = 0
    trace = []
    for kind, p in seq:
        before = ae.row()
        act = actions.RegularAction(FakeDesc(), ae)
        try:
            act.complete(make_result(kind, p))
            accepted += 1
            trace.append(('taken', before, ae.row()))
        except ValueError:
            trace.append(('raised', before, ae.row()))
    return ae.row(), accepted, trace


def coq_row(state, accepted=False, out=None):
    return '(mkARow %s %s %s)' % (coq_state(state), coq_bool(accepted), 'None' if out is None else '(Some %d)' % out)


SHOW_ROW = ('(let r := %s in (state_name (a_state (fst r)), a_accepted (fst r), '
            'match a_output (fst r) with Some n => S n | None => 0 end, snd r))')


def parse_row(s):
    m = core.re.match(r'\("(.*?)",\s*(true|false),\s*(\d+),\s*(\d+)\)', s)
    out = int(m.group(3))
    return (m.group(1), m.group(2) == 'true', None if out == 0 else out - 1), int(m.group(4))


def action_oracle(ctx, state, seq, trace):
    from mistral.workflow import states
    for how, before, after in trace:
        if states.is_completed(before[0]) and (how == 'taken' or before != after):
            ctx.fail('action:second-result-accepted', 'a result was delivered to an action execution that is already %s and '
                     'it was %s (row %r -> %r)' % (before[0], how, before, after),
                     {'kind': 'action_complete', 'state': state, 'deliveries': seq})
            return


def suite_action_complete(ctx):
    rng = ctx.rng
    cases = [(s, [(k, 1)]) for s in STATE_NAMES for k in ('ok', 'err', 'cancel')]
    cases += [('RUNNING', [('ok', 7), ('err', 8), ('ok', 7)]), ('RUNNING', [('err', 8), ('ok', 7)]),
              ('RUNNING', [('cancel', 3), ('ok', 7), ('ok', 7)])]
    for _ in range(ctx.n(1200, 20000)):
        s = rng.choice(['RUNNING'] * 6 + STATE_NAMES)
        base = [(rng.choice(['ok', 'ok', 'err', 'cancel']), rng.randrange(1, 50)) for _ in range(rng.randrange(1, 4))]
        seq = list(base)
        for _ in range(rng.randrange(0, 4)):      # duplicates of already delivered results, anywhere later
            i = rng.randrange(len(seq))
            seq.insert(rng.randrange(i + 1, len(seq) + 1), seq[i])
        cases.append((s, seq))
    exprs = [SHOW_ROW % ('deliver_all %s %s' % (coq_row(s), coq_list(['(%s, %d)' % (COQ_KIND[k], p) for k, p in seq])))
             for s, seq in cases]
    res = core.coq_eval('c06act', IMPORTS, exprs)
    lens = {}
    for (s, seq), r in zip(cases, res):
        mrow, macc = parse_row(r)
        mrow = (state_from_coq_name(mrow[0]), mrow[1], mrow[2])
        irow, iacc, trace = real_deliver(s, seq)
        ctx.count('action_complete', (s, tuple(seq)), nontrivial=len(seq) > 1 or s == 'RUNNING')
        ctx.cov['disagreements_checked'] += 1
        lens[len(seq)] = lens.get(len(seq), 0) + 1
        action_oracle(ctx, s, seq, trace)
        if (irow, iacc) != (mrow, macc):
            ctx.disagree('action_complete', {'state': s, 'deliveries': seq}, [mrow, macc], [irow, iacc])
    ctx.cov['suites']['action_complete']['sequence_lengths'] = lens
    ctx.sample({'suite': 'action_complete', 'state': cases[-1][0], 'deliveries': cases[-1][1]})


def state_from_coq_name(n):
    # state_name prints the python constant's VALUE ("DELAYED" for RUNNING_DELAYED)
    return n


# ---------------------------------------------------------------------------
# Task.complete guards / RegularTask._run_new on fake rows

class _Reached(Exception):
    pass


class _Obj(object):
    def __init__(self, **kw):
        self.__dict__.update(kw)


class _FakeDb(object):
    def __init__(self, cas_ok):
        self.cas_ok = cas_ok
        self.attempts = 0

    def update_task_execution_state(self, id, cur_state, state):
        self.attempts += 1
        if not self.cas_ok:
            return None
        return _task_ex(state)


def _task_ex(state, info=None):
    return _Obj(id='t-1', name='t', state=state, state_info=info, processed=False, started_at=None, finished_at=None,
                workflow_execution=None, workflow_execution_id='w-1', workflow_name='wf', workflow_namespace='',
                workflow_id='wd', type='ACTION', project_id='p', created_at=None, updated_at=None,
                action_executions=[], executions=[], runtime_context={})


def new_task(state, waiting=False, info=None):
    from mistral.engine import tasks
    t = tasks.RegularTask.__new__(tasks.RegularTask)
    t.task_ex = _task_ex(state, info)
    t.wf_ex = _Obj(id='w-1', name='wf', params={}, state='RUNNING')
    t.wf_spec = None
    t.task_spec = _Obj(get_name=lambda: 't')
    t.ctx = {}
    t.unique_key = None
    t.waiting = waiting
    t.triggered_by = None
    t.rerun = False
    t.reset_flag = False
    t.created = False
    t.state_changed = False
    return t


def real_task_complete(task, new, same_info, cas_ok):
    """Real Task.complete + real Task.set_state over a fake db layer; stops where the completion logic starts."""
    from unittest import mock
    from mistral.engine import tasks
    db = _FakeDb(cas_ok)

    def reached():
        raise _Reached()
    task._update_inbound_context = reached
    info = task.task_ex.state_info if same_info else 'other info'
    path = None
    with mock.patch.object(tasks, 'db_api', db):
        try:
            task.complete(new, info)
            path = 'CasLost' if db.attempts else 'Ignored'
        except _Reached:
            path = 'Logic'
    return task.task_ex.state, path


def real_run_new(task, waiting, pol):
    sched = []
    task.waiting = waiting

    def set_state(state, state_info, processed=None, first_run=False):
        task.task_ex.state = state
        return True

    def before():
        if pol is not None:
            task.task_ex.state = pol
    task.set_state = set_state
    task._before_task_start = before
    task._schedule_actions = lambda: sched.append(1)
    task._run_new()
    return task.task_ex.state, len(sched)


def suite_task_guards(ctx):
    rng = ctx.rng
    # -- inputs -------------------------------------------------------------
    tc_cases = list(itertools.product(STATE_NAMES, STATE_NAMES, [False, True], [False, True]))
    tc_seqs = [('RUNNING', [('SUCCESS', False, True)] * 3), ('RUNNING', [('ERROR', False, True), ('SUCCESS', False, True)])]
    for _ in range(ctx.n(300, 5000)):
        tc_seqs.append((rng.choice(['RUNNING', 'RUNNING', 'DELAYED', 'IDLE', 'WAITING', 'SUCCESS', 'ERROR', 'PAUSED']),
                        [(rng.choice(['SUCCESS', 'ERROR', 'CANCELLED']), rng.random() < 0.3, rng.random() < 0.8)
                         for _ in range(rng.randrange(1, 6))]))
    pols = [None] + STATE_NAMES
    rn_cases = list(itertools.product([False, True], pols, STATE_NAMES))
    rn_seqs = [('IDLE', [(False, None)] * 3)]
    for _ in range(ctx.n(300, 5000)):
        rn_seqs.append((rng.choice(['IDLE'] * 4 + STATE_NAMES),
                        [(rng.random() < 0.2, rng.choice([None, None, None, 'DELAYED', 'RUNNING', 'ERROR', 'WAITING']))
                         for _ in range(rng.randrange(1, 6))]))
    # -- the model, one coqc batch -------------------------------------------
    path_name = 'match snd r with Ignored => "Ignored" | CasLost => "CasLost" | Logic => "Logic" end'
    exprs = ['(let r := task_complete %s %s %s %s in (state_name (fst r), %s))' % (
        coq_state(c), coq_state(n), coq_bool(si), coq_bool(cas), path_name) for c, n, si, cas in tc_cases]
    exprs += ['(let r := complete_all %s %s in (state_name (fst r), snd r))' % (
        coq_state(s), coq_list(['(%s, %s, %s)' % (coq_state(n), coq_bool(si), coq_bool(cas)) for n, si, cas in seq]))
        for s, seq in tc_seqs]
    exprs += ['(let r := run_new %s %s %s in (state_name (fst r), snd r))' % (
        coq_bool(w), 'None' if p is None else '(Some %s)' % coq_state(p), coq_state(c)) for w, p, c in rn_cases]
    exprs += ['(let r := run_new_all %s %s in (state_name (fst r), snd r))' % (
        coq_state(s), coq_list(['(%s, %s)' % (coq_bool(w), 'None' if p is None else '(Some %s)' % coq_state(p))
                                for w, p in seq])) for s, seq in rn_seqs]
    res = core.coq_eval('c06task', IMPORTS, exprs)
    o1, o2, o3 = len(tc_cases), len(tc_cases) + len(tc_seqs), len(tc_cases) + len(tc_seqs) + len(rn_cases)

    def pair(r, num):
        m = core.re.match(r'\("(.*?)",\s*(?:"(.*?)"|(\d+))\)', r)
        return (m.group(1), int(m.group(3)) if num else m.group(2))
    # -- Task.complete: exhaustive single steps ---------------------------------
    for (c, n, si, cas), r in zip(tc_cases, res[:o1]):
        model = pair(r, False)
        impl = real_task_complete(new_task(c, info='stored info'), n, si, cas)
        ctx.count('task_complete', (c, n, si, cas))
        ctx.cov['disagreements_checked'] += 1
        if impl != model:
            ctx.disagree('task_complete', {'cur': c, 'new': n, 'same_info': si, 'cas_ok': cas}, model, impl)
    # -- sequences of completion requests with finished states on ONE task object -
    for (s, seq), r in zip(tc_seqs, res[o1:o2]):
        model = pair(r, True)
        t = new_task(s, info='stored info')
        logic = 0
        for n, si, cas in seq:
            _, path = real_task_complete(t, n, si, cas)
            logic += path == 'Logic'
        impl = (t.task_ex.state, logic)
        ctx.count('task_complete_seq', (s, tuple(seq)))
        ctx.cov['disagreements_checked'] += 1
        if logic > 1:
            ctx.fail('task:completion-logic-twice', 'the completion logic of one task (publishing, dispatch of follow-up tasks) '
                     'ran %d times' % logic, {'kind': 'task_complete', 'state': s, 'requests': seq})
        if impl != model:
            ctx.disagree('task_complete_seq', {'state': s, 'requests': seq}, model, impl)
    # -- _run_new: exhaustive single steps ----------------------------------------
    for (w, p, c), r in zip(rn_cases, res[o2:o3]):
        model = pair(r, True)
        impl = real_run_new(new_task(c), w, p)
        ctx.count('run_new', (w, p, c))
        ctx.cov['disagreements_checked'] += 1
        if impl != model:
            ctx.disagree('run_new', {'waiting': w, 'policy_sets': p, 'cur': c}, model, impl)
    # -- sequences of first-run start_task deliveries on ONE task object ------------
    for (s, seq), r in zip(rn_seqs, res[o3:]):
        model = pair(r, True)
        t = new_task(s)
        n = 0
        for w, p in seq:
            n += real_run_new(t, w, p)[1]
        impl = (t.task_ex.state, n)
        ctx.count('run_new_seq', (s, tuple(seq)))
        ctx.cov['disagreements_checked'] += 1
        if n > 1 and all(p != 'IDLE' for _, p in seq):
            ctx.fail('task:actions-scheduled-twice', 'redelivered start_task messages scheduled the actions of one task %d times' % n,
                     {'kind': 'run_new', 'state': s, 'deliveries': seq})
        if impl != model:
            ctx.disagree('run_new_seq', {'state': s, 'deliveries': seq}, model, impl)


# ---------------------------------------------------------------------------
# real engine (harness/engine_driver.py)

WF_TEMPLATES = {
    'linear': """
version: '2.0'
wf_linear:
  input: [x]
  tasks:
    t1:
      action: verif.act tag="a" value=<% $.x %>
      publish: {r: <% task().result %>}
      on-success: [t2]
    t2:
      action: verif.act tag="b" value=2
""",
    'forkjoin': """
version: '2.0'
wf_forkjoin:
  input: [x]
  tasks:
    s:
      action: verif.act tag="s" value=<% $.x %>
      on-success: [a, b]
    a:
      action: verif.act tag="a" value=1
      on-success: [j]
    b:
      action: verif.act tag="b" value=2
      on-success: [j]
    j:
      join: all
      action: verif.act tag="j" value=3
""",
    'onerror': """
version: '2.0'
wf_onerror:
  input: [x]
  tasks:
    t1:
      action: verif.act tag="a" value=<% $.x %>
      on-error: [h]
      on-success: [t2]
    h:
      action: verif.act tag="h" value=9
    t2:
      action: verif.act tag="b" value=2
""",
    'saferr': """
version: '2.0'
wf_saferr:
  input: [x]
  tasks:
    t1:
      action: verif.act tag="a" value=<% $.x %>
      safe-rerun: true
      on-complete: [t2]
    t2:
      action: verif.act tag="b" value=2
""",
    'subwf': """
version: '2.0'
wf_subwf:
  input: [x]
  tasks:
    t1:
      workflow: child x=<% $.x %>
      publish: {r: <% task().result %>}
      on-success: [t2]
    t2:
      action: verif.act tag="b" value=2
child:
  input: [x]
  output: {o: <% $.x %>}
  tasks:
    c1:
      action: verif.act tag="c" value=<% $.x %>
""",
}
ORACLES = [{}, {('a', None, None): ('err', 'boom')}, {('b', None, None): ('err', 'boom')}, {('a', None, None): ('raise',)},
           {('c', None, None): ('err', 'child failed')}]

_DRV = {}


def driver():
    """Boot the real engine once; definitions of all templates are created once (spec validation is the
    expensive part), runs are separated by soft_reset."""
    from harness.engine_driver import Driver
    if 'd' not in _DRV:
        d = _DRV['d'] = Driver('legacy', 0)
        for name in sorted(WF_TEMPLATES):
            d.create_workflows(WF_TEMPLATES[name])
    return _DRV['d']


def soft_reset(d, seed=0):
    """Driver.reset without dropping the workflow definitions: executions, scheduler rows and all driver state."""
    import collections
    import random
    from mistral.db.v2 import api as db_api
    from mistral import context as actx
    d.seed = seed
    d.uuid_rng = random.Random('uuid-run/%s' % seed)
    d.uuid_order = {}
    d.clock = 0
    d.pending = collections.OrderedDict()
    d.next_pid = 0
    d.oracle = {}
    d.calls = collections.Counter()
    d.entry_errors = []
    d.event_log = []
    d.cas_log = []
    actx.set_ctx(d._ctx())
    with db_api.transaction():
        db_api.delete_workflow_executions()
        db_api.delete_task_executions()
        db_api.delete_action_executions()
        db_api.delete_delayed_calls()
        db_api.delete_scheduled_jobs()


def _final(d):
    v = d.view()
    v = dict(v)
    v['pending'] = [p for p in v['pending'] if not p.startswith('job:_check_and_fix_integrity')]
    # error outputs are message texts (object addresses, ids): never compared
    v['wf'] = {k: (w if w['state'] == 'SUCCESS' else dict(w, output=None)) for k, w in v['wf'].items()}
    return v


def run_engine(tmpl, oracle, plan, seed=0):
    """One run of the real engine under FIFO delivery.  plan: list of duplicate injections
    {'msg': k, 'after': j, 'copies': 1|2} = the k-th delivered rpc/exec message is delivered again after j more
    original events; {'expire': k, 'order': 'before'|'after'} = the heartbeat checker fires before/after the k-th
    result message is delivered.  Returns (final view, action run counts, facts)."""
    from mistral.services import action_heartbeat_checker as hb
    d = driver()
    soft_reset(d, seed)
    for k, v in oracle.items():
        d.oracle[k] = v
    out, wid = d.start_workflow('wf_' + tmpl, {'x': 1})
    facts = {'dups': [], 'start': out}
    delivered = []     # rpc / exec items in delivery order
    due = []           # (fire_at_step, item, copies)
    nres = 0
    step = 0
    while step < 400:
        evs = [e for e in d.enabled() if not d._is_integrity_job(e)]
        # duplicates that are due go first
        now = [x for x in due if x[0] <= step]
        if now:
            for x in now:
                due.remove(x)
                for _ in range(x[2]):
                    it = copy.copy(x[1])
                    if it['kind'] == 'exec':
                        it['redelivered'] = True
                    before_runs = sum(d.calls.values())
                    before = _final(d)
                    o = d.redeliver(it)
                    facts['dups'].append({'what': d.describe(it), 'outcome': o, 'kind': it['kind'],
                                          'method': it['payload'].get('method'),
                                          'safe': it['payload'].get('safe_rerun'),
                                          'ran': sum(d.calls.values()) - before_runs,
                                          'rows_changed': {k: v for k, v in _final(d).items() if k != 'pending'} !=
                                                          {k: v for k, v in before.items() if k != 'pending'}})
            continue
        if not evs:
            if d._tick_non_integrity():
                continue
            break
        ev = evs[0]
        item = d.pending.get(ev[1]) if ev[0] == 'item' else None
        is_msg = item is not None and item['kind'] in ('rpc', 'exec')
        is_res = item is not None and item['kind'] == 'rpc' and item['payload']['method'] == 'on_action_complete' \
            and not item['payload']['kw']['wf_action']
        exp = None
        if is_res:
            exp = next((p for p in plan if p.get('expire') == nres), None)
            nres += 1
        if exp and exp['order'] == 'before':
            _expire(d, hb, facts)
        if item is not None:
            item = copy.copy(item)
        d.fire(ev)
        if exp and exp['order'] == 'after':
            _expire(d, hb, facts)
        if is_msg:
            k = len(delivered)
            delivered.append(item)
            for p in plan:
                if p.get('msg') == k:
                    due.append((step + 1 + p['after'], item, p['copies']))
        step += 1
    facts['messages'] = len(delivered)
    facts['results'] = nres
    facts['entry_errors'] = [(e['event'], e['type']) for e in d.entry_errors]
    return _final(d), dict(('%s' % (k,), v) for k, v in d.calls.items()), facts


def _expire(d, hb, facts):
    """the real heartbeat checker finds every running synchronous action expired"""
    saved = d.clock
    d.clock += 10 ** 7
    before = set(d.pending)
    d._call('handle_expired_actions', hb.handle_expired_actions)
    d.clock = saved
    # the checker's post-commit queue is part of the same event
    for pid in [p for p in d.pending if p not in before and d.pending[p]['kind'] == 'ptq']:
        d.fire(('item', pid))
    facts.setdefault('expired', 0)
    facts['expired'] += 1


def engine_oracle(ctx, tmpl, oi, plan, base, run):
    bview, bcalls, bfacts = base
    view, calls, facts = run
    rep = {'kind': 'engine', 'template': tmpl, 'oracle': oi, 'plan': plan}
    has_expire = any('expire' in p for p in plan)
    for dup in facts['dups']:
        if dup['kind'] == 'rpc' and dup['rows_changed']:
            ctx.fail('engine:duplicate-%s-changed-rows' % dup['method'], 'delivering %s a second time changed the stored rows'
                     % dup['what'], dict(rep, dup=dup))
            return
        if dup['kind'] == 'exec' and not dup['safe'] and dup['ran']:
            ctx.fail('engine:unsafe-redelivery-ran', 'a redelivered executor request for an action not safe to re-run ran the action',
                     dict(rep, dup=dup))
            return
    if not has_expire:
        if view != bview:
            diff = {k: [bview[k], view[k]] for k in view if view[k] != bview[k]}
            ctx.fail('engine:final-rows-differ', 'the run with duplicated messages ends with different rows than the duplicate-free run',
                     dict(rep, difference=_short(diff)))
            return
        safe_tags = {"('a', None)"} if tmpl == 'saferr' else set()
        for k in set(calls) | set(bcalls):
            if calls.get(k, 0) != bcalls.get(k, 0) and k not in safe_tags:
                ctx.fail('engine:action-ran-twice', 'action %s ran %d times with duplicated messages, %d times without'
                         % (k, calls.get(k, 0), bcalls.get(k, 0)), rep)
                return
    else:
        # a racing expiry: every action execution ends with exactly one accepted result and the run still finishes
        for a, row in view['actions'].items():
            if row['state'] not in ('SUCCESS', 'ERROR', 'CANCELLED') or not row['accepted']:
                ctx.fail('engine:race-leaves-action-open', 'after an expiry/result race action %s is %r' % (a, row), rep)
                return
        for k in set(calls) | set(bcalls):
            if calls.get(k, 0) > max(1, bcalls.get(k, 0)):
                ctx.fail('engine:action-ran-twice', 'action %s ran %d times' % (k, calls.get(k, 0)), rep)
                return
        if view['wf']['R']['state'] not in ('SUCCESS', 'ERROR'):
            ctx.fail('engine:race-run-not-finished', 'run is %s after an expiry/result race' % view['wf']['R']['state'], rep)


def _short(diff):
    s = json.dumps(diff, default=str)
    return json.loads(s) if len(s) < 4000 else s[:4000]


def gen_plan(rng, nmsgs, nres):
    plan = []
    if rng.random() < 0.25 and nres:
        plan.append({'expire': rng.randrange(nres), 'order': rng.choice(['before', 'after'])})
        return plan
    for _ in range(rng.randrange(1, 4)):
        plan.append({'msg': rng.randrange(nmsgs), 'after': rng.choice([0, 0, 1, 2, 5, 50]), 'copies': rng.choice([1, 1, 2])})
    return plan


ENGINE_CORPUS = [
    ('linear', 0, [{'msg': 0, 'after': 0, 'copies': 2}]),
    ('linear', 0, [{'msg': 2, 'after': 0, 'copies': 1}, {'msg': 2, 'after': 50, 'copies': 1}]),
    ('linear', 0, [{'msg': 1, 'after': 0, 'copies': 1}]),
    ('linear', 0, [{'expire': 0, 'order': 'before'}]),
    ('linear', 0, [{'expire': 0, 'order': 'after'}]),
    ('saferr', 0, [{'msg': 1, 'after': 0, 'copies': 1}]),
    ('forkjoin', 0, [{'msg': 3, 'after': 1, 'copies': 2}, {'msg': 5, 'after': 0, 'copies': 1}]),
    ('subwf', 0, [{'msg': 2, 'after': 0, 'copies': 1}, {'msg': 3, 'after': 2, 'copies': 2}]),
    ('onerror', 1, [{'msg': 2, 'after': 0, 'copies': 2}]),
]


def suite_engine_dups(ctx, n=None):
    rng = ctx.rng
    bases = {}
    todo = list(ENGINE_CORPUS)
    names = sorted(WF_TEMPLATES)
    for _ in range(n if n is not None else ctx.n(60, 800)):
        todo.append((rng.choice(names), rng.randrange(len(ORACLES)), None))
    kinds = {}
    for tmpl, oi, plan in todo:
        if (tmpl, oi) not in bases:
            bases[(tmpl, oi)] = run_engine(tmpl, ORACLES[oi], [])
        base = bases[(tmpl, oi)]
        if plan is None:
            plan = gen_plan(rng, base[2]['messages'], base[2]['results'])
        run = run_engine(tmpl, ORACLES[oi], plan)
        ctx.count('engine_dups', (tmpl, oi, json.dumps(plan, sort_keys=True)))
        ctx.cov['traces_validated_against_impl'] += 1
        for dup in run[2]['dups']:
            key = '%s:%s' % (dup['kind'], dup['method'] or ('safe' if dup['safe'] else 'unsafe'))
            kinds[key] = kinds.get(key, 0) + 1
        if run[2].get('expired'):
            kinds['heartbeat-expiry-race'] = kinds.get('heartbeat-expiry-race', 0) + 1
        engine_oracle(ctx, tmpl, oi, plan, base, run)
    ctx.cov['suites']['engine_dups']['injected'] = kinds
    ctx.sample({'suite': 'engine_dups', 'template': todo[-1][0], 'oracle': todo[-1][1], 'plan': plan})


IDS = ['%08d-0000-0000-0000-000000000000' % i for i in range(1, 6)]


def real_start_all(seq):
    """seq: list of (id index, payload) -> list of (payload of returned execution, created?) + table, via the real engine."""
    from mistral.db.v2 import api as db_api
    d = driver()
    soft_reset(d, 0)
    outs = []

    def table():
        with db_api.transaction():
            return sorted((w.id, w.input['x']) for w in db_api.get_workflow_executions())
    for i, p in seq:
        before = len(table())
        out, res = d._call('start_workflow', d.engine.start_workflow, 'wf_linear', '', IDS[i], {'x': p}, '')
        if out != 'ok':
            outs.append(('error:%s' % type(res).__name__, False))
            continue
        outs.append((res.input['x'], len(table()) > before))
    tab = table()
    # drain: nothing is created twice downstream either
    d.run_schedule(__import__('random').Random(0))
    v = d.view()
    return outs, [(IDS.index(i), p) for i, p in tab], {'wf': len(v['wf']), 'tasks': len(v['tasks']), 'actions': len(v['actions']),
                                                       'runs': sum(d.calls.values())}


def suite_start_workflow_id(ctx):
    rng = ctx.rng
    seqs = [[(0, 1), (0, 2), (1, 3), (0, 1)], [(2, 5)] * 3]
    for _ in range(ctx.n(40, 600)):
        seqs.append([(rng.randrange(rng.choice([1, 2, 5])), rng.randrange(1, 9)) for _ in range(rng.randrange(1, 7))])
    exprs = ['start_all [] %s' % coq_list(['(%d, %d)' % (i, p) for i, p in s]) for s in seqs]
    res = core.coq_eval('c06start', IMPORTS, exprs)
    for s, r in zip(seqs, res):
        m = core.re.match(r'\(\[(.*?)\],\s*\[(.*?)\]\)', r)
        mtab = sorted((int(a), int(b)) for a, b in core.re.findall(r'\((\d+),\s*(\d+)\)', m.group(1)))
        mouts = [(int(a), b == 'true') for a, b in core.re.findall(r'\((\d+),\s*(true|false)\)', m.group(2))]
        outs, tab, counts = real_start_all(s)
        ctx.count('start_workflow_id', tuple(s), nontrivial=len(set(i for i, _ in s)) < len(s))
        ctx.cov['disagreements_checked'] += 1
        nid = len(set(i for i, _ in s))
        if counts['wf'] != nid or counts['tasks'] != 2 * nid or counts['actions'] != 2 * nid or counts['runs'] != 2 * nid:
            ctx.fail('start:duplicate-id-created-twice', 'start requests %r over %d distinct ids left %r (expected one execution, '
                     'two tasks and two action runs per id)' % (s, nid, counts), {'kind': 'start_workflow_id', 'requests': s})
        for (i, p), (q, created) in zip(s, outs):
            first = next(pp for ii, pp in s if ii == i)
            if q != first:
                ctx.fail('start:duplicate-id-wrong-execution', 'start request with an existing id returned %r, the execution of the '
                         'first delivery has input %r' % (q, first), {'kind': 'start_workflow_id', 'requests': s})
                break
        if (outs, sorted(tab)) != (mouts, mtab):
            ctx.disagree('start_workflow_id', {'requests': s}, [mouts, mtab], [outs, sorted(tab)])
    ctx.sample({'suite': 'start_workflow_id', 'requests': seqs[0]})


def engine_traces(ctx):
    """Engine-level trace correspondence (duplicate injector against Model/Engine.v) and the oracle
    'a redelivered start_task / result message changes no row'."""
    from harness import engine_trace as et
    et.trace_suite(ctx, ['C06'], ['dup', 'dup', 'operator'], 150, 2000, suite='engine_trace_C06')
    # features outside the core model (sub-workflow results, with-items, retries, policies, data flow): every delivered
    # result / start request may be delivered again at any later point; it must change nothing, and the run must end like
    # the run of the same program without duplicates
    from harness import engine_explore as ee
    ee.explore(ctx, ['C06'], ee.FEATURES + ['subwf', 'joinsub', 'defaults'], ctx.n(27, 270), 3, suite='engine_explore_C06', dups=True)
    # start requests issued by a resume for tasks that were IDLE, redelivered while the task is RUNNING or PAUSED
    ee.explore(ctx, ['C06'], ['pausedsub'], ctx.n(10, 100), 4, suite='engine_explore_C06_paused', pause_heavy=True, dups=True)


def run(ctx):
    ctx.cov['rule'] = ('executor: the complete 864-point input product x 4 irrelevant variations, every point on the real '
                       '_do_run_action; action/task cores: exhaustive single steps + seeded random delivery sequences with '
                       'duplicates inserted at later positions; engine: 5 workflow templates x 5 outcome tables x seeded duplicate '
                       'plans (message k again after j events, 1-2 copies; heartbeat expiry before/after a result); '
                       'distinct = distinct (suite, input)')
    import time
    for s in (suite_executor, suite_executor_server, suite_action_complete, suite_task_guards,
              suite_start_workflow_id, suite_engine_dups, engine_traces):
        t0 = time.time()
        s(ctx)
        ctx.cov['suites'].setdefault(s.__name__, {})['wall_s'] = round(time.time() - t0, 1)
    ctx.assumptions += ['a timed-out action is one that is still running when join(timeout) returns (the fake action blocks until '
                        'the executor has noticed the time-out)',
                        'an engine-client call that raises did not deliver its result',
                        'one engine transaction is atomic (driver: one event = one committed or rolled back transaction)']


def search(ctx):
    """Widened oracle-only search (no model): all executor points + many duplicate plans on the real engine."""
    idn = 0
    for c in exec_product():
        idn += 1
        cc = dict(c, with_timeout=False, lib=True, idn=idn)
        exec_oracle(ctx, cc, real_exec(cc), bool(c['red']))
    for ctxv in CTXV:
        for c in exec_product():
            if c['red'] == 0:
                cc = dict(c, ctxv=ctxv, lib=True, with_timeout=False)
                exec_oracle(ctx, dict(cc, ctxv=str(ctxv)), real_exec(cc, via_server=True), ctxv is True)
    if not ctx.failures:
        suite_engine_dups(ctx, n=300)


def replay(obj):
    r = obj.get('replay', {})
    kind = r.get('kind')
    if r.get('kind') in ('engine-explore', 'engine-trace', 'engine-rerun'):
        from harness import engine_trace as _et     # engine-level replays (exploration, traces, rerun trees)
        return _et.replay_case(obj)
    ctx = core.Ctx('C06', 'quick', 0)
    if kind == 'executor':
        c = r['case']
        via = 'ctxv' in c
        if via:
            c = dict(c, ctxv={'None': None, 'True': True, 'False': False}.get(c['ctxv'], c['ctxv']))
        impl = real_exec(c, via_server=via)
        print('executor case %r -> runs=%d calls=%r returned=%s' % (r['case'], impl['runs'], impl['calls'], impl['ret']))
        exec_oracle(ctx, dict(c, ctxv=str(c.get('ctxv'))), impl, (c.get('ctxv') is True) if via else bool(c['red']))
    elif kind == 'engine':
        base = run_engine(r['template'], ORACLES[r['oracle']], [])
        run_ = run_engine(r['template'], ORACLES[r['oracle']], r['plan'])
        print('template %s plan %r: duplicates %r' % (r['template'], r['plan'], run_[2]['dups']))
        engine_oracle(ctx, r['template'], r['oracle'], r['plan'], base, run_)
    elif kind == 'action_complete':
        row, acc, trace = real_deliver(r['state'], [tuple(x) for x in r['deliveries']])
        print('deliveries %r to a %s action execution -> row %r, accepted %d' % (r['deliveries'], r['state'], row, acc))
        action_oracle(ctx, r['state'], r['deliveries'], trace)
    elif kind == 'start_workflow_id':
        s = [tuple(x) for x in r['requests']]
        outs, tab, counts = real_start_all(s)
        print('start requests %r -> returned %r, table %r, rows %r' % (s, outs, tab, counts))
        nid = len(set(i for i, _ in s))
        if counts['wf'] != nid or counts['tasks'] != 2 * nid:
            ctx.fail('start', 'created twice', r)
    elif kind in ('task_complete', 'run_new'):
        print(json.dumps(obj, indent=1)[:3000])
        return 1
    else:
        print(json.dumps(obj, indent=1)[:3000])
        return 1
    for f in ctx.failures:
        print('FAIL %s: %s' % (f['signature'], f['what']))
    return 1 if ctx.failures else 0
