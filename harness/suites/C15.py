"""C15 - tenants are isolated: private data is invisible, others cannot modify yours.

Technique: Coq theorems over Model/Tenancy.v (generic executor `exec_op` over the access shapes of
every db-api function, extracted on every run from mistral/db/v2/sqlalchemy/api.py into Gen/DbShapes.v
by translate/tr_dbshapes.py) + correspondence on a REAL sqlite database with auth_enable=True + oracle.

Suites
  db_matrix  every tenant-facing db-api function of every secure model (table-driven from the extractor's
             output, the REAL functions of mistral.db.v2.api are called) x actor relation {owner, other,
             member pending / accepted / rejected, admin} x scope {private, public} x name collision x
             addressing {id, name, filters} (+ project_id supplied in the values).  Outcome class, the rows of
             all secure tables and the member table afterwards are compared with Tenancy.run_views
             (vm_compute; `.first()` among several matches = any of the model's outcomes).
  members    create/get/list/update/delete_resource_member x caller {owner, member, third project} x state
             of the offer, compared with Tenancy.mem_view; re-share scenario.
  rest       (oracle only) the pecan application with two projects + admin: reads of private resources by id /
             name / list / all_projects, PUT / DELETE of another project's public resources, event trigger
             delete (db function is insecure, the controller must fetch first), membership re-share.
  rest_lists every controller method that lists through rest_utils.get_all (13, found by translate/tr_restlists.py) x
             generated query strings (all_projects, project_id of own / other projects, name with and without
             operators, every other accepted filter alone and together with project_id, fields / sort / limit /
             marker) x callers {other+member, owner, admin(, third project)} on the real pecan application
             (auth_enable=True, project ids in uuid form so that typed query parameters accept them).
             Compared with Tenancy.rest_view (generated insecure_cond + policy gates + _secure_query); oracle:
             neither the response nor what the db layer handed to the controller (spy on _get_collection) holds
             a private row of another project.  A 400 on a tenancy parameter counts as a disagreement (vacuous probe).
  tenant_caches  process-wide in-memory stores (inventory + key composition from translate/tr_tenantcaches.py): projects pA /
             pB / pC create same-named PRIVATE code sources + dynamic actions, ad-hoc actions and workflows and use them BY
             NAME in interleaved order in one process, with version bumps and delete + re-create (new id, same name):
             system action provider find -> descriptor -> instantiate -> run (also after the serializer round trip a remote
             executor does), ad-hoc provider, parser.get_workflow_spec_by_definition_id / _by_execution_id.  The dynamic
             action module store is compared with Model/TenantCache.v run under the key kind read from the source; oracle:
             what a project gets / executes by name was written by that project (foreign-content:<what>:<store>).
  expr       (oracle only) executions() / tasks() / task() / global() / execution() of
             mistral/expressions/std_functions.py under a foreign project context.
Oracle (no model involved), per call made under a foreign non-admin context:
  - a private, unshared row of another project (and a private decoy) is never returned / listed and is
    byte-identical afterwards;
  - a public row, or a workflow shared through an accepted membership, is readable, and identical afterwards;
  - a pending / rejected share grants nothing;
  - every created row carries the caller's project, whatever project_id the values contain; an update never
    moves a row to a project other than the caller's.

Oracle signatures (<fn> = the function where the guard is missing, create_or_update_X counts as update_X, every
delete_Xs as _delete_all):
  F2 foreign-write:<fn>      update/delete of another project's PUBLIC row (or of a workbook shared through an accepted
                             membership).  REPAIRED in /repo by 11fed235; the 19 former witnesses are kept in
                             corpus/C15/regressions.json and must be refused (suite regressions, signature regression:...)
  F7 reshare-by-member       an accepted member offers the owner's private workflow to a third project (REST).
                             REPAIRED by 855c3b2d; replayed in suite rest
  F9 owner-not-forced:create_event_trigger / owner-not-forced:update_event_trigger   OPEN: EventTrigger is defined after
                             mb.register_secure_model_hooks(): a supplied project_id is stored as given (db-api level
                             only; the REST resource makes project_id read-only)

Self-test (scratch worktree, `VERIF_REPO=/tmp/wt_C15 ./check C15`), each gives NEW VIOLATION signatures:
  M1  api.py update_workflow_definition: drop `m_dbutils.check_db_obj_access(wf_def)` -> foreign-write:update_workflow_definition;
      C15_anchored_guards breaks
  M2  api.py _get_accepted_resources: drop `status == 'accepted'` -> member-pending-grants:get_workflow_definition ... (27 signatures);
      C15_helpers_as_modelled breaks, db_matrix disagrees
  M3  api.py _get_db_object_by_id: `query = b.model_query(...)` unconditionally -> private-read / member-*-grants:get_workflow_execution,
      get_task_execution ..., expr-private-read:execution/task/global; C15_table_secure breaks
  M4  model_base.py _set_project_id: `return value or security.get_project_id()` -> owner-not-forced:create_* (20 signatures);
      C15_helpers_as_modelled breaks
  M5  api.py _secure_query: drop `model.scope == 'public'` -> public-unreadable:get_* (36 signatures); helpers theorem breaks
  M6  api.py delete_cron_trigger: drop the check_db_obj_access line -> foreign-write:delete_cron_trigger; C15_anchored_guards breaks
  M7  api.py _get_collection: `... if insecure or filters else _secure_query(...)` -> extractor refuses (fail closed), oracle-only run:
      private-read / member-*-grants:get_*s, expr-private-read:executions/tasks/task
  M8  api.py update_resource_member: drop the `member_id != caller` guard, match owner criterion too
      -> member-status-by-non-member:update, rest-member-nonaccepted-grants; members suite disagrees
  M9  utils/rest_utils.py get_all: `auth_ctx.has_ctx()` instead of `auth_ctx.ctx().is_admin` -> rest-private-read:GET /v2/<lists> (14)
  M10 expressions/std_functions.py executions_: `get_workflow_executions(insecure=True, ...)` -> expr-private-read:executions
  M11 db/utils.py check_db_obj_access: skip the owner test for public rows -> foreign-write:update_workflow_definition,
      delete_workflow_definition, update_workflow_execution, delete_cron_trigger; helpers theorem breaks
  M12 api/controllers/v2/event_trigger.py delete: fetch with insecure=True -> private-write:delete_event_trigger (REST)
All twelve were caught with a concrete replayable input (none missed).
Missed at first, caught since the rest_lists suite and the REST list model exist:
  S1  utils/rest_utils.py get_all: `insecure = True` also when filters.get('project_id') (seeded regression)
      -> rest-list-private-read:/v2/workflows?project_id, /v2/cron_triggers?project_id; C15_rest_lists_isolated breaks.
      (cause of the miss: the old probe sent project_id=pA, rejected with 400 by the uuid-typed parameter)
  M13 api/controllers/v2/workflow.py get_all: drop the `if all_projects: acl.enforce(...)` gate
      -> rest-list-private-read:/v2/workflows?all_projects; C15_rest_lists_isolated breaks
  M14 policies/cron_trigger.py: 'cron_triggers:list:all_projects' -> RULE_ADMIN_OR_OWNER
      -> rest-list-private-read:/v2/cron_triggers?all_projects; C15_rest_lists_isolated breaks
Missed before the tenant_caches suite / TenantCache model existed:
  S2  actions/dynamic_action.py: DynamicActionProvider._code_sources keyed by code source NAME (seeded regression)
      -> foreign-content:dynamic-action-module:DynamicActionProvider._code_sources; extractor emits KeyNameOnly,
      C15_tenant_stores_keyed_across_projects breaks (the faithful model agrees with the leaking code)
  M15 actions/adhoc.py: AdHocActionProvider keeps descriptors in a dict keyed by (name, namespace)
      -> extractor refuses the unclassified store (fail closed); foreign-content:adhoc-action:AdHocActionProvider
  M16 actions/dynamic_action.py: module loaded with get_code_sources(name=..., insecure=True)[0]
      -> foreign-content:dynamic-action-module:...; C15_providers_read_through_filtered_queries breaks; model disagrees
"""
import datetime
import inspect
import json
import os
import re
import sys

from harness import core

GEN = ['DbShapes', 'RestLists', 'TenantCaches']

MANIFEST = {
    'level_text': 'Coq theorems, closed under the global context, over the executable model Tenancy.exec_op and the access-shape '
                  'table generated from api.py on every run: for EVERY sequence of calls to table functions by non-admin '
                  'contexts that cannot see a row (other project, private, no accepted share) the row is never returned and '
                  'stays unchanged (invariant proof over all databases/arguments/name collisions); guarded writes never touch '
                  'foreign rows, and every unguarded writing function of the table provably lets a foreign project overwrite a '
                  'public row (F2, refuted with witness); owner forced on hooked classes over any history (refuted for '
                  'EventTrigger, F9); only accepted shares count, only the member changes status, only the creator deletes '
                  '(re-share by a member refuted, F7); REST lists: for every list endpoint, database, non-admin caller and '
                  'request (all_projects, project_id of any project, filters) the result holds only visible rows; in-memory '
                  'stores: every process-wide store with tenant content (inventory extracted, fail closed on an unknown store) '
                  'is keyed across projects, and for such keys every sequence of creates / version bumps / deletes + re-creates / '
                  'uses by any projects serves a project only content it wrote (induction; name-only key refuted). Model tied to the code by the extractor (fail closed, helper facts '
                  'compared) and by an exhaustive differential matrix on a real sqlite DB with auth enabled.',
    'level_note': 'Trusted: the ast extractor and its allow-list of engine-internal functions (checked not to be referenced '
                  'from mistral/api and mistral/expressions), SQLAlchemy/sqlite semantics of filter/first/delete (correspondence '
                  'only), keystone and oslo.policy evaluation (defaults only; C16). The REST LIST layer is modelled and proved '
                  '(insecure decision of rest_utils.get_all and the per-controller policy gates are extracted, fail closed); '
                  'REST item / write paths and expression functions are covered by the implementation-side oracle only. '
                  'In-memory stores: the classification of stores without tenant content (system / scoped) is a reviewed '
                  'allow-list in tr_tenantcaches.py; only the dynamic-action module store is compared with the model step by '
                  'step, the spec caches and the ad-hoc provider by oracle; the event-trigger multimap filter is checked '
                  'structurally, whole workflow runs through the engine are not driven here; stores inside mistral_lib are out of scope. Histories that interleave membership changes with resource calls are covered '
                  'per step, not by the sequence theorem.',
    'technique': 'Coq proof (invariants over call sequences) over a generated shape table; ast extractor; exhaustive differential matrix',
    'design_ref': '6 C15',
}

IMPORTS = ['Model.Tenancy', 'Gen.DbShapes', 'Gen.RestLists']

PROJ = {'pA': 1, 'pB': 2, 'pC': 3, 'pAdm': 9, 'pZ': 77}
# the project ids the real code sees (REST query parameters of type uuid must accept them);
# snapshots translate them back, so the rest of the harness speaks in the short names
PID = {'pA': 'aaaa1111' * 4, 'pB': 'bbbb2222' * 4, 'pC': 'cccc3333' * 4, 'pAdm': 'dddd9999' * 4, 'pZ': 'eeee7777' * 4}
PID_INV = {v: k for k, v in PID.items()}


def P(name):
    return PID.get(name, name)


def UNP(pid):
    return PID_INV.get(pid, pid)
PROJ_INV = {v: k for k, v in PROJ.items()}
STATUS = {'pending': 0, 'accepted': 1, 'rejected': 2}
STATUS_COQ = {'pending': 'Pending', 'accepted': 'Accepted', 'rejected': 'Rejected'}
MTYPE = {'workflow': 0, 'workbook': 1}

HAS_NS = {'Workbook', 'WorkflowDefinition', 'ActionDefinition', 'CodeSource', 'DynamicActionDefinition'}
DATA_COL = {'Workbook': 'definition', 'WorkflowDefinition': 'definition', 'ActionDefinition': 'definition',
            'CodeSource': 'content', 'DynamicActionDefinition': 'class_name',
            'ActionExecution': 'state_info', 'WorkflowExecution': 'state_info', 'TaskExecution': 'state_info',
            'Environment': 'description', 'CronTrigger': 'trust_id', 'EventTrigger': 'trust_id'}
SHAREABLE = {'WorkflowDefinition': 'workflow', 'Workbook': 'workbook'}

_BOOTED = {}


def uid(n):
    return '00000000-0000-4000-8000-%012d' % n


class TokMap:
    """ids generated by the code under test (random uuids) get the next free token"""

    def __init__(self, nxt=4):
        self.nxt = nxt
        self.map = {}

    def peek(self):
        return self.nxt

    def __call__(self, s):
        if s not in self.map:
            self.map[s] = self.nxt
            self.nxt += 1
        return self.map[s]


def tok_id(s, fresh=None):
    m = re.match(r'^00000000-0000-4000-8000-(\d{12})$', s or '')
    if m:
        return int(m.group(1))
    if isinstance(fresh, TokMap):
        return fresh(s)
    return fresh


def boot():
    """A real in-memory sqlite database with authentication enabled."""
    if _BOOTED:
        return _BOOTED
    import logging
    logging.disable(logging.CRITICAL)
    from oslo_config import cfg
    from mistral.db.v2 import api as db_api
    from mistral import config  # noqa: registers options
    from mistral import context as auth_context
    from mistral.db.v2.sqlalchemy import models
    from mistral.db.sqlalchemy import base as sa_base
    from mistral import exceptions as exc
    cfg.CONF(args=[], project='mistral', default_config_files=[])
    cfg.CONF.set_default('connection', 'sqlite://', group='database')
    cfg.CONF.set_default('auth_enable', True, group='pecan')
    cfg.CONF.set_default('enabled', False, group='cron_trigger')
    db_api.setup_db()
    from mistral.db.v2.sqlalchemy import api as sa_api
    _BOOTED.update(db_api=db_api, sa_api=sa_api, auth=auth_context, models=models, sa_base=sa_base, exc=exc, cfg=cfg)
    return _BOOTED


def mkctx(project, admin=False):
    auth = boot()['auth']
    return auth.MistralContext.from_dict({
        'user_name': 'u-' + project, 'user': 'u-' + project, 'tenant': P(project), 'project_id': P(project),
        'project_name': project, 'is_admin': admin, 'roles': ['admin'] if admin else ['member']})


SECURE_TABLES = None


def secure_tables():
    global SECURE_TABLES
    if SECURE_TABLES is None:
        models = boot()['models']
        SECURE_TABLES = {n: getattr(models, n) for n in DATA_COL}
    return SECURE_TABLES


def raw_conn():
    return boot()['sa_base'].get_engine().connect()


ALL_TABLES = ['EventTrigger', 'CronTrigger', 'DynamicActionDefinition', 'CodeSource', 'ActionExecution', 'TaskExecution',
              'WorkflowExecution', 'Workbook', 'WorkflowDefinition', 'ActionDefinition', 'Environment', 'ResourceMember']
_DIRTY = set(ALL_TABLES)


def wipe():
    """Empty every table that may hold rows (tables are marked when something is inserted or a call ran on them)."""
    models = boot()['models']
    eng = boot()['sa_base'].get_engine()
    with eng.begin() as conn:
        for n in ALL_TABLES:
            if n in _DIRTY:
                conn.execute(getattr(models, n).__table__.delete())
    _DIRTY.clear()


def snapshot(only=None):
    """All rows of the secure tables (or of the given ones) and of the member table, read with plain SQL
    (no tenancy filter, no ORM cache)."""
    import sqlalchemy as sa
    models = boot()['models']
    eng = boot()['sa_base'].get_engine()
    rows = {}
    with eng.connect() as conn:
        for n, cls in secure_tables().items():
            if only is not None and n not in only:
                continue
            for r in conn.execute(sa.select(cls.__table__)).mappings():
                d = dict(r)
                d.pop('updated_at', None)
                d['project_id'] = UNP(d['project_id'])
                rows[(n, d['id'])] = d
        mems = []
        for r in conn.execute(sa.select(models.ResourceMember.__table__)).mappings():
            mems.append((r['resource_id'], r['resource_type'], UNP(r['project_id']), UNP(r['member_id']), r['status']))
    return rows, sorted(mems)


def base_values(model, n, name, ns, scope, data, project=None):
    """values for create_<model> of row number n"""
    v = {'id': uid(n), 'name': name, 'scope': scope}
    if model in ('Workbook', 'WorkflowDefinition', 'ActionDefinition'):
        v.update(namespace=ns, definition=data, spec={}, tags=[], is_system=False)
    elif model == 'CodeSource':
        v.update(namespace=ns, content=data, version=1, tags=[])
    elif model == 'DynamicActionDefinition':
        v.update(namespace=ns, class_name=data, code_source_id=uid(50 if (project or 'pA') == 'pA' else 51),
                 code_source_name='cs')
    elif model in ('ActionExecution', 'WorkflowExecution', 'TaskExecution'):
        v.update(state='RUNNING', state_info=data, workflow_name='w', tags=[], runtime_context={})
        if model == 'TaskExecution':
            v.update(type='ACTION', spec={}, in_context={}, published={}, action_spec={})
        else:
            v.update(spec={}, input={}, output={})
        if model == 'WorkflowExecution':
            v.update(params={}, context={})
    elif model == 'Environment':
        v.update(description=data, variables={})
    elif model == 'CronTrigger':
        v.update(pattern='* * * * *', next_execution_time=datetime.datetime(2031, 1, 1), workflow_name='w%d' % n,
                 remaining_executions=n, workflow_input={}, workflow_params={}, trust_id=data)
    elif model == 'EventTrigger':
        v.update(exchange='x', topic='t%d' % n, event='e', trust_id=data, workflow_input={}, workflow_params={})
    return v


def insert_row(model, n, owner, scope, name_tok, ns_tok, data_tok):
    """Insert with plain SQL: scenario set-up must not depend on the functions under test."""
    eng = boot()['sa_base'].get_engine()
    cls = secure_tables()[model]
    v = base_values(model, n, 'n%d' % name_tok, NS[ns_tok], scope, 'd%d' % data_tok, project=owner)
    v['project_id'] = P(owner)
    v['created_at'] = datetime.datetime(2030, 1, 1, 0, (n // 60) % 60, n % 60)
    cols = set(c.name for c in cls.__table__.columns)
    v = {k: x for k, x in v.items() if k in cols}
    if 'workflow_input_hash' in cols:
        v['workflow_input_hash'] = 'h'
        v['workflow_params_hash'] = 'h'
    with eng.begin() as conn:
        conn.execute(cls.__table__.insert().values(**v))
    _DIRTY.add(model)


def insert_member(res_n, rtype, owner, member, status):
    models = boot()['models']
    eng = boot()['sa_base'].get_engine()
    with eng.begin() as conn:
        conn.execute(models.ResourceMember.__table__.insert().values(
            id=uid(900 + len(status) + PROJ[member] * 10 + PROJ[owner]), resource_id=uid(res_n), resource_type=rtype,
            project_id=P(owner), member_id=P(member), status=status, created_at=datetime.datetime(2030, 1, 1)))
    _DIRTY.add('ResourceMember')


NS = {0: '', 1: 'ns1'}
NS_INV = {'': 0, 'ns1': 1, None: 0}


def call_as(ctx_obj, fn, *a, **k):
    """Run one db-api call in its own transaction under the given security context."""
    b = boot()
    db_api, auth, exc = b['db_api'], b['auth'], b['exc']
    auth.set_ctx(ctx_obj)
    try:
        with db_api.transaction():
            r = fn(*a, **k)
            return ('ret', canon_ret(r))
    except exc.DBEntityNotFoundError:
        return ('notfound', None)
    except exc.NotAllowedException:
        return ('denied', None)
    except exc.InvalidActionException:
        return ('invalid', None)
    except exc.DBDuplicateEntryError:
        return ('duplicate', None)
    except Exception as e:  # not a declared refusal
        return ('crash:%s' % type(e).__name__, str(e)[:200])
    finally:
        auth.set_ctx(None)


def canon_ret(r):
    if isinstance(r, tuple) and r and hasattr(r[0], 'id'):
        r = r[0]
    if r is None:
        return None
    if isinstance(r, (list,)):
        return [x.id if hasattr(x, 'id') else x for x in r]
    if hasattr(r, 'id'):
        return {'id': r.id}
    return r


# ---------------------------------------------------------------------------
# the matrix

ACTORS = ['owner', 'other', 'pending', 'accepted', 'rejected', 'admin']
ACTOR_PROJECT = {'owner': 'pA', 'admin': 'pAdm'}
SEL_ADDRS = {'SelId': ['id'], 'SelName': ['name'], 'SelNameNs': ['name'], 'SelNameNsOrId': ['id', 'name'],
             'SelNameNsOrIdFb': ['id', 'name'], 'SelNameNsDef': ['name']}


REF_TABLE = os.path.join(core.VERIF, 'corpus', 'C15_table.json')


def load_table(ctx=None):
    """The extractor's analysis of the current source.  When the extractor refuses the source (its
    obligation is already recorded as broken by the driver) the calling conventions of the last
    known-good analysis (corpus/C15_table.json) are used so that the oracle can still look for a
    failing input; the model correspondence is skipped then."""
    sys.path.insert(0, os.path.join(core.VERIF, 'translate'))
    import tr_dbshapes
    try:
        return tr_dbshapes.analyse(core.REPO)
    except Exception as e:
        t = json.load(open(REF_TABLE))
        t['degraded'] = '%s: %s' % (type(e).__name__, e)
        if ctx is not None:
            ctx.notes.append('extractor failed (%s); oracle-only run with corpus/C15_table.json' % t['degraded'][:200])
        return t


def plans(entry):
    """(addr, variant) pairs to try for one table entry"""
    k = entry['kind']
    if k in ('get', 'load', 'delete_obj', 'delete_query'):
        return [(a, 'plain') for a in SEL_ADDRS[entry['sel']]]
    if k == 'list':
        return [('filter-none', 'plain'), ('filter-name', 'plain'), ('filter-owner', 'plain')]
    if k == 'delete_all':
        return [('filter-none', 'plain'), ('filter-name', 'plain')]
    if k == 'create':
        return [('fresh', 'plain'), ('samename', 'plain'), ('fresh', 'foreign_pid')]
    if k == 'update':
        return [(a, v) for a in SEL_ADDRS[entry['sel']] for v in ('plain', 'foreign_pid')]
    if k == 'create_or_update':
        return [('id' if entry['probe_sel'] == 'SelId' else 'name', 'plain')]
    return []


def all_cells(table, tier_full=True):
    cells = []
    for e in table['entries']:
        if e['kind'] == 'internal':
            continue
        for addr, variant in plans(e):
            for actor in ACTORS:
                for scope in ('private', 'public'):
                    for collision in (False, True):
                        if variant == 'foreign_pid' and collision:
                            continue
                        cells.append({'fn': e['name'], 'model': e['model'], 'actor': actor, 'scope': scope,
                                      'collision': collision, 'addr': addr, 'variant': variant})
    return cells


def scenario_rows(cell):
    m = cell['model']
    rows = [(1, m, 'pA', cell['scope'], 100, 0, 5), (2, m, 'pA', 'private', 101, 0, 6)]
    if cell['collision']:
        rows.append((3, m, 'pB', 'private', 100, 0, 7))
    if m == 'DynamicActionDefinition':
        rows += [(50, 'CodeSource', 'pA', 'private', 150, 0, 8), (51, 'CodeSource', 'pB', 'private', 151, 0, 9)]
    mems = []
    if cell['actor'] in STATUS:
        mems.append((1, SHAREABLE.get(m, 'workflow'), 'pA', 'pB', cell['actor']))
    return rows, mems


def build_scenario(cell):
    wipe()
    rows, mems = scenario_rows(cell)
    for (n, m, owner, scope, name, ns, data) in sorted(rows, key=lambda r: (r[1] != 'CodeSource', r[0])):
        insert_row(m, n, owner, scope, name, ns, data)
    for (res, t, owner, member, status) in mems:
        insert_member(res, t, owner, member, status)
    return rows, mems


def actor_ctx(cell):
    a = cell['actor']
    if a == 'admin':
        return mkctx('pAdm', True), 'pAdm', True
    p = ACTOR_PROJECT.get(a, 'pB')
    return mkctx(p), p, False


def build_call(entry, cell):
    """Returns (callable, args, kwargs, coq_args dict)"""
    fn = getattr(boot()['sa_api'], entry['name'])
    params = entry['params']
    m, k, addr, variant = cell['model'], entry['kind'], cell['addr'], cell['variant']
    _, project, _ = actor_ctx(cell)
    has_ns = m in HAS_NS
    ca = {'model': m, 'ident': 0, 'ns': 0 if has_ns else None, 'insecure': False, 'fname': None, 'fowner': None,
          'new_id': 4, 'new_name': 102, 'new_ns': 0, 'new_scope': 'private', 'new_data': 42,
          'set_data': None, 'set_scope': None, 'owner_val': None}
    args, kw = [], {}
    ident = {'id': uid(1), 'name': 'n100'}.get(addr)
    if addr in ('id', 'name'):
        ca['ident'] = 1 if addr == 'id' else 100
    if 'namespace' in params and k not in ('list', 'delete_all'):
        kw['namespace'] = ''
    if k in ('get', 'load', 'delete_obj', 'delete_query'):
        args = [ident]
    elif k in ('list', 'delete_all'):
        if addr == 'filter-name':
            kw['name'] = 'n100'
            ca['fname'] = 100
        elif addr == 'filter-owner':
            kw['project_id'] = P('pA')
            ca['fowner'] = 1
    elif k == 'create':
        name = 102 if addr == 'fresh' else 100
        v = base_values(m, 4, 'n%d' % name, '', 'private', 'd42', project=project)
        ca['new_name'] = name
        if variant == 'foreign_pid':
            v['project_id'] = P('pZ')
            ca['owner_val'] = 77
        args = [v]
    elif k == 'update':
        v = {DATA_COL[m]: 'd99'}
        ca['set_data'] = 99
        if has_ns and 'namespace' not in params:
            v['namespace'] = ''
        if m == 'WorkflowDefinition':
            v['scope'] = cell['scope']
            ca['set_scope'] = cell['scope']
        if variant == 'foreign_pid':
            v['project_id'] = P('pZ')
            ca['owner_val'] = 77
        args = [ident, v]
    elif k == 'create_or_update':
        v = base_values(m, 4, 'n100', '', cell['scope'], 'd99', project=project)
        if addr == 'id':
            v['id'] = uid(1)
            ca['new_id'] = 1
        else:
            del v['id']
        ca.update(new_name=100, new_data=99, new_scope=cell['scope'], set_data=99, set_scope=cell['scope'])
        args = [ident, v]
    return fn, args, kw, ca


def view_of(entry, outcome, fresh_tok):
    tag, val = outcome
    k = entry['kind']
    if tag != 'ret':
        return (tag, [])
    if k in ('delete_obj', 'delete_query', 'delete_all'):
        return ('ok', [])
    if val is None:
        return ('none', [])
    if isinstance(val, list):
        return ('rows', sorted(tok_id(x, fresh_tok) for x in val))
    if isinstance(val, dict):
        return ('row', [tok_id(val['id'], fresh_tok)])
    return ('other:%r' % (val,), [])


def data_tok(model, row):
    v = row.get(DATA_COL[model])
    m = re.match(r'^d(\d+)$', v or '')
    return int(m.group(1)) if m else -1


def dump_snapshot(snap, fresh_tok):
    rows, mems = snap
    out = []
    for (model, rid), r in rows.items():
        out.append((tok_id(rid, fresh_tok), PROJ.get(r['project_id'], -1), 1 if r['scope'] == 'public' else 0, data_tok(model, r)))
    ms = [(tok_id(a, fresh_tok), MTYPE.get(t, 5), PROJ.get(o, -1), PROJ.get(mm, -1), STATUS.get(s, 9)) for (a, t, o, mm, s) in mems]
    return sorted(out), sorted(ms)


# ---- Coq terms ---------------------------------------------------------------

def coq_res(r):
    (n, m, owner, scope, name, ns, data) = r
    return '(mkRes %d %s %d %s %d %d %d false)' % (n, m, PROJ[owner], 'Public' if scope == 'public' else 'Private', name, ns, data)


def coq_mem(mm):
    (res, t, owner, member, status) = mm
    return '(mkMem %d %d %d %d %s)' % (res, MTYPE.get(t, 5), PROJ[owner], PROJ[member], STATUS_COQ[status])


def coq_db(rows, mems):
    return '(mkDb [%s] [%s])' % ('; '.join(coq_res(r) for r in rows), '; '.join(coq_mem(x) for x in mems))


def coq_opt(x):
    return 'None' if x is None else '(Some %s)' % x


def coq_scope(s):
    return 'Public' if s == 'public' else 'Private'


def coq_args(ca):
    return '(mkArgs %s %d %s %s 0 %s %s %d %d %d %s %d %s %s %s)' % (
        ca['model'], ca['ident'], coq_opt(ca['ns']), 'true' if ca['insecure'] else 'false',
        coq_opt(ca['fname']), coq_opt(ca['fowner']), ca['new_id'], ca['new_name'], ca['new_ns'], coq_scope(ca['new_scope']),
        ca['new_data'], coq_opt(ca['set_data']), coq_opt(None if ca['set_scope'] is None else coq_scope(ca['set_scope'])),
        coq_opt(ca['owner_val']))


def coq_shape_of(fn):
    return ('match find (fun e => String.eqb (fst (fst e)) %s) db_shapes with Some e => snd e | None => SInternal end'
            % core.coq_str(fn))


def parse_coq(s):
    """Coq list/tuple/string/nat output -> Python value"""
    import ast as _ast
    s = re.sub(r'%\w+', '', s)
    return _ast.literal_eval(s.replace(';', ','))


def norm_model_view(v):
    """((tag, ids), rows, mems) as printed by Coq: (tag, ids, rows, mems)"""
    tag, ids, rows, mems = v
    return (tag, sorted(ids)), sorted(tuple(x) for x in rows), sorted(tuple(x) for x in mems)


# ---- oracle --------------------------------------------------------------------

def row_eq(a, b):
    return a is not None and b is not None and a == b


def oracle_cell(ctx, cell, entry, outcome, before, after):
    """The property stated on the observed call (no model)."""
    m, fn, actor = cell['model'], cell['fn'], cell['actor']
    _, project, is_admin = actor_ctx(cell)
    b_rows, a_rows = before[0], after[0]
    T, D = (m, uid(1)), (m, uid(2))
    replay = {'cell': cell}
    # ownership of created / moved rows: every actor
    for key, r in a_rows.items():
        old = b_rows.get(key)
        if old is None and r['project_id'] != project:
            ctx.fail('owner-not-forced:%s' % entry.get('create_fn', fn), '%s under project %s created a %s row owned by %s'
                     % (fn, project, key[0], r['project_id']), dict(replay, row=key[1], stored=r['project_id']))
        if old is not None and old['project_id'] != r['project_id'] and r['project_id'] != project:
            ctx.fail('owner-not-forced:%s' % root_fn(entry), '%s under project %s moved a %s row to project %s'
                     % (fn, project, key[0], r['project_id']), dict(replay, row=key[1], stored=r['project_id']))
    if actor in ('owner', 'admin'):
        return
    shared = actor == 'accepted' and m in SHAREABLE
    may_read = cell['scope'] == 'public' or shared
    tag, val = outcome
    returned = []
    if tag == 'ret':
        if isinstance(val, list):
            returned = list(val)
        elif isinstance(val, dict):
            returned = [val['id']]
    reads = entry['kind'] in ('get', 'load', 'list')
    # the private decoy and (when unreadable) the target are never exposed
    hidden = [D] + ([] if may_read else [T])
    for key in hidden:
        if key[1] in returned and entry['kind'] != 'create':
            why = 'private-read' if actor in ('other', 'accepted') else 'member-%s-grants' % actor
            ctx.fail('%s:%s' % (why, fn), '%s under project %s (%s) returned the private %s row %s of project pA'
                     % (fn, project, actor, m, key[1]), dict(replay, returned=returned))
    # nothing of project pA changes, readable or not
    for key in (T, D):
        if not row_eq(b_rows.get(key), a_rows.get(key)):
            if key == D or not may_read:
                sig = 'private-write:%s' % root_fn(entry) if actor in ('other', 'accepted') else \
                    'member-%s-grants:%s' % (actor, root_fn(entry))
            else:
                sig = 'foreign-write:%s' % root_fn(entry)
            what = 'deleted' if key not in a_rows else 'changed: ' + ', '.join(
                '%s %r -> %r' % (c, b_rows[key][c], a_rows[key].get(c)) for c in b_rows[key] if b_rows[key][c] != a_rows[key].get(c))
            ctx.fail(sig, '%s under foreign non-admin project %s (%s, scope %s%s) %s the %s row of project pA'
                     % (fn, project, actor, cell['scope'], ', name collision' if cell['collision'] else '',
                        what, m), dict(replay, row=key[1], effect=what))
    # readable means readable
    if may_read and reads and not cell['collision'] and cell['addr'] != 'filter-owner' or \
            (may_read and reads and cell['addr'] in ('id', 'filter-none')):
        if uid(1) not in returned:
            sig = ('public-unreadable:%s' if cell['scope'] == 'public' else 'shared-unreadable:%s') % fn
            ctx.fail(sig, '%s under project %s (%s) does not return the %s %s row of project pA (outcome %s)'
                     % (fn, project, actor, cell['scope'] if cell['scope'] == 'public' else 'shared', m, tag),
                     dict(replay, outcome=tag))


def run_cell(cell, entry):
    rows, mems = build_scenario(cell)
    only = {cell['model']} | ({'CodeSource'} if cell['model'] == 'DynamicActionDefinition' else set())
    before = snapshot(only)
    fn, args, kw, ca = build_call(entry, cell)
    c, project, is_admin = actor_ctx(cell)
    _DIRTY.update(only | {'ResourceMember'})
    outcome = call_as(c, fn, *args, **kw)
    after = snapshot(only)
    return rows, mems, before, outcome, after, ca


def suite_db_matrix(ctx, table, cells, tag='db_matrix'):
    by_name = {e['name']: e for e in table['entries']}
    exprs, recs = [], []
    dist = {}
    for cell in cells:
        entry = by_name[cell['fn']]
        rows, mems, before, outcome, after, ca = run_cell(cell, entry)
        oracle_cell(ctx, cell, entry, outcome, before, after)
        _, project, is_admin = actor_ctx(cell)
        fresh = TokMap(4)
        impl = (view_of(entry, outcome, fresh),) + dump_snapshot(after, fresh)
        exprs.append('run_views (%s) %s (mkCtx %d %s) %s 3' % (
            coq_shape_of(cell['fn']), coq_db(rows, mems), PROJ[project], 'true' if is_admin else 'false', coq_args(ca)))
        recs.append((cell, impl, outcome))
        key = '%s/%s' % (entry['kind'], cell['actor'])
        dist[key] = dist.get(key, 0) + 1
    res = core.coq_eval('c15' + tag, IMPORTS, exprs, chunk=250)
    outcomes = {}
    for (cell, impl, outcome), r in zip(recs, res):
        ctx.count(tag, tuple(sorted(cell.items())), nontrivial=cell['actor'] not in ('owner',))
        ctx.cov['disagreements_checked'] += 1
        outcomes[impl[0][0]] = outcomes.get(impl[0][0], 0) + 1
        if r is None:
            ctx.disagree(tag, cell, 'no model output', impl)
            continue
        views = [norm_model_view(v) for v in parse_coq(r)]
        impl_n = ((impl[0][0], sorted(impl[0][1])), impl[1], impl[2])
        if impl_n not in views:
            ctx.disagree(tag, cell, [list(v) for v in views[:2]], list(impl_n) + [list(outcome)])
    s = ctx.cov['suites'].setdefault(tag, {})
    s['cells_by_kind_actor'] = dist
    s['impl_outcomes'] = outcomes
    if recs:
        ctx.sample({'suite': tag, 'cell': recs[len(recs) // 2][0], 'impl': list(recs[len(recs) // 2][1])})


# ---------------------------------------------------------------------------
# model database from the real one (used by histories and members)

def model_db_from(snap, tm=4):
    rows, mems = snap
    out = []
    for (model, rid), r in sorted(rows.items(), key=lambda kv: str(kv[1].get('created_at')) + kv[0][1]):
        nm = re.match(r'^n(\d+)$', r.get('name') or '')
        out.append('(mkRes %d %s %d %s %d %d %d %s)' % (
            tok_id(rid, tm), model, PROJ.get(r['project_id'], 78), coq_scope(r['scope']),
            int(nm.group(1)) if nm else 999, NS_INV.get(r.get('namespace'), 0) if model in HAS_NS else 0,
            max(data_tok(model, r), 0), 'true' if r.get('is_system') else 'false'))
    ms = ['(mkMem %d %d %d %d %s)' % (tok_id(a, tm), MTYPE.get(t, 5), PROJ.get(o, 78), PROJ.get(mm, 78), STATUS_COQ.get(s, 'Rejected'))
          for (a, t, o, mm, s) in mems]
    return '(mkDb [%s] [%s])' % ('; '.join(out), '; '.join(ms))


# ---------------------------------------------------------------------------
# members

MEM_CALLERS = [('pA', False), ('pB', False), ('pC', False), ('pAdm', True)]


def member_cells():
    cells = []
    for state in (None, 'pending', 'accepted', 'rejected'):
        for reshare in (False, True):
            for caller, admin in MEM_CALLERS:
                for op in ('create', 'get', 'list', 'update', 'delete'):
                    targets = ['pB', 'pC'] if op != 'list' else [None]
                    for tgt in targets:
                        variants = ['plain']
                        if op == 'create':
                            variants = ['plain', 'owner-given', 'accepted-given']
                        if op == 'update':
                            variants = ['accepted', 'rejected']
                        if op in ('get', 'delete'):
                            variants = ['plain', 'other-type']
                        for v in variants:
                            cells.append({'state': state, 'reshare': reshare, 'caller': caller, 'admin': admin, 'op': op,
                                          'target': tgt, 'variant': v})
    return cells


def mem_tuple(m):
    return (tok_id(m.resource_id), MTYPE.get(m.resource_type, 5), PROJ.get(UNP(m.project_id), -1), PROJ.get(UNP(m.member_id), -1),
            STATUS.get(m.status, 9))


def run_member_cell(cell):
    b = boot()
    db_api, auth, exc = b['sa_api'], b['auth'], b['exc']
    wipe()
    insert_row('WorkflowDefinition', 1, 'pA', 'private', 100, 0, 5)
    if cell['state']:
        insert_member(1, 'workflow', 'pA', 'pB', cell['state'])
    if cell['reshare']:
        insert_member(1, 'workflow', 'pB', 'pC', 'pending')
    before = snapshot()
    rtype = 'workbook' if cell['variant'] == 'other-type' else 'workflow'
    op, tgt = cell['op'], cell['target']
    g = {'res': 1, 'type': MTYPE[rtype], 'member': PROJ.get(tgt, 0), 'owner': None, 'status': 'Pending'}
    if op == 'create':
        v = {'resource_id': uid(1), 'resource_type': 'workflow', 'member_id': P(tgt)}
        if cell['variant'] == 'owner-given':
            v['project_id'] = P('pA')
            g['owner'] = 1
        if cell['variant'] == 'accepted-given':
            v['status'] = 'accepted'
            g['status'] = 'Accepted'
        fn, args = db_api.create_resource_member, [v]
    elif op == 'get':
        fn, args = db_api.get_resource_member, [uid(1), rtype, P(tgt)]
    elif op == 'list':
        fn, args = db_api.get_resource_members, [uid(1), rtype]
    elif op == 'update':
        fn, args = db_api.update_resource_member, [uid(1), rtype, P(tgt), {'status': cell['variant']}]
        g['status'] = STATUS_COQ[cell['variant']]
    else:
        fn, args = db_api.delete_resource_member, [uid(1), rtype, P(tgt)]
    _DIRTY.update(['ResourceMember', 'WorkflowDefinition'])
    auth.set_ctx(mkctx(cell['caller'], cell['admin']))
    try:
        with db_api.transaction():
            r = fn(*args)
            if r is None:
                impl = ('ok', [])
            elif isinstance(r, list):
                impl = ('rows', sorted(mem_tuple(m) for m in r))
            else:
                impl = ('row', [mem_tuple(r)])
    except exc.DBEntityNotFoundError:
        impl = ('notfound', [])
    except exc.DBDuplicateEntryError:
        impl = ('duplicate', [])
    except Exception as e:
        impl = ('crash:%s' % type(e).__name__, [])
    finally:
        auth.set_ctx(None)
    after = snapshot()
    mop = {'create': 'MCreate', 'get': 'MGet', 'list': 'MList', 'update': 'MUpdate', 'delete': 'MDelete'}[op]
    expr = 'mem_view %s %s (mkCtx %d %s) (mkMargs %d %d %d %s %s)' % (
        mop, model_db_from(before), PROJ[cell['caller']], 'true' if cell['admin'] else 'false',
        g['res'], g['type'], g['member'], coq_opt(g['owner']), g['status'])
    return before, impl, after, expr


def oracle_member(ctx, cell, before, impl, after):
    caller = cell['caller']
    bm = {(a, t, mm): (o, s) for (a, t, o, mm, s) in before[1]}
    am = {(a, t, mm): (o, s) for (a, t, o, mm, s) in after[1]}
    for key, (o, s) in bm.items():
        if key not in am:
            if o != caller:
                ctx.fail('member-delete-by-other:%s' % cell['op'], 'project %s removed the offer %s made by %s' % (caller, key, o),
                         {'member_cell': cell})
        elif am[key][1] != s and key[2] != caller:
            ctx.fail('member-status-by-non-member:%s' % cell['op'], 'project %s changed the status of the offer to %s: %s -> %s'
                     % (caller, key[2], s, am[key][1]), {'member_cell': cell})
    if cell['op'] in ('get', 'list') and impl[0] in ('row', 'rows'):
        for (res, t, o, mm, s) in impl[1]:
            if PROJ[caller] not in (o, mm):
                ctx.fail('member-read-foreign:%s' % cell['op'], 'project %s reads an offer between projects %s and %s'
                         % (caller, PROJ_INV.get(o), PROJ_INV.get(mm)), {'member_cell': cell})
    if before[0] != after[0]:
        ctx.fail('member-op-touches-resource:%s' % cell['op'], 'a member function changed a resource row', {'member_cell': cell})


def suite_members(ctx):
    cells = member_cells()
    exprs, recs = [], []
    for cell in cells:
        before, impl, after, expr = run_member_cell(cell)
        oracle_member(ctx, cell, before, impl, after)
        recs.append((cell, impl, dump_snapshot(after, 4)[1]))
        exprs.append(expr)
    res = core.coq_eval('c15members', IMPORTS, exprs, chunk=200)
    tags = {}
    for (cell, impl, mems_after), r in zip(recs, res):
        ctx.count('members', tuple(sorted((k, str(v)) for k, v in cell.items())))
        ctx.cov['disagreements_checked'] += 1
        tags[impl[0]] = tags.get(impl[0], 0) + 1
        if r is None:
            ctx.disagree('members', cell, 'no model output', impl)
            continue
        tag, rows, mems = parse_coq(r)
        model = ((tag, sorted(tuple(x) for x in rows)), sorted(tuple(x) for x in mems))
        got = ((impl[0], sorted(impl[1])), mems_after)
        if model != got:
            ctx.disagree('members', cell, [list(model[0]), model[1]], [list(got[0]), got[1]])
    ctx.cov['suites'].setdefault('members', {})['impl_outcomes'] = tags


# ---------------------------------------------------------------------------
# histories: random call sequences on a richer database; the model is re-seeded from the
# real state before every step, so each step is checked from a state the real code produced

HIST_MODELS = ['WorkflowDefinition', 'Workbook', 'Environment', 'ActionDefinition', 'WorkflowExecution', 'CronTrigger',
               'EventTrigger', 'CodeSource', 'TaskExecution', 'ActionExecution']


def seed_history_db(rng, model):
    wipe()
    n = 1
    placed = []
    for owner in ('pA', 'pB', 'pC'):
        for _ in range(rng.choice([1, 2, 2, 3])):
            name = rng.choice([100, 100, 101, 102])
            ns = rng.choice([0, 0, 1]) if model in HAS_NS else 0
            scope = rng.choice(['private', 'private', 'public'])
            if any(p[1:] == (owner, name, ns) for p in placed) and model not in ('WorkflowExecution', 'TaskExecution',
                                                                                 'ActionExecution', 'EventTrigger'):
                continue
            n += 1
            insert_row(model, n, owner, scope, name, ns, 10 + n)
            placed.append((n, owner, name, ns))
    t = SHAREABLE.get(model, 'workflow')
    for (rn, owner, name, ns) in placed:
        if rng.random() < 0.5:
            member = rng.choice([p for p in ('pA', 'pB', 'pC') if p != owner])
            try:
                insert_member(rn, t, owner, member, rng.choice(['pending', 'accepted', 'accepted', 'rejected']))
            except Exception:
                pass
    return placed


def random_call(rng, table_entries, model, placed):
    entry = rng.choice([e for e in table_entries if e.get('model') == model and e['kind'] != 'internal'])
    fn = getattr(boot()['sa_api'], entry['name'])
    params = entry['params']
    k = entry['kind']
    has_ns = model in HAS_NS
    target = rng.choice(placed) if placed else (1, 'pA', 100, 0)
    ns_tok = rng.choice([target[3], 0, 1]) if has_ns else None
    ca = {'model': model, 'ident': 0, 'ns': ns_tok, 'insecure': False, 'fname': None, 'fowner': None,
          'new_id': None, 'new_name': 103, 'new_ns': 0, 'new_scope': 'private', 'new_data': 42,
          'set_data': None, 'set_scope': None, 'owner_val': None}
    args, kw = [], {}
    sel = entry.get('sel') or entry.get('probe_sel')
    by_id = sel in ('SelId',) or (sel in ('SelNameNsOrId', 'SelNameNsOrIdFb') and rng.random() < 0.5)
    ident = uid(target[0]) if by_id else 'n%d' % target[2]
    ca['ident'] = target[0] if by_id else target[2]
    if 'namespace' in params and k not in ('list', 'delete_all'):
        kw['namespace'] = NS[ns_tok]
    if 'insecure' in params and entry.get('q') == 'QAdminArg' and k in ('get', 'load', 'update') and rng.random() < 0.3:
        kw['insecure'] = True
        ca['insecure'] = True
    if k in ('get', 'load', 'delete_obj', 'delete_query'):
        args = [ident]
    elif k in ('list', 'delete_all'):
        r = rng.random()
        if r < 0.35:
            kw['name'] = 'n%d' % target[2]
            ca['fname'] = target[2]
        elif r < 0.6:
            kw['project_id'] = P(target[1])
            ca['fowner'] = PROJ[target[1]]
        if k == 'list' and rng.random() < 0.15:
            kw['insecure'] = True
            ca['insecure'] = True
    elif k == 'create':
        name = rng.choice([100, 101, 102, 103])
        scope = rng.choice(['private', 'public'])
        ns = rng.choice([0, 1]) if has_ns else 0
        v = base_values(model, 4, 'n%d' % name, NS[ns], scope, 'd42')
        del v['id']
        ca.update(new_name=name, new_ns=ns, new_scope=scope)
        if rng.random() < 0.3:
            v['project_id'] = P('pZ')
            ca['owner_val'] = 77
        args = [v]
    elif k == 'update':
        v = {DATA_COL[model]: 'd99'}
        ca['set_data'] = 99
        if has_ns and 'namespace' not in params:
            v['namespace'] = NS[ns_tok]
        if model == 'WorkflowDefinition':
            v['scope'] = 'public'
            ca['set_scope'] = 'public'
        args = [ident, v]
    elif k == 'create_or_update':
        scope = 'public' if model == 'WorkflowDefinition' else rng.choice(['private', 'public'])
        v = base_values(model, 4, 'n%d' % target[2], NS[ns_tok or 0], scope, 'd99')
        if by_id:
            v['id'] = ident
            ca['new_id'] = target[0]
        else:
            del v['id']
        if model == 'ActionDefinition' or (has_ns and 'namespace' not in params):
            v['namespace'] = NS[ns_tok or 0]
        ca.update(new_name=target[2], new_ns=ns_tok or 0, new_data=99, new_scope=scope, set_data=99, set_scope=scope)
        args = [ident, v]
    return entry, fn, args, kw, ca


def suite_histories(ctx, table, n_hist, steps):
    rng = ctx.rng
    exprs, recs = [], []
    unpredicted = []
    for h in range(n_hist):
        model = rng.choice(HIST_MODELS)
        placed = seed_history_db(rng, model)
        tm = TokMap(40)
        for s in range(steps):
            entry, fn, args, kw, ca = random_call(rng, table['entries'], model, placed)
            project = rng.choice(['pA', 'pB', 'pC', 'pAdm'])
            admin = project == 'pAdm'
            before = snapshot()
            before_db = model_db_from(before, tm)
            if ca['new_id'] is None:
                ca['new_id'] = tm.peek()
            # skip calls the model is not meant to predict: a take-over that hits a unique constraint,
            # a public->private switch of a workflow with foreign triggers (none are created here)
            _DIRTY.update(ALL_TABLES)
            outcome = call_as(mkctx(project, admin), fn, *args, **kw)
            after = snapshot()
            if outcome[0].startswith('crash'):
                recs.append(None)
                exprs.append('0')
                unpredicted.append([entry['name'], outcome[0], outcome[1]])
                continue
            oracle_history_step(ctx, entry, project, admin, kw, before, outcome, after)
            impl = (view_of(entry, outcome, tm),) + dump_snapshot(after, tm)
            exprs.append('run_views (%s) %s (mkCtx %d %s) %s 4' % (
                coq_shape_of(entry['name']), before_db, PROJ[project], 'true' if admin else 'false', coq_args(ca)))
            recs.append(({'history': h, 'step': s, 'fn': entry['name'], 'project': project, 'args': repr(args)[:200], 'kw': kw},
                         impl, outcome))
    res = core.coq_eval('c15hist', IMPORTS, exprs, chunk=250)
    n = 0
    for rec, r in zip(recs, res):
        if rec is None:
            continue
        cell, impl, outcome = rec
        n += 1
        ctx.count('histories', (cell['history'], cell['step'], cell['fn'], cell['project']))
        ctx.cov['disagreements_checked'] += 1
        if r is None:
            ctx.disagree('histories', cell, 'no model output', impl)
            continue
        views = [norm_model_view(v) for v in parse_coq(r)]
        impl_n = ((impl[0][0], sorted(impl[0][1])), impl[1], impl[2])
        if impl_n not in views:
            ctx.disagree('histories', cell, [list(v) for v in views[:2]], list(impl_n) + [list(outcome)])
    hs = ctx.cov['suites'].setdefault('histories', {'evaluations': 0, 'distinct_nontrivial': 0})
    hs['steps_compared'] = n
    hs['steps_not_predicted'] = len(unpredicted)
    hs['not_predicted_examples'] = unpredicted[:5]


def oracle_history_step(ctx, entry, project, admin, kw, before, outcome, after):
    """Same property on arbitrary states: rows of other projects that the caller cannot see are never
    returned and never change; new rows belong to the caller."""
    if admin or kw.get('insecure'):
        return
    fn = entry['name']
    b_rows, a_rows = before[0], after[0]
    accepted = {(a, t) for (a, t, o, mm, s) in before[1] if mm == project and s == 'accepted'}
    returned = []
    if outcome[0] == 'ret':
        v = outcome[1]
        returned = list(v) if isinstance(v, list) else ([v['id']] if isinstance(v, dict) else [])
    for key, r in b_rows.items():
        if r['project_id'] == project:
            continue
        shared = (key[1], SHAREABLE.get(key[0])) in accepted
        visible = r['scope'] == 'public' or shared
        if not visible and key[1] in returned:
            ctx.fail('private-read:%s' % fn, '%s under project %s returned the private %s row %s of project %s'
                     % (fn, project, key[0], key[1], r['project_id']), {'history_step': True, 'fn': fn})
        if a_rows.get(key) != r:
            sig = ('foreign-write:%s' if visible else 'private-write:%s') % root_fn(entry)
            ctx.fail(sig, '%s under foreign non-admin project %s changed or deleted the %s %s row %s of project %s'
                     % (fn, project, r['scope'], key[0], key[1], r['project_id']), {'history_step': True, 'fn': fn})
    for key, r in a_rows.items():
        if key not in b_rows and r['project_id'] != project:
            ctx.fail('owner-not-forced:%s' % root_fn(entry), '%s under project %s created a %s row owned by %s'
                     % (fn, project, key[0], r['project_id']), {'history_step': True, 'fn': fn})


def is_writer(e):
    return e['kind'] in ('update', 'delete_obj', 'create_or_update', 'delete_query', 'delete_all')


def guarded(e):
    """check_db_obj_access before the mutation, or a query over the caller's own rows (Proofs: shape_guarded)"""
    return bool(e.get('chk')) or e.get('q') in ('QOwn', 'QOwnAdmin')


def root_fn(entry):
    """the function where the missing guard would go"""
    if entry['kind'] == 'delete_all':
        return '_delete_all'
    if entry['kind'] == 'create_or_update':
        return entry['update_fn']
    return entry['name']


# ---------------------------------------------------------------------------
# REST layer (oracle only)

_APP = {}


def rest_app():
    if _APP:
        return _APP
    from unittest import mock
    b = boot()
    cfg = b['cfg']
    import pecan
    import pecan.testing
    from oslo_policy import opts as policy_opts
    from oslo_policy import policy as oslo_policy
    from mistral.api import access_control as acl
    from mistral.api import app as pecan_app
    from mistral import policies
    policy_opts.set_defaults(cfg.CONF)
    acl._ENFORCER = oslo_policy.Enforcer(cfg.CONF)
    acl._ENFORCER.register_defaults(policies.list_rules())
    acl._ENFORCER.load_rules()
    # build the application without the keystone middleware, then turn authentication on:
    # the security context of each request is the one the harness supplies
    cfg.CONF.set_default('auth_enable', False, group='pecan')
    app = pecan.testing.load_test_app(dict(pecan_app.get_pecan_config()))
    cfg.CONF.set_default('auth_enable', True, group='pecan')
    cur = [None]
    mock.patch('mistral.context.AuthHook.before', lambda self, state: None).start()
    mock.patch('mistral.context.MistralContext.from_environ', lambda *a, **k: cur[0]).start()
    mock.patch('mistral.rpc.clients.get_event_engine_client', lambda: mock.MagicMock()).start()
    mock.patch('mistral.services.security.delete_trust', lambda *a, **k: None).start()
    _APP.update(app=app, cur=cur)
    return _APP


def req(project, admin, method, url, *a, **k):
    r = rest_app()
    _DIRTY.update(ALL_TABLES)
    r['cur'][0] = mkctx(project, admin)
    try:
        resp = getattr(r['app'], method)(url, *a, expect_errors=True, **k)
        return resp.status_int, resp.body.decode(errors='replace')
    finally:
        boot()['auth'].set_ctx(None)


WF_DEF = '---\nversion: "2.0"\nn100:\n  tasks:\n    t:\n      action: std.noop\n'
WF_SPEC = {'version': '2.0', 'name': 'n100', 'tasks': {'t': {'action': 'std.noop', 'name': 't', 'version': '2.0', 'type': 'direct'}}}

REST_ITEMS = [
    # model, url by id, url by name, list url, list supports all_projects
    ('Workbook', None, '/v2/workbooks/n100', '/v2/workbooks', False),
    ('WorkflowDefinition', '/v2/workflows/%(id)s', '/v2/workflows/n100', '/v2/workflows', True),
    ('ActionDefinition', '/v2/actions/%(id)s', '/v2/actions/n100', '/v2/actions', False),
    ('Environment', None, '/v2/environments/n100', '/v2/environments', False),
    ('CronTrigger', '/v2/cron_triggers/%(id)s', '/v2/cron_triggers/n100', '/v2/cron_triggers', True),
    ('EventTrigger', '/v2/event_triggers/%(id)s', None, '/v2/event_triggers', True),
    ('WorkflowExecution', '/v2/executions/%(id)s', None, '/v2/executions', True),
    ('TaskExecution', '/v2/tasks/%(id)s', None, '/v2/tasks', False),
    ('ActionExecution', '/v2/action_executions/%(id)s', None, '/v2/action_executions', False),
    ('CodeSource', '/v2/code_sources/%(id)s', '/v2/code_sources/n100', '/v2/code_sources', True),
    ('DynamicActionDefinition', '/v2/dynamic_actions/%(id)s', '/v2/dynamic_actions/n100', '/v2/dynamic_actions', True),
]

# writes a foreign project may try on a PUBLIC row: (model, method, url, body, root db function)
REST_WRITES = [
    ('Environment', 'put_json', '/v2/environments', {'name': 'n100', 'description': 'd99'}, 'update_environment'),
    ('Environment', 'delete', '/v2/environments/n100', None, 'delete_environment'),
    ('Workbook', 'delete', '/v2/workbooks/n100', None, 'delete_workbook'),
    ('ActionDefinition', 'delete', '/v2/actions/n100', None, 'delete_action_definition'),
    ('WorkflowDefinition', 'delete', '/v2/workflows/%(id)s', None, 'delete_workflow_definition'),
    ('CronTrigger', 'delete', '/v2/cron_triggers/n100', None, 'delete_cron_trigger'),
    ('EventTrigger', 'delete', '/v2/event_triggers/%(id)s', None, 'delete_event_trigger'),
    ('EventTrigger', 'put_json', '/v2/event_triggers/%(id)s', {'name': 'renamed'}, 'update_event_trigger'),
    ('WorkflowExecution', 'delete', '/v2/executions/%(id)s', None, 'delete_workflow_execution'),
    ('WorkflowExecution', 'put_json', '/v2/executions/%(id)s', {'description': 'd99'}, 'update_workflow_execution'),
    ('ActionExecution', 'delete', '/v2/action_executions/%(id)s', None, 'delete_action_execution'),
]


def suite_rest(ctx):
    rest_app()
    cfg = boot()['cfg']
    cfg.CONF.set_default('allow_action_execution_deletion', True, group='api')
    n = 0
    statuses = {}
    errors = []
    owner_status = {}
    # 1. private rows of project pA: never readable by pB, by id, by name, in lists, with all_projects
    for (model, by_id, by_name, lst, allp) in REST_ITEMS:
        wipe()
        if model == 'DynamicActionDefinition':
            insert_row('CodeSource', 50, 'pA', 'private', 150, 0, 8)
        insert_row(model, 1, 'pA', 'private', 100, 0, 5)
        before = snapshot()
        urls = [u % {'id': uid(1)} for u in (by_id, by_name) if u]
        for u in urls:
            owner_status[u.replace(uid(1), '<id>')] = req('pA', False, 'get', u)[0]
            st, body = req('pB', False, 'get', u)
            n += 1
            statuses['item:%d' % st] = statuses.get('item:%d' % st, 0) + 1
            ctx.count('rest', ('item', model, u))
            if 200 <= st < 300:
                ctx.fail('rest-private-read:GET %s' % u.replace(uid(1), '<id>'),
                         'GET %s as project pB returns the private %s of project pA (status %d)' % (u, model, st),
                         {'rest': 'GET', 'url': u, 'model': model})
        for u in [lst, lst + '?all_projects=true' if allp else None, lst + '?project_id=' + P('pA'), lst + '?name=n100']:
            if not u:
                continue
            st, body = req('pB', False, 'get', u)
            n += 1
            statuses['list:%d' % st] = statuses.get('list:%d' % st, 0) + 1
            ctx.count('rest', ('list', model, u))
            if st >= 500:
                errors.append([u, st, body[:160]])
            if 200 <= st < 300 and (uid(1) in body or '"n100"' in body):
                ctx.fail('rest-private-read:GET %s' % u.replace(P('pA'), '<other-project>'), 'GET %s as project pB lists the private %s of project pA (status %d)'
                         % (u, model, st), {'rest': 'GET', 'url': u, 'model': model})
        if snapshot() != before:
            ctx.fail('rest-private-write:GET', 'a GET changed rows', {'model': model})
    # 2. writes on PUBLIC rows of pA by pB, and on private ones
    for scope in ('public', 'private'):
        for (model, method, url, body, root) in REST_WRITES:
            wipe()
            insert_row(model, 1, 'pA', scope, 100, 0, 5)
            before = snapshot()
            u = url % {'id': uid(1)}
            args = [body] if body is not None else []
            st, rbody = req('pB', False, method, u, *args)
            n += 1
            statuses['write:%d' % st] = statuses.get('write:%d' % st, 0) + 1
            ctx.count('rest', ('write', scope, model, method, url))
            after = snapshot()
            if after[0] != before[0]:
                gone = (model, uid(1)) not in after[0]
                sig = ('foreign-write:%s' if scope == 'public' else 'private-write:%s') % root
                ctx.fail(sig, '%s %s as foreign non-admin project pB %s the %s %s of project pA (status %d)'
                         % (method.split('_')[0].upper(), u, 'deleted' if gone else 'changed', scope, model, st),
                         {'rest': method, 'url': u, 'body': body, 'scope': scope, 'model': model})
    # 3. project_id in a request body never becomes the owner
    for (url, body, model) in [('/v2/environments', {'name': 'n102', 'variables': {}, 'project_id': P('pA')}, 'Environment'),
                               ('/v2/event_triggers', {'name': 'n102', 'workflow_id': uid(1), 'exchange': 'x', 'topic': 't', 'event': 'e',
                                                       'project_id': P('pA')}, 'EventTrigger')]:
        wipe()
        insert_row('WorkflowDefinition', 1, 'pB', 'private', 100, 0, 5)
        st, rbody = req('pB', False, 'post_json', url, body)
        n += 1
        ctx.count('rest', ('post', url))
        for key, r in snapshot()[0].items():
            if key[0] == model and r['project_id'] != 'pB':
                ctx.fail('rest-owner-not-forced:POST %s' % url, 'POST %s as project pB created a row owned by %s' % (url, r['project_id']),
                         {'rest': 'post_json', 'url': url, 'body': body})
    # 4. membership through REST
    wipe()
    insert_row('WorkflowDefinition', 1, 'pA', 'private', 100, 0, 5)
    eng = boot()['sa_base'].get_engine()
    with eng.begin() as conn:
        t = secure_tables()['WorkflowDefinition'].__table__
        conn.execute(t.update().values(definition=WF_DEF, spec=WF_SPEC))
    base = '/v2/workflows/%s/members' % uid(1)
    steps = []
    steps.append(('pC self-offer', req('pC', False, 'post_json', base, {'member_id': P('pC')})[0]))
    steps.append(('pA offers pB', req('pA', False, 'post_json', base, {'member_id': P('pB')})[0]))
    st_pending = req('pB', False, 'get', '/v2/workflows/%s' % uid(1))[0]
    steps.append(('pB reads while pending', st_pending))
    steps.append(('pA accepts for pB', req('pA', False, 'put_json', base + '/' + P('pB'), {'status': 'accepted'})[0]))
    st_after_forged = req('pB', False, 'get', '/v2/workflows/%s' % uid(1))[0]
    steps.append(('pB reads after pA tried to accept', st_after_forged))
    steps.append(('pB accepts', req('pB', False, 'put_json', base + '/' + P('pB'), {'status': 'accepted'})[0]))
    st_acc = req('pB', False, 'get', '/v2/workflows/%s' % uid(1))[0]
    steps.append(('pB reads once accepted', st_acc))
    steps.append(('pB re-offers to pC', req('pB', False, 'post_json', base, {'member_id': P('pC')})[0]))
    steps.append(('pC accepts', req('pC', False, 'put_json', base + '/' + P('pC'), {'status': 'accepted'})[0]))
    st_c = req('pC', False, 'get', '/v2/workflows/%s' % uid(1))[0]
    steps.append(('pC reads', st_c))
    offers_by_owner_to_c = [m for m in snapshot()[1] if m[2] == 'pA' and m[3] == 'pC']
    n += len(steps)
    ctx.count('rest', ('members',), evaluations=len(steps))
    if st_pending == 200 or st_after_forged == 200:
        ctx.fail('rest-member-nonaccepted-grants', 'a pending offer (or one the owner tried to accept himself) lets pB read the workflow',
                 {'rest_members': steps})
    if st_acc != 200:
        ctx.fail('rest-shared-unreadable', 'an accepted share does not let pB read the workflow (status %d)' % st_acc, {'rest_members': steps})
    if steps[0][1] in (200, 201):
        ctx.fail('rest-self-offer', 'a project that cannot see the workflow created an offer for it', {'rest_members': steps})
    if st_c == 200 and not offers_by_owner_to_c:
        ctx.fail('reshare-by-member', 'project pC reads the private workflow of pA through an offer made by member pB; pA never offered it to pC '
                 'and can neither list nor delete that offer', {'rest_members': steps})
    s = ctx.cov['suites'].setdefault('rest', {})
    s['requests'] = n
    s['statuses'] = statuses
    s['member_steps'] = steps
    s['server_errors'] = errors[:5]
    s['owner_probe'] = owner_status
    if sum(1 for v in owner_status.values() if v == 200) < 5:
        ctx.disagree('rest', 'owner probe', 'the owner reads its own private rows (>= 5 endpoints answer 200)', owner_status)


# ---------------------------------------------------------------------------
# REST list layer: every controller method that lists through rest_utils.get_all (from the extractor
# translate/tr_restlists.py) x generated query strings x callers, on the real pecan application.
# Compared with Tenancy.rest_view (insecure decision + policy gates + _secure_query) and judged directly:
# a non-admin response - and what the db layer handed to the controller - holds only rows the caller may see.

LIST_URLS = {
    'workbook.WorkbooksController.get_all': '/v2/workbooks',
    'workflow.WorkflowsController.get_all': '/v2/workflows',
    'environment.EnvironmentController.get_all': '/v2/environments',
    'cron_trigger.CronTriggersController.get_all': '/v2/cron_triggers',
    'event_trigger.EventTriggersController.get_all': '/v2/event_triggers',
    'execution.ExecutionsController.get_all': '/v2/executions',
    'task.TasksController.get_all': '/v2/tasks',
    'task.TaskExecutionsController.get_all': '/v2/tasks/%(parent)s/workflow_executions',
    'task.ExecutionTasksController.get_all': '/v2/executions/%(parent)s/tasks',
    'action_execution.ActionExecutionsController.get_all': '/v2/action_executions',
    'action_execution.TasksActionExecutionController.get_all': '/v2/tasks/%(parent)s/action_executions',
    'code_source.CodeSourcesController.get_all': '/v2/code_sources',
    'dynamic_action.DynamicActionsController.get_all': '/v2/dynamic_actions',
}
PARENT_COL = {'task.TaskExecutionsController.get_all': 'task_execution_id',
              'task.ExecutionTasksController.get_all': 'workflow_execution_id',
              'action_execution.TasksActionExecutionController.get_all': 'task_execution_id'}
PARENT = 900

# rows of the model under test: (n, owner, scope, name token); 6 is shared with pB (accepted), 7 offered (pending)
LIST_ROWS = [(1, 'pA', 'private', 100), (2, 'pA', 'public', 101), (3, 'pB', 'private', 102), (4, 'pC', 'private', 103),
             (5, 'pC', 'public', 104), (6, 'pA', 'private', 105), (7, 'pA', 'private', 106)]
LIST_MEMS = [(6, 'pA', 'pB', 'accepted'), (7, 'pA', 'pB', 'pending')]

OTHER_FILTER_VALUES = {
    'workflow_name': 'w', 'state': 'RUNNING', 'description': 'd5', 'tags': 'a', 'created_at': '2030-01-01 00:00:01',
    'updated_at': '2030-01-01 00:00:01', 'namespace': '', 'definition': 'd5', 'input': 'x', 'output': 'x', 'params': 'x',
    'pattern': '* * * * *', 'remaining_executions': '1', 'state_info': 'd5', 'scope': 'private', 'variables': 'x',
    'workflow_input': 'x', 'workflow_params': 'x', 'processed': 'false', 'published': 'x', 'result': 'x', 'env': 'x',
    'accepted': 'false', 'is_sync': 'false', 'action_name': 'x', 'task_name': 'x', 'workflow_namespace': '',
    'first_execution_time': '2030-01-01 00:00:01', 'next_execution_time': '2031-01-01 00:00:00',
}


def load_rest_table(ctx=None):
    sys.path.insert(0, os.path.join(core.VERIF, 'translate'))
    import tr_restlists
    return tr_restlists.analyse(core.REPO)


def seed_list_db(ep):
    m = ep['model']
    wipe()
    if m == 'DynamicActionDefinition':
        insert_row('CodeSource', 50, 'pA', 'private', 150, 0, 8)
        insert_row('CodeSource', 51, 'pB', 'private', 151, 0, 9)
    for (n, owner, scope, name) in LIST_ROWS:
        insert_row(m, n, owner if m != 'DynamicActionDefinition' or owner in ('pA', 'pB') else owner, scope, name, 0, 10 + n)
    for (n, owner, member, status) in LIST_MEMS:
        insert_member(n, SHAREABLE.get(m, 'workflow'), owner, member, status)
    col = PARENT_COL.get(ep['name'])
    if col:
        insert_row('TaskExecution' if col == 'task_execution_id' else 'WorkflowExecution', PARENT, 'pB', 'private', 190, 0, 1)
        eng = boot()['sa_base'].get_engine()
        with eng.begin() as conn:
            conn.execute(secure_tables()[m].__table__.update().values(**{col: uid(PARENT)}))


def list_requests(ep, thorough, rng):
    """query-string dicts; 'modelled' = the model predicts the exact result (all_projects, project_id, name,
    presentation parameters), otherwise the extra filter can only narrow it"""
    params = set(ep['params'])
    reqs = [({}, True)]
    pids = ['pA', 'pB', 'pC']
    has_pid = 'project_id' in params
    has_allp = 'all_projects' in params
    has_name = 'name' in params
    if has_allp:
        reqs.append(({'all_projects': 'true'}, True))
        reqs.append(({'all_projects': 'false'}, True))
    if has_pid:
        for pid in pids:
            reqs.append(({'project_id': P(pid)}, True))
        if has_allp:
            reqs.append(({'project_id': P('pA'), 'all_projects': 'true'}, True))
    if has_name:
        for nm in (100, 102, 105):
            reqs.append(({'name': 'n%d' % nm}, True))
            if has_pid:
                reqs.append(({'name': 'n%d' % nm, 'project_id': P('pA')}, True))
        for op in ('neq:n102', 'in:n100,n105,n102', 'has:n10', 'nin:n102'):
            reqs.append(({'name': op}, False))
            if has_pid:
                reqs.append(({'name': op, 'project_id': P('pA')}, False))
    pres = [{'sort_keys': 'id', 'sort_dirs': 'desc'}, {'fields': 'id'}, {'limit': '50'}, {'limit': '2'},
            {'marker': uid(3)}, {'marker': uid(1)}]
    if has_name:
        pres += [{'fields': 'id,name'}, {'sort_keys': 'name,id', 'sort_dirs': 'desc,asc'}]
    for pr in pres:
        exact = 'limit' not in pr or pr['limit'] == '50'
        exact = exact and 'marker' not in pr
        reqs.append((dict(pr), exact))
        if has_pid:
            reqs.append((dict(pr, project_id=P('pA')), exact))
        if has_allp and thorough:
            reqs.append((dict(pr, all_projects='true'), exact))
    for f in ep['filters']:
        if f in ('name', 'project_id') or f not in params:
            continue
        v = OTHER_FILTER_VALUES.get(f)
        if f in ('workflow_id', 'root_execution_id'):
            v = uid(1)
        if f in ('task_execution_id', 'workflow_execution_id'):
            v = uid(PARENT)
        if v is None:
            continue
        reqs.append(({f: v}, False))
        if has_pid:
            reqs.append(({f: v, 'project_id': P('pA')}, False))
        if thorough:
            reqs.append(({f: 'neq:' + v}, False))
            if has_pid:
                reqs.append(({f: 'neq:' + v, 'project_id': P('pC')}, False))
    if thorough:
        keys = [f for f in ep['filters'] if f in params and f in OTHER_FILTER_VALUES]
        for _ in range(25):
            q = {}
            for f in rng.sample(keys, min(len(keys), rng.choice([1, 2, 3]))):
                q[f] = OTHER_FILTER_VALUES[f]
            if has_pid and rng.random() < 0.7:
                q['project_id'] = P(rng.choice(pids))
            if has_allp and rng.random() < 0.3:
                q['all_projects'] = 'true'
            if has_name and rng.random() < 0.4:
                q['name'] = rng.choice(['n100', 'n102', 'neq:n102'])
            reqs.append((q, False))
    return reqs


class FetchSpy:
    """records what the db layer hands to the REST layer during one request"""

    def __init__(self):
        self.rows = []
        self.calls = 0

    def install(self):
        from unittest import mock
        sa_api = boot()['sa_api']
        real = sa_api._get_collection
        spy = self

        def wrapped(model, *a, **k):
            res = real(model, *a, **k)
            spy.calls += 1
            for x in res:
                rid = getattr(x, 'id', None)
                if rid is None and isinstance(x, tuple) and x:
                    rid = x[0]
                spy.rows.append((model.__name__, rid))
            return res
        self.patch = mock.patch.object(sa_api, '_get_collection', wrapped)
        self.patch.start()

    def reset(self):
        self.rows, self.calls = [], 0

    def stop(self):
        self.patch.stop()


def rest_view_expr(ep, rows_db, project, admin, q):
    allp = 'all_projects' in q    # wsme turns any non-empty text (also 'false') into True for these parameters
    pid = PROJ[UNP(q['project_id'])] if 'project_id' in q else None
    nm = None
    if 'name' in q:
        nm = int(q['name'][1:])
    return ('rest_view insecure_cond '
            '(match find (fun e => String.eqb (fst e) %s) rest_lists with Some e => snd e | None => '
            'mkListEp Workbook "" RAdminOnly GateNever RAdminOnly false false end) '
            '(match find (fun e => String.eqb (fst (fst e)) %s) db_shapes with Some (_, _, SList q) => q | _ => QInsecure end) '
            '%s (mkCtx %d %s) (mkLreq %s %s %s)' % (
                core.coq_str(ep['name']), core.coq_str(ep['fn']), rows_db, PROJ[project], 'true' if admin else 'false',
                'true' if allp else 'false', coq_opt(pid), coq_opt(nm)))


def suite_rest_lists(ctx):
    from urllib.parse import urlencode
    rt = load_rest_table(ctx)
    rest_app()
    spy = FetchSpy()
    spy.install()
    callers = [('pB', False), ('pAdm', True), ('pA', False)] + ([('pC', False)] if ctx.thorough() else [])
    exprs, recs = [], []
    stats = {}
    unknown = [e['name'] for e in rt['endpoints'] if e['name'] not in LIST_URLS]
    if unknown:
        ctx.disagree('rest_lists', 'endpoints', 'every list endpoint has a URL in the harness', unknown)
    try:
        for ep in rt['endpoints']:
            if ep['name'] not in LIST_URLS:
                continue
            seed_list_db(ep)
            snap = snapshot()
            rows_db = model_db_from(snap)
            base = LIST_URLS[ep['name']] % {'parent': uid(PARENT)}
            table_rows = {rid: r for (mname, rid), r in snap[0].items() if mname == ep['model']}
            shared = {a for (a, t, o, mm, st) in snap[1] if st == 'accepted' and t == SHAREABLE.get(ep['model']) and mm == 'pB'}
            for (q, exact) in list_requests(ep, ctx.thorough(), ctx.rng):
                url = base + ('?' + urlencode(q) if q else '')
                for (project, admin) in callers:
                    spy.reset()
                    st, body = req(project, admin, 'get', url)
                    fetched = [rid for (mname, rid) in spy.rows if mname == ep['model']]
                    ids = None
                    if st == 200:
                        try:
                            js = json.loads(body)
                            lst = next(v for v in js.values() if isinstance(v, list))
                            ids = [x.get('id') for x in lst]
                        except Exception:
                            ids = None
                    klass = 'ok' if st == 200 and ids is not None else 'forbidden' if st == 403 else \
                        'notfound' if st == 404 else 'rejected' if st == 400 else 'error%d' % st
                    key = '%s/%s' % (klass, 'admin' if admin else 'user')
                    stats[key] = stats.get(key, 0) + 1
                    ctx.count('rest_lists', (ep['name'], tuple(sorted(q.items())), project))
                    # ---- oracle: what a non-admin receives, and what the db layer handed over for it
                    if not admin:
                        seen = set(ids or []) | set(fetched)
                        for rid in seen:
                            r = table_rows.get(rid)
                            if r is None:
                                continue
                            mine = r['project_id'] == project
                            ok = mine or r['scope'] == 'public' or (project == 'pB' and rid in shared)
                            if not ok:
                                pn = sorted(k for k in q if k in ('all_projects', 'project_id')) or ['-']
                                ctx.fail('rest-list-private-read:%s?%s' % (LIST_URLS[ep['name']].replace('%(parent)s', '<id>'), '&'.join(pn)),
                                         'GET %s as non-admin project %s %s the private %s row %s (%s) of project %s'
                                         % (url, project, 'lists' if rid in (ids or []) else 'fetches from the db layer',
                                            ep['model'], rid, r.get('name'), r['project_id']),
                                         {'rest_list': ep['name'], 'url': url, 'project': project, 'query': q, 'status': st})
                                break
                    # ---- correspondence with the model
                    marker_refused = 'marker' in q and st == 404
                    if klass in ('rejected',) and set(q) <= {'all_projects', 'project_id', 'name', 'fields', 'sort_keys', 'sort_dirs', 'limit'}:
                        ctx.disagree('rest_lists', {'url': url, 'project': project}, 'request accepted', 'status 400: %s' % body[:120])
                        continue
                    if klass.startswith('error') or klass in ('rejected', 'notfound') or marker_refused:
                        continue    # refused before / without listing: stricter than the model, nothing to compare
                    exprs.append(rest_view_expr(ep, rows_db, project, admin, {k: v for k, v in q.items()
                                                                           if k in ('all_projects', 'project_id') or (k == 'name' and ':' not in v)}))
                    recs.append(({'endpoint': ep['name'], 'url': url, 'project': project, 'admin': admin}, klass,
                                 sorted(tok_id(i, 4) for i in (ids or [])), exact and 'marker' not in q))
            if snapshot() != snap:
                ctx.fail('rest-list-writes', 'list requests changed rows of %s' % ep['model'], {'rest_list': ep['name']})
    finally:
        spy.stop()
    res = core.coq_eval('c15restlists', IMPORTS, exprs, chunk=200)
    for (case, klass, ids, exact), r in zip(recs, res):
        ctx.cov['disagreements_checked'] += 1
        if r is None:
            ctx.disagree('rest_lists', case, 'no model output', [klass, ids])
            continue
        tag, mids = parse_coq(r)
        mids = sorted(mids)
        if tag != klass or (exact and mids != ids) or (not exact and not set(ids) <= set(mids)):
            ctx.disagree('rest_lists', case, [tag, mids], [klass, ids, 'exact' if exact else 'subset'])
    su = ctx.cov['suites'].setdefault('rest_lists', {})
    su['endpoints'] = len(rt['endpoints'])
    su['insecure_cond'] = rt['insecure_cond']
    su['responses'] = stats
    su['compared_with_model'] = len(recs)
    # the probes must not be vacuous: non-admin requests naming another project are answered, not rejected
    if stats.get('ok/user', 0) < 100:
        ctx.disagree('rest_lists', 'vacuity', 'at least 100 non-admin list requests answered 200', stats)


# ---------------------------------------------------------------------------
# process-wide in-memory stores: several projects use same-named private resources BY NAME in one process
# (the real system action provider with its DynamicActionProvider, the ad-hoc provider, the spec caches of
# mistral.lang.parser).  The dynamic-action module store is compared with Model/TenantCache.v under the key
# kind the extractor reads from the source; everywhere the oracle is: what a project gets / executes by name
# was written by that project.

CODE_STORE = 'mistral/actions/dynamic_action.py:DynamicActionProvider._code_sources'
TC_IMPORTS = ['Model.TenantCache', 'Gen.TenantCaches']
DYN_CODE = ("from mistral_lib import actions\n\n\nclass WhoAmI(actions.Action):\n"
            "    def run(self, context):\n        return '%s|%d'\n")
ADHOC_DEF = "version: '2.0'\n\ngreet%d:\n  base: std.echo\n  base-input:\n    output: \"%s|%d\"\n"
WF_TEXT = "version: '2.0'\n\nwf%d:\n  tasks:\n    t1:\n      action: std.echo output=\"%s|%d\"\n"

TC_CORPUS = [
    # the two-project name collision (second user is served from the first one's slot when keyed by name)
    [('create', 'pA', 7, 100), ('create', 'pB', 7, 200), ('use', 'pA', 7), ('use', 'pB', 7), ('use', 'pA', 7)],
    # the other project has the higher version
    [('create', 'pA', 7, 100), ('create', 'pB', 7, 200), ('update', 'pB', 7, 201), ('update', 'pB', 7, 202),
     ('use', 'pB', 7), ('use', 'pA', 7), ('update', 'pA', 7, 101), ('use', 'pA', 7), ('use', 'pB', 7)],
    # delete and re-create (new id, same name, version 1 again) while another project keeps its slot
    [('create', 'pA', 7, 100), ('create', 'pB', 7, 200), ('use', 'pA', 7), ('use', 'pB', 7), ('delete', 'pA', 7),
     ('create', 'pA', 7, 110), ('use', 'pA', 7), ('use', 'pB', 7), ('update', 'pA', 7, 111), ('use', 'pB', 7), ('use', 'pA', 7)],
    # three projects, two names
    [('create', 'pA', 7, 100), ('create', 'pB', 7, 200), ('create', 'pC', 7, 300), ('create', 'pA', 8, 120), ('create', 'pC', 8, 320),
     ('use', 'pC', 7), ('use', 'pA', 7), ('use', 'pB', 7), ('use', 'pC', 8), ('use', 'pA', 8), ('use', 'pB', 8), ('use', 'pC', 7)],
]


def tc_random_ops(rng, n):
    ops = []
    data = 1000
    for _ in range(n):
        pj = rng.choice(['pA', 'pB', 'pC'])
        nm = rng.choice([7, 7, 8])
        k = rng.choice(['create', 'create', 'use', 'use', 'use', 'use', 'update', 'delete'])
        data += 1
        ops.append((k, pj, nm, data) if k in ('create', 'update') else (k, pj, nm))
    return ops


def dynamic_provider():
    from mistral.services import actions as action_service
    from mistral.actions import dynamic_action
    sp = action_service.get_system_action_provider()
    found = [d for d in getattr(sp, '_delegates', []) if isinstance(d, dynamic_action.DynamicActionProvider)]
    return sp, (found[0] if found else None)


def tc_reset():
    from mistral.lang import parser
    wipe()
    _DIRTY.update(ALL_TABLES)
    parser.clear_caches()
    sp, dp = dynamic_provider()
    if dp is not None:
        dp._code_sources.clear()
    return sp


def parse_tag(out):
    m = re.match(r'^(p\w+)\|(\d+)$', out if isinstance(out, str) else '')
    return (PROJ.get(m.group(1), -1), int(m.group(2))) if m else None


def in_ctx(project, fn, tx=True):
    b = boot()
    b['auth'].set_ctx(mkctx(project))
    try:
        if not tx:      # services open their own transaction
            return ('ok', fn())
        with b['db_api'].transaction():
            return ('ok', fn())
    except (b['exc'].DBEntityNotFoundError, b['exc'].DBDuplicateEntryError, b['exc'].NotAllowedException) as e:
        return (type(e).__name__, None)
    finally:
        b['auth'].set_ctx(None)


def run_dynamic_ops(ops):
    """Drive the real db api + system action provider; returns per op None or (author, data) of what ran."""
    from mistral_lib import serialization
    db_api = boot()['db_api']
    sp = tc_reset()
    results, extra = [], []
    for op in ops:
        kind, pj, nm = op[0], op[1], op[2]
        if kind == 'create':
            def f():
                cs_ = db_api.create_code_source({'name': 'cs%d' % nm, 'namespace': '', 'content': DYN_CODE % (pj, op[3]),
                                                 'version': 1, 'scope': 'private'})
                db_api.create_dynamic_action_definition({'name': 'act%d' % nm, 'namespace': '', 'class_name': 'WhoAmI',
                                                         'code_source_id': cs_.id, 'code_source_name': cs_.name, 'scope': 'private'})
            in_ctx(pj, f)
            results.append(None)
        elif kind == 'update':
            in_ctx(pj, lambda: db_api.update_code_source('cs%d' % nm, {'content': DYN_CODE % (pj, op[3])}, namespace=''))
            results.append(None)
        elif kind == 'delete':
            in_ctx(pj, lambda: db_api.delete_dynamic_action_definition('act%d' % nm, namespace=''))
            in_ctx(pj, lambda: db_api.delete_code_source('cs%d' % nm, namespace=''))
            results.append(None)
        else:
            def g():
                desc = sp.find('act%d' % nm, '')
                if desc is None:
                    return None
                action = desc.instantiate({}, {})
                direct = action.run(None)
                # what a remote executor would run: serialize / deserialize the action
                ps = serialization.get_polymorphic_serializer()
                again = ps.deserialize(ps.serialize(action)).run(None)
                return direct, again, getattr(desc, 'project_id', None)
            st, r = in_ctx(pj, g)
            if st != 'ok' or r is None:
                results.append(None)
                extra.append(None)
            else:
                results.append(parse_tag(r[0]))
                extra.append((parse_tag(r[1]), UNP(r[2])))
    _DIRTY.update(ALL_TABLES)
    return results, extra


def coq_top(op, ids):
    kind, pj, nm = op[0], PROJ[op[1]], op[2]
    if kind == 'create':
        ids[0] += 1
        return '(TCreate %d %d %d %d)' % (pj, nm, op[3], ids[0])
    if kind == 'update':
        return '(TUpdate %d %d %d)' % (pj, nm, op[3])
    if kind == 'delete':
        return '(TDelete %d %d)' % (pj, nm)
    return '(TUse %d %d)' % (pj, nm)


def suite_tenant_caches(ctx):
    sys.path.insert(0, os.path.join(core.VERIF, 'translate'))
    import tr_tenantcaches
    try:
        inv = tr_tenantcaches.analyse(core.REPO)
        kinds = {s_['id']: s_['kind'] for s_ in inv['stores'] if s_['class'] in ('tenant', 'multi')}
    except Exception as e:   # the extractor's obligation is already recorded as broken: oracle only
        ctx.notes.append('tenant cache extractor failed: %s' % str(e)[:200])
        inv, kinds = None, {}
    boot()
    seqs = [list(c) for c in TC_CORPUS] + [tc_random_ops(ctx.rng, 14) for _ in range(ctx.n(30, 400))]
    exprs, recs = [], []
    uses = 0
    for si, ops in enumerate(seqs):
        results, extra = run_dynamic_ops(ops)
        ei = 0
        for oi, (op, r) in enumerate(zip(ops, results)):
            if op[0] != 'use':
                continue
            ctx.count('tenant_caches', ('dyn', si, oi))
            x = extra[ei] if ei < len(extra) else None
            ei += 1
            if r is None:
                continue
            uses += 1
            for what, got in (('executed', r), ('executed after serialization', x[0] if x else None)):
                if got is not None and got[0] != PROJ[op[1]]:
                    ctx.fail('foreign-content:dynamic-action-module:DynamicActionProvider._code_sources',
                             'project %s resolved its private dynamic action act%d by name and %s the code of project %s '
                             '(same-named private code sources in one process)' % (op[1], op[2], what, PROJ_INV.get(got[0], got[0])),
                             {'tenant_cache': 'dynamic', 'ops': [list(o) for o in ops[:oi + 1]]})
                    break
            if x and x[1] != op[1]:
                ctx.fail('foreign-content:dynamic-action-descriptor', 'project %s got the action descriptor of project %s' % (op[1], x[1]),
                         {'tenant_cache': 'dynamic', 'ops': [list(o) for o in ops[:oi + 1]]})
        if CODE_STORE in kinds:
            ids = [0]
            exprs.append('match find (fun e => String.eqb (fst e) %s) tenant_stores with Some (_, SlotStore k) => '
                         'run_results k %s | _ => [] end' % (core.coq_str(CODE_STORE), '[%s]' % '; '.join(coq_top(o, ids) for o in ops)))
            recs.append((si, ops, results))
    if exprs:
        res = core.coq_eval('c15tcache', TC_IMPORTS, exprs, chunk=60)
        for (si, ops, results), r in zip(recs, res):
            ctx.cov['disagreements_checked'] += 1
            model = [(a, d) if flag else None for (flag, a, d) in [tuple(x) for x in parse_coq(r.replace('true', 'True').replace('false', 'False'))]] \
                if r is not None else None
            impl = [tuple(x) if x else None for x in results]
            if model != impl:
                ctx.disagree('tenant_caches', {'sequence': si, 'ops': [list(o) for o in ops]}, model, impl)
    su = ctx.cov['suites'].setdefault('tenant_caches', {'evaluations': 0, 'distinct_nontrivial': 0})
    su['dynamic_sequences'] = len(seqs)
    su['dynamic_uses_answered'] = uses
    su['store_kinds'] = kinds
    if uses < 20:
        ctx.disagree('tenant_caches', 'vacuity', 'dynamic actions resolve and run', uses)
    suite_named_content(ctx)


def suite_named_content(ctx):
    """ad-hoc actions and workflow specs (by definition and by execution) of several projects under the same name"""
    from mistral.lang import parser
    from mistral.services import adhoc_actions
    from mistral.services import workflows as wf_service
    db_api = boot()['db_api']
    seqs = [list(c) for c in TC_CORPUS] + [tc_random_ops(ctx.rng, 12) for _ in range(ctx.n(6, 80))]
    answered = {'adhoc': 0, 'wfdef': 0, 'wfex': 0}
    for si, ops in enumerate(seqs):
        sp = tc_reset()
        wf_ex_of = {}
        for oi, op in enumerate(ops):
            kind, pj, nm = op[0], op[1], op[2]
            replay = {'tenant_cache': 'named', 'ops': [list(o) for o in ops[:oi + 1]]}
            if kind == 'create':
                in_ctx(pj, lambda: adhoc_actions.create_actions(ADHOC_DEF % (nm, pj, op[3]), scope='private'), tx=False)
                st, wfs = in_ctx(pj, lambda: wf_service.create_workflows(WF_TEXT % (nm, pj, op[3]), scope='private'), tx=False)

                def mkex():
                    wf_def = db_api.get_workflow_definition('wf%d' % nm, namespace='')
                    ex = db_api.create_workflow_execution({'name': 'wf%d' % nm, 'spec': wf_def.spec, 'state': 'RUNNING',
                                                           'workflow_name': wf_def.name, 'workflow_id': wf_def.id,
                                                           'input': {}, 'params': {}, 'context': {}, 'runtime_context': {}})
                    return ex.id
                if st == 'ok':
                    st2, exid = in_ctx(pj, mkex)
                    if st2 == 'ok':
                        wf_ex_of[(pj, nm)] = exid
            elif kind == 'update':
                in_ctx(pj, lambda: adhoc_actions.update_actions(ADHOC_DEF % (nm, pj, op[3]), scope='private'), tx=False)
                in_ctx(pj, lambda: wf_service.update_workflows(WF_TEXT % (nm, pj, op[3]), scope='private'), tx=False)
            elif kind == 'delete':
                in_ctx(pj, lambda: db_api.delete_action_definition('greet%d' % nm, namespace=''))
                in_ctx(pj, lambda: db_api.delete_workflow_definition('wf%d' % nm, namespace=''))
            else:
                def use_adhoc():
                    desc = sp.find('greet%d' % nm, '')
                    if desc is None:
                        return None
                    out = desc.instantiate({}, {}).run(None)
                    return getattr(out, 'data', out)

                def use_wfdef():
                    wf_def = db_api.get_workflow_definition('wf%d' % nm, namespace='')
                    spec = parser.get_workflow_spec_by_definition_id(wf_def.id, (wf_def.updated_at, wf_def.checksum))
                    return spec.get_tasks()['t1'].get_input().get('output')

                def use_wfex():
                    exid = wf_ex_of.get((pj, nm))
                    if exid is None:
                        return None
                    db_api.get_workflow_execution(exid)     # what the engine does before it asks for the spec
                    spec = parser.get_workflow_spec_by_execution_id(exid)
                    return spec.get_tasks()['t1'].get_input().get('output')
                for tag, f, sig in (('adhoc', use_adhoc, 'foreign-content:adhoc-action:AdHocActionProvider'),
                                    ('wfdef', use_wfdef, 'foreign-content:workflow-spec:_WF_DEF_CACHE'),
                                    ('wfex', use_wfex, 'foreign-content:workflow-spec:_WF_EX_CACHE')):
                    st, out = in_ctx(pj, f)
                    ctx.count('tenant_caches', (tag, si, oi))
                    got = parse_tag(out) if st == 'ok' else None
                    if got is None:
                        continue
                    answered[tag] += 1
                    if got[0] != PROJ[pj]:
                        ctx.fail(sig, 'project %s asked for its private %s by name and got the content of project %s'
                                 % (pj, {'adhoc': 'ad-hoc action greet%d' % nm, 'wfdef': 'workflow wf%d (spec by definition)' % nm,
                                         'wfex': 'workflow wf%d (spec by execution)' % nm}[tag], PROJ_INV.get(got[0], got[0])), replay)
    _DIRTY.update(ALL_TABLES)
    ctx.cov['suites']['tenant_caches']['named_content_answered'] = answered
    if min(answered.values()) < 10:
        ctx.disagree('tenant_caches', 'vacuity', 'ad-hoc actions and workflow specs resolve', answered)


# ---------------------------------------------------------------------------
# expression functions (oracle only)

def suite_expr(ctx):
    from unittest import mock
    b = boot()
    db_api, auth, exc = b['db_api'], b['auth'], b['exc']
    from mistral.expressions import std_functions as sf
    wipe()
    insert_row('WorkflowExecution', 1, 'pA', 'private', 100, 0, 5)
    insert_row('WorkflowExecution', 3, 'pB', 'private', 100, 0, 7)
    insert_row('TaskExecution', 11, 'pA', 'private', 100, 0, 5)
    insert_row('TaskExecution', 13, 'pB', 'private', 100, 0, 7)
    eng = b['sa_base'].get_engine()
    models = b['models']
    with eng.begin() as conn:
        conn.execute(models.TaskExecution.__table__.update().where(models.TaskExecution.id == uid(11)).values(workflow_execution_id=uid(1)))
        conn.execute(models.TaskExecution.__table__.update().where(models.TaskExecution.id == uid(13)).values(workflow_execution_id=uid(3)))
        conn.execute(models.WorkflowExecution.__table__.update().values(root_execution_id=None, context={'secret': 'x'}))
    secret = {uid(1), uid(11)}
    ectx = {'__execution': {'id': uid(1)}, '__task_execution': {'id': uid(11), 'name': 'n100'}}
    calls = [
        ('executions', lambda: sf.executions_(ectx)),
        ('executions(id)', lambda: sf.executions_(ectx, id=uid(1))),
        ('executions(state)', lambda: sf.executions_(ectx, state='RUNNING')),
        ('execution', lambda: sf.execution_(ectx)),
        ('tasks', lambda: sf.tasks_(ectx)),
        ('tasks(wf_ex)', lambda: sf.tasks_(ectx, workflow_execution_id=uid(1))),
        ('tasks(wf_ex, recursive)', lambda: sf.tasks_(ectx, workflow_execution_id=uid(1), recursive=True)),
        ('tasks(state)', lambda: sf.tasks_(ectx, state='RUNNING')),
        ('task', lambda: sf.task_(ectx)),
        ('task(name)', lambda: sf.task_(dict(ectx, __task_execution=None), 'n100')),
        ('global', lambda: sf.global_(ectx, 'secret')),
    ]
    seen = {}
    _DIRTY.update(ALL_TABLES)
    with mock.patch.object(sf, '_convert_to_user_model', lambda t: {'id': t.id}):
        for name, f in calls:
            for project in ('pB', 'pA'):
                auth.set_ctx(mkctx(project))
                try:
                    with db_api.transaction():
                        r = f()
                        out = repr([x.id if hasattr(x, 'id') else x for x in r] if isinstance(r, list) else r)
                except exc.DBEntityNotFoundError:
                    out = 'notfound'
                except Exception as e:
                    out = 'error:%s' % type(e).__name__
                finally:
                    auth.set_ctx(None)
                ctx.count('expr', (name, project))
                seen['%s/%s' % (name, project)] = out[:80]
                if project == 'pB' and (any(s in out for s in secret) or out == "'x'"):
                    ctx.fail('expr-private-read:%s' % name.split('(')[0], 'expression function %s evaluated under project pB returns data of '
                             'project pA: %s' % (name, out[:120]), {'expr': name})
    # the owner does get its data through the same calls (the probe is not vacuous)
    if uid(1) not in seen.get('executions/pA', '') or uid(11) not in seen.get('tasks(wf_ex)/pA', ''):
        ctx.disagree('expr', 'owner probe', 'owner sees own execution and task', seen)
    ctx.cov['suites'].setdefault('expr', {})['results'] = seen


# ---------------------------------------------------------------------------
# regression corpus: the witnesses of the repaired defects F2 / F7 (corpus/C15/regressions.json, taken from the
# replay files the check wrote before /repo commits 11fed235 and 855c3b2d) must now be refused

REGRESSIONS = os.path.join(core.VERIF, 'corpus', 'C15', 'regressions.json')


def suite_regressions(ctx, table):
    by_name = {e['name']: e for e in table['entries']}
    cases = json.load(open(REGRESSIONS))
    seen = {}
    for case in cases:
        r, was = case['replay'], case['was']
        if 'cell' in r:
            cell = r['cell']
            entry = by_name.get(cell['fn'])
            if entry is None:
                ctx.disagree('regressions', case['was'], 'function still exists', 'function %s is gone' % cell['fn'])
                continue
            rows, mems, before, outcome, after, ca = run_cell(cell, entry)
            key = (cell['model'], uid(1))
            intact = before[0].get(key) is not None and before[0].get(key) == after[0].get(key)
            refused = outcome[0] in ('denied', 'notfound') or entry['kind'] == 'delete_all'
            seen[was] = outcome[0]
            oracle_cell(ctx, cell, entry, outcome, before, after)
        elif 'rest' in r and 'url' in r:
            rest_app()
            wipe()
            insert_row(r['model'], 1, 'pA', r.get('scope', 'public'), 100, 0, 5)
            before = snapshot()
            st, body = req('pB', False, r['rest'], r['url'], *([r['body']] if r.get('body') is not None else []))
            after = snapshot()
            key = (r['model'], uid(1))
            intact = before[0].get(key) == after[0].get(key)
            refused = st >= 400
            seen[was] = st
        elif 'rest_members' in r:
            continue   # replayed step by step in suite rest (signature reshare-by-member)
        else:
            continue
        ctx.count('regressions', was)
        ctx.cov['disagreements_checked'] += 1
        if not (intact and refused):
            ctx.fail('regression:' + was, 'the witness of the repaired defect works again: %s (now: %s, row %s)'
                     % (case['what_was'][:160], seen[was], 'intact' if intact else 'changed or deleted'), r)
    ctx.cov['suites'].setdefault('regressions', {})['outcomes_now'] = seen


def run(ctx):
    ctx.cov['rule'] = ('db_matrix: every tenant-facing db-api function of the generated table x addressing x actor relation x scope x '
                       'name collision x supplied project_id (exhaustive, distinct = distinct cell; non-trivial = caller is not the owner); '
                       'members: op x caller x offer state x target x variant (exhaustive); histories: seeded random call sequences on '
                       'richer states (3 projects, namespaces, shares in every status, insecure=True, admin), each step compared from the '
                       'real state; rest / expr: fixed scenario lists')
    table = load_table(ctx)
    boot()
    if table.get('degraded'):
        search(ctx, table)
        return
    ctx.cov['table'] = {
        'functions': len([e for e in table['entries'] if e['kind'] != 'internal']),
        'internal': sorted(e['name'] for e in table['entries'] if e['kind'] == 'internal'),
        'unguarded_writes': sorted(e['name'] for e in table['entries'] if is_writer(e) and not guarded(e)),
        'guarded_writes': sorted(e['name'] for e in table['entries'] if is_writer(e) and guarded(e)),
        'unhooked_models': sorted(set(table['secure_models']) - set(table['hooked_models'])),
        'skipped': {k: len(v) for k, v in table['skipped'].items()},
    }
    import time
    walls = {}
    cells = all_cells(table)
    for name, f in [('regressions', lambda: suite_regressions(ctx, table)),
                    ('db_matrix', lambda: suite_db_matrix(ctx, table, cells)),
                    ('members', lambda: suite_members(ctx)),
                    ('histories', lambda: suite_histories(ctx, table, ctx.n(60, 900), ctx.n(8, 10))),
                    ('rest', lambda: suite_rest(ctx)),
                    ('rest_lists', lambda: suite_rest_lists(ctx)),
                    ('tenant_caches', lambda: suite_tenant_caches(ctx)),
                    ('expr', lambda: suite_expr(ctx))]:
        t0 = time.time()
        f()
        walls[name] = round(time.time() - t0, 1)
    ctx.cov['suite_wall_s'] = walls
    ctx.assumptions += ['sqlite in-memory database stands for the production database: filter / first / delete semantics only',
                        'security contexts are built directly (keystone and the policy layer are C16)',
                        'engine-internal db functions listed in coverage.table.internal are called only by the engine/services '
                        '(the extractor checks that mistral/api and mistral/expressions do not reference them)']


def search(ctx, table=None):
    """Wider oracle-only search (no model): the whole matrix, many more histories, REST and expression scenarios."""
    table = table or load_table(ctx)
    boot()
    suite_regressions(ctx, table)
    by_name = {e['name']: e for e in table['entries']}
    for cell in all_cells(table):
        entry = by_name[cell['fn']]
        rows, mems, before, outcome, after, ca = run_cell(cell, entry)
        oracle_cell(ctx, cell, entry, outcome, before, after)
    rng = ctx.rng
    for h in range(400):
        model = rng.choice(HIST_MODELS)
        placed = seed_history_db(rng, model)
        for s in range(10):
            entry, fn, args, kw, ca = random_call(rng, table['entries'], model, placed)
            project = rng.choice(['pA', 'pB', 'pC'])
            before = snapshot()
            _DIRTY.update(ALL_TABLES)
            outcome = call_as(mkctx(project, False), fn, *args, **kw)
            oracle_history_step(ctx, entry, project, False, kw, before, outcome, snapshot())
    for cell in member_cells():
        before, impl, after, expr = run_member_cell(cell)
        oracle_member(ctx, cell, before, impl, after)
    suite_rest(ctx)
    suite_rest_lists(ctx)
    suite_tenant_caches(ctx)
    suite_expr(ctx)


def replay(obj):
    r = obj.get('replay', {})
    sig = obj.get('signature')
    ctx = core.Ctx('C15', 'quick', int(obj.get('seed', 0) or 0))
    boot()
    table = load_table()
    if 'cell' in r:
        cell = r['cell']
        entry = {e['name']: e for e in table['entries']}[cell['fn']]
        rows, mems, before, outcome, after, ca = run_cell(cell, entry)
        oracle_cell(ctx, cell, entry, outcome, before, after)
        print('cell %s\n outcome: %s' % (json.dumps(cell, sort_keys=True), outcome[0]))
    elif 'member_cell' in r:
        before, impl, after, expr = run_member_cell(r['member_cell'])
        oracle_member(ctx, r['member_cell'], before, impl, after)
    elif 'tenant_cache' in r:
        ops = [tuple(o) for o in r['ops']]
        if r['tenant_cache'] == 'dynamic':
            results, extra = run_dynamic_ops(ops)
            print('ops: %s\nwhat ran at each use: %s' % (ops, [x for x in results if x is not None]))
            last = [x for x in results if x is not None][-1] if any(results) else None
            if last is not None and last[0] != PROJ[ops[-1][1]]:
                ctx.fail(sig or 'foreign-content', 'project %s executed the code of project %s' % (ops[-1][1], PROJ_INV.get(last[0])), r)
            for x in extra:
                if x and x[0] and x[0][0] not in [PROJ[o[1]] for o in ops if o[0] == 'use']:
                    pass
        else:
            TC_CORPUS[:] = [ops]
            ctx.tier = 'quick'
            ctx.n = lambda q, t: 0
            ctx.cov['suites']['tenant_caches'] = {}
            suite_named_content(ctx)
    elif 'rest_list' in r:
        rest_app()
        rt = load_rest_table()
        ep = [e for e in rt['endpoints'] if e['name'] == r['rest_list']][0]
        seed_list_db(ep)
        snap = snapshot()
        st, body = req(r['project'], False, 'get', r['url'])
        print('GET %s as non-admin project %s -> %d' % (r['url'], r['project'], st))
        shared = {a for (a, t, o, mm, s_) in snap[1] if s_ == 'accepted' and t == SHAREABLE.get(ep['model']) and mm == r['project']}
        try:
            lst = next(v for v in json.loads(body).values() if isinstance(v, list))
        except Exception:
            lst = []
        for x in lst:
            row = snap[0].get((ep['model'], x.get('id')))
            if row and row['project_id'] != r['project'] and row['scope'] != 'public' and x.get('id') not in shared:
                ctx.fail(sig or 'rest-list-private-read', 'lists the private %s row %s of project %s' % (ep['model'], x.get('id'), row['project_id']), r)
    elif 'rest' in r or 'rest_members' in r:
        suite_rest(ctx)
    elif 'expr' in r:
        suite_expr(ctx)
    elif r.get('history_step'):
        search(ctx)
    else:
        print(json.dumps(obj, indent=1)[:3000])
        return 1
    hits = [f for f in ctx.failures if sig is None or f['signature'] == sig]
    for f in hits[:3]:
        print('STILL FAILS [%s]: %s' % (f['signature'], f['what']))
    if not hits:
        print('the recorded failure no longer occurs (%s)' % sig)
    return 1 if hits else 0
