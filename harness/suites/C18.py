"""C18 - the expiration policy deletes only what it is configured to delete.

Ties Model/Expire.v to the real code (nothing is re-implemented on the implementation side):
  evaluate   mistral.services.expiration_policy.run_execution_expiration_policy on a real in-memory
             sqlite DB (schema from models.py, sqlite_fk=True so ON DELETE CASCADE is live) under a
             virtual clock; rows of all three execution tables before/after  vs  `evaluate`
  queries    db_api.get_expired_executions / get_superfluous_executions (with limit)  vs  expired_q / superfluous_q
  cascade    db_api.delete_workflow_execution(id) as admin on any workflow row  vs  cascade_delete
  gating     ExecutionExpirationPolicy.__init__ (task registered?) and _check_ignored_states_config
             vs  enabled / ignored_ok   (exhaustive over a value grid)
Oracle (no model involved, constants spelled out here): after one evaluation
  - remaining rows are rows of the initial population, unchanged; nothing new
  - a row and its parent row are deleted together or not at all (complete trees, cascade exact,
    no sub-execution / task / action deleted on its own)
  - every deleted parentless row is a workflow execution in SUCCESS/ERROR/CANCELLED minus ignored_states
    that is older than older_than minutes, or has at least max_finished_executions other eligible roots
    that are at least as recent
  - no eligible root is deleted while a strictly older eligible one is kept
  - the evaluation ends within population+2 fetches (watchdog) and raises nothing but the TypeError
    of the unset-older_than configuration (observation F6, population then unchanged)
The model orders ORDER BY ties in creation order; the DB may break them otherwise, so a difference
confined to the tie group that straddles the cut is counted (`ties_resolved_differently`), not reported.

Self-test (scratch worktree of /repo, `VERIF_REPO=/tmp/wt_C18 ./check C18`); every one gave a VIOLATION line
with a replayable failing input (first oracle signature shown):
  M1  api.py get_superfluous_executions: order_by(updated_at.asc())              -> newer-deleted-older-kept
  M2  api.py _get_completed_root_executions_query: drop the task_execution_id IS NULL filter -> deleted-without-parent:w
  M3  api.py _get_completed_root_executions_query: desired_states = TERMINAL_STATES (ignored_states dropped) -> deleted-root-not-eligible:ignored-state
  M4  models.py TaskExecution.workflow_execution_id ondelete='SET NULL'           -> tree-incomplete:t
  M5  api.py get_superfluous_executions: offset(max_finished_executions - 1)      -> deleted-root-not-eligible:neither-old-nor-beyond-count
  M6  api.py get_expired_executions: updated_at <= expiration_time                -> deleted-root-not-eligible:neither-old-nor-beyond-count (age boundary)
  M7  states.py TERMINAL_STATES gains PAUSED                                      -> 14 theorems broken + deleted-root-not-eligible:state-RUNNING-or-PAUSED
  M8  expiration_policy.py _delete_until_depleted without the loop (one batch)    -> newer-deleted-older-kept
  M9  expiration_policy.py _delete skips the delete of ERROR executions           -> nonterminating-loop (watchdog)
  M10 expiration_policy.py timedelta(seconds=older_than)                          -> deleted-root-not-eligible:neither-old-nor-beyond-count
  M11 api.py get_superfluous_executions: `if max_finished_executions is None` (0 no longer disables) -> deleted-root-not-eligible:neither-old-nor-beyond-count
  M12 models.py WorkflowExecution.task_execution_id ondelete='SET NULL'           -> tree-incomplete:w
"""
import datetime
import json

from harness import core
from harness.core import coq_list

GEN = ['States']

MANIFEST = {
    'level_text': 'Coq theorems over Model/Expire.v for ALL virtual times, ALL configurations (older_than / '
                  'max_finished_executions / batch_size each unset, zero, negative or positive; any ignored_states) and '
                  'ALL well-formed populations of workflow/task/action rows (any size, states, ages incl. NULL, projects, '
                  'nesting): the two batch loops terminate within their fuel and equal a one-shot specification '
                  '(C18_exact, batch independent); every deleted row is a descendant-or-self of a finished, not ignored '
                  'root that is older than the age or beyond the count; parentless deleted rows are never '
                  'running/paused; no sub-execution is deleted alone; cascade exact and complete; parent and child rows '
                  'stay or go together; no newer eligible root deleted while an older one is kept; limits enforced. '
                  'Model tied to the code by running run_execution_expiration_policy, get_expired_executions, '
                  'get_superfluous_executions, delete_workflow_execution, ExecutionExpirationPolicy.__init__ and '
                  '_check_ignored_states_config on a real sqlite DB against the model (vm_compute) on generated '
                  'populations and every option shape; TERMINAL_STATES is translated from states.py on every run.',
    'level_note': 'Trusted/modelled-not-verified: SQLAlchemy + sqlite execute the queries and the ON DELETE CASCADE keys as '
                  'modelled (NULL comparisons, negative OFFSET/LIMIT are sqlite semantics; MySQL/PostgreSQL differ for '
                  'negative values and NULL ordering); ORDER BY tie-break is DB specific (compared modulo ties); one '
                  'evaluation runs alone (no concurrent engine deleting the same rows, no delete failure; the '
                  'mysql max-depth fallback delete_workflow_execution_recurse is not exercised on sqlite); older_than '
                  'bounded to +-10^6 minutes (timedelta overflow beyond ~10^9); well-formedness (unique ids, parent '
                  'created before child) is what the foreign keys enforce. F6: older_than unset makes every evaluation '
                  'raise TypeError before any query (count limit dead) - an observation, the property text is not violated.',
    'technique': 'Coq proof (ancestor-closure algebra, stable-sort/filter commutation, loop variant) over a hand model; '
                 'translated state tables; differential correspondence on a real sqlite DB; direct property oracle',
    'design_ref': '6 C18',
}

IMPORTS = ['Gen.States', 'Model.Expire']
NOW = 1000000000           # model time of the virtual clock, seconds
T0 = datetime.datetime(2030, 1, 1, 0, 0, 0)
GROUP = 'execution_expiration_policy'
FINISHED = ('SUCCESS', 'ERROR', 'CANCELLED')     # the property text's list, deliberately not read from states.py
KINDS = {'w': 'KWf', 't': 'KTask', 'a': 'KAct'}


class LoopGuard(BaseException):
    """Raised by the watchdog when an evaluation fetches more often than it could ever need to."""


# ---- the real DB -------------------------------------------------------------

class Db:
    booted = False

    @classmethod
    def boot(cls):
        if cls.booted:
            return
        from oslo_config import cfg
        from mistral.db.v2 import api as db_api  # noqa: must be first (circular import otherwise)
        cfg.CONF.set_default('connection', 'sqlite://', group='database')
        cfg.CONF.set_default('max_overflow', -1, group='database')
        cfg.CONF.set_default('max_pool_size', 1000, group='database')
        db_api.setup_db()
        from mistral.db.v2.sqlalchemy import models
        from mistral.db.sqlalchemy import base as b
        from mistral import context as auth_context
        cls.db_api = db_api
        cls.cfg = cfg
        cls.engine = b.get_engine()
        cls.WF = models.WorkflowExecution.__table__
        cls.TK = models.TaskExecution.__table__
        cls.AC = models.ActionExecution.__table__
        cls.auth = auth_context
        cls.booted = True

    @classmethod
    def admin(cls):
        cls.auth.set_ctx(cls.auth.MistralContext(user_id=None, project_id=None, auth_token=None, is_admin=True))

    @classmethod
    def clean(cls):
        with cls.engine.begin() as c:
            for t in (cls.WF, cls.TK, cls.AC):
                c.execute(t.delete())

    @classmethod
    def load(cls, rows):
        """rows in creation order; a row = dict(id, kind, parent, state, age, proj)."""
        cls.clean()
        with cls.engine.begin() as c:
            for r in rows:
                upd = None if r['age'] is None else T0 - datetime.timedelta(seconds=r['age'])
                base = dict(id='r%d' % r['id'], name='n%d' % r['id'], state=r['state'], updated_at=upd,
                            created_at=T0 - datetime.timedelta(days=400), project_id='p%d' % r['proj'], scope='private')
                par = None if r['parent'] is None else 'r%d' % r['parent']
                if r['kind'] == 'w':
                    base['task_execution_id'] = par
                    base['workflow_name'] = 'wf'
                    top = root_of(rows, r)
                    base['root_execution_id'] = None if top == r['id'] else 'r%d' % top   # as the engine fills it
                    c.execute(cls.WF.insert().values(**base))
                elif r['kind'] == 't':
                    base['workflow_execution_id'] = par
                    c.execute(cls.TK.insert().values(**base))
                else:
                    base['task_execution_id'] = par
                    c.execute(cls.AC.insert().values(**base))

    @classmethod
    def snapshot(cls):
        """id -> (kind, parent, state, age, proj) of every row of the three tables."""
        import sqlalchemy as sa
        out = {}
        with cls.engine.connect() as c:
            for kind, t, pcol in (('w', cls.WF, 'task_execution_id'), ('t', cls.TK, 'workflow_execution_id'),
                                  ('a', cls.AC, 'task_execution_id')):
                for rid, par, st, upd, proj in c.execute(sa.select(t.c.id, t.c[pcol], t.c.state, t.c.updated_at, t.c.project_id)):
                    age = None if upd is None else int((T0 - upd).total_seconds())
                    out[int(rid[1:])] = (kind, None if par is None else int(par[1:]), st, age, int(proj[1:]))
        return out

    @classmethod
    def set_conf(cls, conf, interval=1):
        C = cls.cfg.CONF
        C.set_override('evaluation_interval', interval, group=GROUP)
        C.set_override('older_than', conf['ot'], group=GROUP)
        C.set_override('max_finished_executions', conf['mfe'], group=GROUP)
        C.set_override('batch_size', conf['bs'], group=GROUP)
        C.set_override('ignored_states', list(conf['ign']), group=GROUP)

    @classmethod
    def reset_conf(cls):
        for o in ('evaluation_interval', 'older_than', 'max_finished_executions', 'batch_size', 'ignored_states'):
            cls.cfg.CONF.clear_override(o, group=GROUP)


def root_of(rows, r):
    """Id of the topmost workflow execution above r (r itself when it has no parent workflow)."""
    by = {x['id']: x for x in rows}
    top = r['id']
    while r['parent'] is not None and r['parent'] in by:
        r = by[r['parent']]
        if r['kind'] == 'w':
            top = r['id']
    return top


def run_policy(case):
    """Load the population, run ONE real evaluation under the virtual clock.
    Returns (outcome, snapshot_after, fetches)."""
    from unittest import mock
    from oslo_utils import timeutils
    from mistral.services import expiration_policy as ep
    Db.load(case['rows'])
    Db.set_conf(case['conf'])
    Db.admin()
    budget = len(case['rows']) + 2
    calls = {'n': 0}
    real_e, real_s = Db.db_api.get_expired_executions, Db.db_api.get_superfluous_executions

    def guarded(real):
        def f(*a, **kw):
            calls['n'] += 1
            if calls['n'] > 2 * budget:       # each of the two loops needs at most population+1 fetches
                raise LoopGuard()
            return real(*a, **kw)
        return f
    real_d = Db.db_api.delete_workflow_execution
    victim = case.get('fail_delete_of')

    def failing_delete(id, *a, **kw):
        # another engine deleted this execution first: the real function's own error for a missing row
        if victim is not None and id == 'r%d' % victim:
            from mistral import exceptions as exc
            raise exc.DBEntityNotFoundError('WorkflowExecution not found [id=%s]' % id)
        return real_d(id, *a, **kw)
    timeutils.set_time_override(T0)
    try:
        with mock.patch.object(Db.db_api, 'get_expired_executions', guarded(real_e)), \
                mock.patch.object(Db.db_api, 'get_superfluous_executions', guarded(real_s)), \
                mock.patch.object(Db.db_api, 'delete_workflow_execution', failing_delete):
            try:
                ep.run_execution_expiration_policy(None, None)
                outcome = 'done'
            except LoopGuard:
                outcome = 'loop'
            except Exception as e:
                outcome = 'raise:%s' % type(e).__name__
    finally:
        timeutils.clear_time_override()
        try:   # a LoopGuard leaves the thread-local session of the open transaction behind
            from mistral.db.sqlalchemy import base as b
            ses = b._get_thread_local_session()
            if ses is not None:
                ses.rollback()
                ses.close()
                b._set_thread_local_session(None)
        except Exception:
            pass
        Db.admin()
    return outcome, Db.snapshot(), calls['n']


# ---- case -> Coq ---------------------------------------------------------------

def ceval(name, exprs, chunk=150, slice_=3000):
    """core.coq_eval in slices (its per-case index is a unary nat: keep it small) with one retry of a
    slice whose coqc was killed (the machine is shared; a model that really does not evaluate fails twice)."""
    out = []
    for k in range(0, len(exprs), slice_):
        part = exprs[k:k + slice_]
        try:
            res = core.coq_eval(name, IMPORTS, part, chunk=chunk)
        except core.CoqEvalError:
            res = core.coq_eval(name + 'r', IMPORTS, part, chunk=chunk)
        out += res
    return out



_STATE_CTOR = None


def state_ctor(s):
    """Python state string -> constructor of Gen/States.v (named after the Python constant); unknown -> Invalid."""
    global _STATE_CTOR
    if _STATE_CTOR is None:
        from mistral.workflow import states
        _STATE_CTOR = {}
        for n in dir(states):
            v = getattr(states, n)
            if n.isupper() and isinstance(v, str) and not n.startswith('_'):
                _STATE_CTOR.setdefault(v, n)
    return _STATE_CTOR.get(s, 'Invalid')


def coq_optZ(v):
    return 'None' if v is None else '(Some (%d)%%Z)' % v


def coq_row(r):
    return '(mkRow %d%%nat %s %s %s %s %d%%nat)' % (
        r['id'], KINDS[r['kind']], 'None' if r['parent'] is None else '(Some %d%%nat)' % r['parent'],
        state_ctor(r['state']), coq_optZ(None if r['age'] is None else NOW - r['age']), r['proj'])


def coq_pop(rows):
    return coq_list([coq_row(r) for r in rows])


def coq_conf(conf):
    return '(mkCfg %s %s %s %s)' % (coq_optZ(conf['ot']), coq_optZ(conf['mfe']), coq_optZ(conf['bs']),
                                    coq_list([state_ctor(s) for s in conf['ign']]))


def parse_ids(s):
    return [int(x) for x in core.re.findall(r'(\d+)%nat', s)]


def parse_show(s):
    m = core.re.match(r'\(\s*"(\w+)"\s*,\s*(.*)\)\s*$', s.strip(), flags=core.re.S)
    return m.group(1), parse_ids(m.group(2))


# ---- generators ------------------------------------------------------------------

ROOT_STATES = ['SUCCESS', 'SUCCESS', 'SUCCESS', 'ERROR', 'ERROR', 'CANCELLED', 'CANCELLED', 'RUNNING', 'RUNNING',
               'PAUSED', 'IDLE', 'DELAYED', 'WAITING', 'BOGUS']
SUB_STATES = ['SUCCESS', 'SUCCESS', 'ERROR', 'CANCELLED', 'RUNNING', 'PAUSED', 'IDLE']
IGNORED = [[], [], [], [], ['SUCCESS'], ['ERROR'], ['CANCELLED'], ['SUCCESS', 'CANCELLED'], ['ERROR', 'SUCCESS', 'CANCELLED'],
           ['RUNNING'], ['success'], ['BOGUS', 'ERROR'], ['PAUSED', 'SUCCESS']]


def gen_conf(rng, n_rows, n_roots):
    ot = rng.choice([None, 0, 1, 1, 2, 5, 5, 5, 60, 60, 60, 1440, -1, -30, 1000000, 1000000])
    mfe = rng.choice([None, 0, 0, 0, 1, 1, 2, 3, max(n_roots - 1, 0), n_roots, n_roots + 1, -1, 50])
    bs = rng.choice([None, 0, 0, 1, 1, 2, 3, max(n_rows - 1, 0), n_rows, n_rows + 1, max(n_roots - 1, 0), n_roots, -1, 100])
    return {'ot': ot, 'mfe': mfe, 'bs': bs, 'ign': rng.choice(IGNORED)}


def gen_age(rng, conf, tie_pool):
    """Ages (seconds before the virtual now) around the configured boundary, with ties and NULLs."""
    r = rng.random()
    if r < 0.04:
        return None
    if r < 0.40 and tie_pool:
        return rng.choice(tie_pool)
    lim = 60 * conf['ot'] if conf['ot'] is not None and abs(conf['ot']) < 100000 else 300
    a = rng.choice([lim, lim + 1, lim - 1, lim + rng.randrange(2, 5000), lim - rng.randrange(2, 5000),
                    rng.randrange(0, 100000), rng.randrange(-500, 500), 0, 30, 86400 * 3])
    tie_pool.append(a)
    return a


def gen_population(rng, conf):
    rows = []
    ties = []

    def new(kind, parent, state, proj):
        rows.append({'id': len(rows), 'kind': kind, 'parent': parent, 'state': state,
                     'age': gen_age(rng, conf, ties), 'proj': proj})
        return rows[-1]['id']

    def grow(wf, depth, proj):
        for _ in range(rng.choice([0, 0, 1, 1, 2])):
            t = new('t', wf, rng.choice(SUB_STATES), proj)
            for _ in range(rng.choice([0, 0, 1, 2])):
                new('a', t, rng.choice(SUB_STATES), proj)
            if depth < 3 and rng.random() < 0.35:
                # a sub-execution usually shares the project; sometimes an old finished one (must never go alone)
                sub = new('w', t, rng.choice(ROOT_STATES), proj if rng.random() < 0.8 else rng.randrange(1, 4))
                grow(sub, depth + 1, proj)
    shape = rng.random()
    n_roots = rng.choice([0, 1, 2, 3, 4, 5, 6, 8]) if shape < 0.8 else rng.choice([9, 12])
    for _ in range(n_roots):
        if len(rows) > 40:
            break
        proj = rng.randrange(1, 4)
        root = new('w', None, rng.choice(ROOT_STATES), proj)
        if rng.random() < 0.6 and shape < 0.8:
            grow(root, 1, proj)
        if rng.random() < 0.1:
            new('a', None, rng.choice(SUB_STATES), proj)      # ad-hoc action run
        if rng.random() < 0.05:
            new('t', None, rng.choice(SUB_STATES), proj)      # task row without a workflow
    return rows


def gen_case(rng):
    n_rows_guess = rng.choice([1, 3, 6, 10])
    conf = gen_conf(rng, n_rows_guess, rng.choice([1, 2, 3, 5]))
    rows = gen_population(rng, conf)
    if rng.random() < 0.6:
        # re-draw the count/batch options around the real population sizes
        n_roots = sum(1 for r in rows if eligible(r, conf))
        c2 = gen_conf(rng, len(rows), n_roots)
        conf['mfe'], conf['bs'] = c2['mfe'], c2['bs']
        if n_roots > 1 and rng.random() < 0.5:
            conf['mfe'] = rng.randrange(1, n_roots + 1)
    return {'rows': rows, 'conf': conf}


def W(i, st, age, parent=None, proj=1):
    return {'id': i, 'kind': 'w', 'parent': parent, 'state': st, 'age': age, 'proj': proj}


def T(i, parent, st='SUCCESS', age=5, proj=1):
    return {'id': i, 'kind': 't', 'parent': parent, 'state': st, 'age': age, 'proj': proj}


def A(i, parent, st='SUCCESS', age=5, proj=1):
    return {'id': i, 'kind': 'a', 'parent': parent, 'state': st, 'age': age, 'proj': proj}


def C(ot, mfe, bs, ign=()):
    return {'ot': ot, 'mfe': mfe, 'bs': bs, 'ign': list(ign)}


_UNIT = [W(0, 'SUCCESS', 59 * 60), W(1, 'ERROR', 3 * 86400), W(2, 'RUNNING', 3 * 86400), W(3, 'RUNNING', 4 * 86400),
         W(4, 'SUCCESS', 300), W(5, 'CANCELLED', 59 * 60), W(6, 'CANCELLED', 360), T(7, 4, 'RUNNING', None),
         W(8, 'SUCCESS', 10 * 86400, parent=7)]
_TREE = [W(0, 'SUCCESS', 6000), T(1, 0), A(2, 1), W(3, 'RUNNING', 7000, parent=1), T(4, 3), A(5, 4), A(6, None),
         W(7, 'RUNNING', 9000), T(8, 7), W(9, 'ERROR', 9000, parent=8, proj=2), W(10, 'ERROR', None), W(11, 'CANCELLED', 30),
         T(12, None)]
_TIES = [W(i, 'SUCCESS', 600, proj=1 + i % 3) for i in range(6)]
_DEEP = [W(0, 'ERROR', 99999), T(1, 0), W(2, 'SUCCESS', 99999, parent=1), T(3, 2), W(4, 'PAUSED', 5, parent=3), T(5, 4), A(6, 5),
         W(7, 'SUCCESS', 10, proj=3), T(8, 7, proj=3), W(9, 'SUCCESS', 99999, parent=8, proj=2)]

CORPUS = [
    {'rows': _UNIT, 'conf': C(30, 0, 0)},                      # the unit test's population and settings
    {'rows': _UNIT, 'conf': C(30, 0, 0, ['SUCCESS'])},
    {'rows': _UNIT, 'conf': C(30, 0, 3)},
    {'rows': _UNIT, 'conf': C(5, 0, 2)},
    {'rows': _UNIT, 'conf': C(30, 1, 0)},
    {'rows': _UNIT, 'conf': C(30, 100, 0)},
    {'rows': _UNIT, 'conf': C(None, 1, 0)},                    # F6: older_than unset, count limit set
    {'rows': _UNIT, 'conf': C(None, None, None)},
    {'rows': _UNIT, 'conf': C(1000000, 2, 1)},                 # only the count limit effective, batch 1
    {'rows': _TREE, 'conf': C(10, 0, 0)},                      # finished root with a RUNNING sub-execution
    {'rows': _TREE, 'conf': C(100000, 1, 0)},                  # NULL updated_at ranks last
    {'rows': _TREE, 'conf': C(100000, 2, 0, ['BOGUS', 'RUNNING'])},
    {'rows': _TIES, 'conf': C(10, 0, 2)},                      # age boundary: updated_at == now - older_than
    {'rows': _TIES, 'conf': C(10, 3, 1)},                      # ties straddle the cut
    {'rows': _TIES, 'conf': C(9, 3, 1)},
    {'rows': _TIES, 'conf': C(10, -1, 2)},
    {'rows': _TIES, 'conf': C(10, 3, -1)},
    {'rows': _TIES, 'conf': C(-1, 0, 4)},
    {'rows': _TIES, 'conf': C(0, 5, 7)},
    {'rows': _DEEP, 'conf': C(60, 0, 1)},                      # nesting 3, projects, old finished sub-executions
    {'rows': _DEEP, 'conf': C(1000000, 1, 1, ['ERROR'])},
    {'rows': [], 'conf': C(1, 1, 1)},
    {'rows': [A(0, None), T(1, None)], 'conf': C(0, 1, 0)},
]


# ---- the property, stated directly (no model) ---------------------------------------

def eligible(r, conf):
    return r['kind'] == 'w' and r['parent'] is None and r['state'] in FINISHED and r['state'] not in conf['ign']


def key_ge(a, b):
    """updated_at of a at least as recent as b's (smaller age); NULL sorts lowest (sqlite / mysql)."""
    if b['age'] is None:
        return True
    if a['age'] is None:
        return False
    return a['age'] <= b['age']


def judge(case, outcome, after, fetches, injected=False):
    """Returns a list of (signature, what)."""
    rows = {r['id']: r for r in case['rows']}
    conf = case['conf']
    bad = []
    if outcome == 'loop':
        bad.append(('nonterminating-loop', 'the evaluation fetched %d times on a population of %d rows and did not end'
                    % (fetches, len(rows))))
    elif outcome.startswith('raise:') and not injected and not (outcome == 'raise:TypeError' and conf['ot'] is None):
        bad.append(('evaluation-raises:%s' % outcome[6:], 'run_execution_expiration_policy raised %s' % outcome[6:]))
    for i, v in after.items():
        r = rows.get(i)
        if r is None:
            bad.append(('row-appeared', 'row %d exists after the evaluation but not before' % i))
        elif v != (r['kind'], r['parent'], r['state'], r['age'], r['proj']):
            bad.append(('row-changed', 'remaining row %d changed from %r to %r' % (i, r, v)))
    deleted = set(rows) - set(after)
    for r in rows.values():
        p = r['parent']
        if p is not None and p in rows and ((r['id'] in deleted) != (p in deleted)):
            if r['id'] in deleted:
                bad.append(('deleted-without-parent:%s' % r['kind'],
                            '%s row %d was deleted on its own, its parent row %d is kept' % (r['kind'], r['id'], p)))
            else:
                bad.append(('tree-incomplete:%s' % r['kind'],
                            '%s row %d is kept although its parent row %d was deleted' % (r['kind'], r['id'], p)))
    elig = [r for r in rows.values() if eligible(r, conf)]
    for i in sorted(deleted):
        r = rows[i]
        if r['parent'] is not None:
            continue
        why = None
        if r['kind'] != 'w':
            why = 'not-a-workflow-execution'
        elif r['state'] not in FINISHED:
            why = 'state-%s' % ('RUNNING-or-PAUSED' if r['state'] in ('RUNNING', 'PAUSED') else 'not-finished')
        elif r['state'] in conf['ign']:
            why = 'ignored-state'
        else:
            aged = conf['ot'] is not None and r['age'] is not None and r['age'] > 60 * conf['ot']
            m = conf['mfe']
            others = sum(1 for y in elig if y['id'] != i and key_ge(y, r))
            beyond = bool(m) and others >= m
            if not aged and not beyond:
                why = 'neither-old-nor-beyond-count'
        if why:
            bad.append(('deleted-root-not-eligible:%s' % why,
                        'root row %d %r was deleted under %r (%s)' % (i, r, conf, why)))
    # (an evaluation aborted by an injected failure has only done some of its batches: the order clause is about
    #  completed evaluations, the next evaluation removes the older ones)
    for x in ([] if injected else elig):
        if x['id'] in deleted and x['age'] is not None:
            for y in elig:
                if y['id'] not in deleted and y['age'] is not None and x['age'] < y['age']:
                    bad.append(('newer-deleted-older-kept',
                                'eligible root %d (age %ds) was deleted while the older eligible root %d (age %ds) is kept'
                                % (x['id'], x['age'], y['id'], y['age'])))
                    break
    return bad


def judge_case(case, outcome, after, fetches):
    """judge, with the failure-injection scenario folded in: the execution whose delete fails was removed by
    another engine after the fetch, so its tree is outside what this evaluation is answerable for."""
    v = case.get('fail_delete_of')
    if v is None:
        return judge(case, outcome, after, fetches)
    gone = closure(case['rows'], [v])
    rows = [r for r in case['rows'] if r['id'] not in gone]
    return judge({'rows': rows, 'conf': case['conf']}, outcome, {i: x for i, x in after.items() if i not in gone},
                 fetches, injected=True)


def oracle(ctx, case, outcome, after, fetches):
    bad = judge_case(case, outcome, after, fetches)
    for sig, what in bad[:3]:
        ctx.fail(sig, what, {'rows': case['rows'], 'conf': case['conf'], 'outcome': outcome,
                             'remaining': sorted(after), 'signature': sig, 'fail_delete_of': case.get('fail_delete_of')})
    return not bad


def tie_group(case):
    """Ids of the eligible roots whose ORDER BY key equals the key at the cut, when a tie straddles the cut."""
    conf = case['conf']
    m = conf['mfe']
    if not m or conf['ot'] is None:
        return set()
    m = max(m, 0)
    left = [r for r in case['rows'] if eligible(r, conf)
            and not (r['age'] is not None and r['age'] > 60 * conf['ot'])]
    order = sorted(left, key=lambda r: (r['age'] is None, r['age'] if r['age'] is not None else 0))
    if m == 0 or len(order) <= m or order[m - 1]['age'] != order[m]['age']:
        return set()
    return {r['id'] for r in order if r['age'] == order[m]['age']}


def closure(rows, roots):
    kids = {}
    for r in rows:
        kids.setdefault(r['parent'], []).append(r['id'])
    out, todo = set(), list(roots)
    while todo:
        i = todo.pop()
        if i not in out:
            out.add(i)
            todo += kids.get(i, [])
    return out


def tie_equivalent(case, model_left, impl_left):
    ids = {r['id'] for r in case['rows']}
    roots = {r['id'] for r in case['rows'] if r['parent'] is None}
    tg = tie_group(case)
    dm, di = (ids - set(model_left)) & roots, (ids - set(impl_left)) & roots
    return bool(tg) and dm - tg == di - tg and len(dm & tg) == len(di & tg) and \
        ids - closure(case['rows'], dm) == set(model_left) and ids - closure(case['rows'], di) == set(impl_left)


# ---- suites --------------------------------------------------------------------------

def conf_shape(conf):
    def k(v):
        return 'unset' if v is None else ('0' if v == 0 else ('neg' if v < 0 else 'pos'))
    return 'ot=%s mfe=%s bs=%s ign=%d' % (k(conf['ot']), k(conf['mfe']), k(conf['bs']), len(conf['ign']))


def suite_evaluate(ctx, cases, tag):
    exprs = ['show (evaluate (%d)%%Z %s %s)' % (NOW, coq_conf(c['conf']), coq_pop(c['rows'])) for c in cases]
    impl = [run_policy(c) for c in cases]
    res = ceval('c18' + tag, exprs)
    stats = ctx.cov['suites'].setdefault(tag, {'evaluations': 0, 'distinct_nontrivial': 0})
    shapes, outcomes, hist = stats.setdefault('config_shapes', {}), stats.setdefault('outcomes', {}), stats.setdefault('deleted_rows', {})
    for c, (outcome, after, fetches), r in zip(cases, impl, res):
        mtag, mleft = parse_show(r)
        n_del = len(c['rows']) - len(after)
        ctx.count(tag, json.dumps(c, sort_keys=True), nontrivial=(n_del > 0 or outcome != 'done'))
        ctx.cov['disagreements_checked'] += 1
        ctx.cov['traces_validated_against_impl'] += 1
        shapes[conf_shape(c['conf'])] = shapes.get(conf_shape(c['conf']), 0) + 1
        outcomes[outcome] = outcomes.get(outcome, 0) + 1
        hk = str(n_del) if n_del < 5 else ('5-9' if n_del < 10 else '10+')
        hist[hk] = hist.get(hk, 0) + 1
        stats['max_rows'] = max(stats.get('max_rows', 0), len(c['rows']))
        ok = oracle(ctx, c, outcome, after, fetches)
        if outcome == 'raise:TypeError' and c['conf']['ot'] is None:
            stats['F6_unset_age_raises'] = stats.get('F6_unset_age_raises', 0) + 1
            if c['conf']['mfe'] and c['conf']['mfe'] >= 1:
                stats['F6_count_limit_dead'] = stats.get('F6_count_limit_dead', 0) + 1
        itag = {'done': 'done', 'raise:TypeError': 'crash'}.get(outcome, outcome)
        if mtag != itag or sorted(mleft) != sorted(after):
            if mtag == itag == 'done' and tie_equivalent(c, mleft, list(after)):
                stats['ties_resolved_differently'] = stats.get('ties_resolved_differently', 0) + 1
                continue
            ctx.disagree(tag, {'rows': c['rows'], 'conf': c['conf']}, {'outcome': mtag, 'remaining': sorted(mleft)},
                         {'outcome': outcome, 'remaining': sorted(after), 'oracle_ok': ok})
        if tie_group(c):
            stats['tie_straddles_cut'] = stats.get('tie_straddles_cut', 0) + 1
    if cases:
        ctx.sample({'suite': tag, 'rows': cases[-1]['rows'], 'conf': cases[-1]['conf'], 'impl': impl[-1][0],
                    'remaining': sorted(impl[-1][1])})


def suite_queries(ctx, cases):
    """The two db-api queries, called directly, against expired_q / superfluous_q."""
    tag = 'queries'
    exprs, obs = [], []
    for c in cases:
        conf = c['conf']
        Db.load(c['rows'])
        Db.set_conf(conf)
        Db.admin()
        ot = conf['ot'] if conf['ot'] is not None else 7
        exp_time = T0 - datetime.timedelta(minutes=ot)
        e_all = [int(x.id[1:]) for x in Db.db_api.get_expired_executions(exp_time)]
        e_lim = [int(x.id[1:]) for x in Db.db_api.get_expired_executions(exp_time, conf['bs'])]
        s_lim = [int(x.id[1:]) for x in Db.db_api.get_superfluous_executions(conf['mfe'], conf['bs'])]
        s_all = [int(x.id[1:]) for x in Db.db_api.get_superfluous_executions(conf['mfe'])]
        obs.append((e_all, e_lim, s_all, s_lim))
        cc, pp, exp = coq_conf(conf), coq_pop(c['rows']), '(%d)%%Z' % (NOW - 60 * ot)
        exprs.append('(ids (expired_q %s %s None %s), ids (expired_q %s %s %s %s), ids (superfluous_q %s %s None %s), ids (superfluous_q %s %s %s %s))' % (
            cc, exp, pp, cc, exp, coq_optZ(conf['bs']), pp, cc, coq_optZ(conf['mfe']), pp, cc, coq_optZ(conf['mfe']), coq_optZ(conf['bs']), pp))
    res = ceval('c18queries', exprs)
    stats = ctx.cov['suites'].setdefault(tag, {'evaluations': 0, 'distinct_nontrivial': 0})
    for c, (e_all, e_lim, s_all, s_lim), r in zip(cases, obs, res):
        parts = core.re.findall(r'\[[^\]]*\]', r)
        m_e_all, m_e_lim, m_s_all, m_s_lim = [parse_ids(p) for p in parts]
        age = {x['id']: x['age'] for x in c['rows']}
        rows_by_id = {x['id']: x for x in c['rows']}
        ctx.count(tag, json.dumps(c, sort_keys=True), nontrivial=bool(e_all or s_all), evaluations=4)
        ctx.cov['disagreements_checked'] += 4

        def keys(l):
            return [age.get(i, 'missing') for i in l]
        diffs = []
        if sorted(e_all) != sorted(m_e_all):
            diffs.append(('expired', m_e_all, e_all))
        # LIMIT without ORDER BY: which rows is the DB's choice; the number and the membership are fixed
        if len(e_lim) != len(m_e_lim) or not set(e_lim) <= set(m_e_all) or len(set(e_lim)) != len(e_lim):
            diffs.append(('expired+limit', m_e_lim, e_lim))
        # ORDER BY updated_at DESC: the key sequence is fixed, ids up to ties
        for what, mo, im in (('superfluous', m_s_all, s_all), ('superfluous+limit', m_s_lim, s_lim)):
            if im != mo:
                if keys(im) != keys(mo) or len(set(im)) != len(im) or not all(i in rows_by_id and eligible(rows_by_id[i], c['conf']) for i in im):
                    diffs.append((what, mo, im))
                else:
                    stats['ties_resolved_differently'] = stats.get('ties_resolved_differently', 0) + 1
        for what, mo, im in diffs:
            ctx.disagree(tag, {'rows': c['rows'], 'conf': c['conf'], 'query': what}, mo, im)


def suite_cascade(ctx, cases):
    """delete_workflow_execution(id) as admin on an arbitrary workflow row."""
    tag = 'cascade'
    exprs, obs, used = [], [], []
    for c in cases:
        wfs = [r['id'] for r in c['rows'] if r['kind'] == 'w']
        if not wfs:
            continue
        k = ctx.rng.choice(wfs)
        Db.load(c['rows'])
        Db.admin()
        try:
            with Db.db_api.transaction():
                Db.db_api.delete_workflow_execution('r%d' % k)
            out = 'ok'
        except Exception as e:
            out = 'raise:%s' % type(e).__name__
        after = Db.snapshot()
        obs.append((k, out, after))
        used.append(c)
        exprs.append('ids (cascade_delete %s [%d%%nat])' % (coq_pop(c['rows']), k))
    res = ceval('c18cascade', exprs, chunk=200)
    for c, (k, out, after), r in zip(used, obs, res):
        left = parse_ids(r)
        ctx.count(tag, json.dumps([c['rows'], k], sort_keys=True), nontrivial=len(after) < len(c['rows']) - 1)
        ctx.cov['disagreements_checked'] += 1
        rows = {x['id']: x for x in c['rows']}
        want = set(rows) - closure(c['rows'], [k])
        if out != 'ok' or set(after) != want:
            ctx.fail('cascade-not-exact', 'delete_workflow_execution(r%d) -> %s leaves %s, the tree of r%d is %s'
                     % (k, out, sorted(after), k, sorted(closure(c['rows'], [k]))),
                     {'rows': c['rows'], 'delete': k, 'remaining': sorted(after), 'signature': 'cascade-not-exact'})
        if sorted(left) != sorted(after) or out != 'ok':
            ctx.disagree(tag, {'rows': c['rows'], 'delete': k}, sorted(left), {'outcome': out, 'remaining': sorted(after)})


def suite_delete_failure(ctx, cases):
    """Oracle only (outside the model, which assumes every delete succeeds): one delete keeps failing as
    if another engine had removed the row. The safety clauses must still hold and the evaluation must end."""
    tag = 'delete_failure'
    stats = ctx.cov['suites'].setdefault(tag, {'evaluations': 0, 'distinct_nontrivial': 0})
    outs = stats.setdefault('outcomes', {})
    for c in cases:
        outcome, after, fetches = run_policy(c)
        gone = sorted(set(r['id'] for r in c['rows'] if r['parent'] is None) - set(after))
        if not gone:
            continue
        c2 = {'rows': c['rows'], 'conf': c['conf'], 'fail_delete_of': ctx.rng.choice(gone)}
        outcome, after, fetches = run_policy(c2)
        ctx.count(tag, json.dumps(c2, sort_keys=True))
        outs[outcome] = outs.get(outcome, 0) + 1
        oracle(ctx, c2, outcome, after, fetches)


def suite_gating(ctx):
    """__init__ registers the periodic task iff `enabled`; _check_ignored_states_config raises iff not ignored_ok."""
    from mistral.services import expiration_policy as ep
    tag = 'gating'
    grid = [None, 0, 1, 2, -1, 17]
    cases, exprs, obs = [], [], []
    for interval in grid:
        for ot in grid:
            for mfe in grid:
                conf = C(ot, mfe, 0)
                Db.set_conf(conf, interval=interval)
                ep.ExecutionExpirationPolicy._periodic_tasks = []
                ep.ExecutionExpirationPolicy._periodic_spacing = {}
                try:
                    pol = ep.ExecutionExpirationPolicy(Db.cfg.CONF)
                    o = bool(pol._periodic_tasks)
                except Exception as e:
                    o = 'raise:%s' % type(e).__name__
                cases.append(('enabled', interval, ot, mfe))
                obs.append(o)
                exprs.append('enabled %s %s' % (coq_optZ(interval), coq_conf(conf)))
    ep.ExecutionExpirationPolicy._periodic_tasks = []
    ep.ExecutionExpirationPolicy._periodic_spacing = {}
    for ign in IGNORED + [['SUCCESS', 'SUCCESS'], ['IDLE'], ['DELAYED'], ['']]:
        conf = C(1, 0, 0, ign)
        Db.set_conf(conf)
        try:
            ep._check_ignored_states_config()
            o = True
        except ValueError:
            o = False
        except Exception as e:
            o = 'raise:%s' % type(e).__name__
        cases.append(('ignored_ok', tuple(ign)))
        obs.append(o)
        exprs.append('ignored_ok %s' % coq_conf(conf))
    res = ceval('c18gating', exprs, chunk=400)
    for cs, o, r in zip(cases, obs, res):
        ctx.count(tag, cs)
        ctx.cov['disagreements_checked'] += 1
        if r != core.coq_bool(o is True) or o not in (True, False):
            ctx.disagree(tag, cs, r, o)
    # the deployed configuration of observation F6 really is accepted by __init__
    ctx.cov['suites'][tag]['F6_config_registers_task'] = obs[cases.index(('enabled', 1, None, 1))]


ANCHORS = {
    'mistral/services/expiration_policy.py': ['_delete_executions', '_delete_until_depleted', '_delete',
                                              'run_execution_expiration_policy', '_check_ignored_states_config', '__init__'],
    'mistral/db/v2/sqlalchemy/api.py': ['get_expired_executions', 'get_superfluous_executions',
                                        '_get_completed_root_executions_query', 'delete_workflow_execution'],
}


def measured_coverage(ctx, fn):
    """Run fn() under `coverage` restricted to the anchored files; record per anchored function the
    executable lines never reached (so an unreached branch of the code is visible in the evidence)."""
    import ast
    import os
    try:
        import coverage
    except ImportError:
        fn()
        return
    files = [os.path.join(core.REPO, f) for f in ANCHORS]
    cov = coverage.Coverage(include=files, data_file=None, branch=False)
    cov.start()
    try:
        fn()
    finally:
        cov.stop()
    out = {}
    for rel, names in ANCHORS.items():
        path = os.path.join(core.REPO, rel)
        try:
            _, stmts, _, missing, _ = cov.analysis2(path)
        except Exception as e:       # never let the measurement decide the verdict
            out[rel] = 'not measured: %r' % (e,)
            continue
        tree = ast.parse(open(path).read())
        for node in ast.walk(tree):
            if isinstance(node, ast.FunctionDef) and node.name in names:
                if node.name == '__init__' and 'expiration_policy' not in rel:
                    continue
                body = [l for l in stmts if node.lineno < l <= node.end_lineno]
                miss = [l for l in missing if node.lineno < l <= node.end_lineno]
                out['%s:%s' % (os.path.basename(rel), node.name)] = {'statements': len(body), 'never_executed_lines': miss}
    ctx.cov['anchored_function_coverage'] = out


def run(ctx):
    Db.boot()
    try:
        ctx.cov['rule'] = ('seeded populations of workflow/task/action rows in a real sqlite DB (0-12 roots, nesting <= 3, states '
                           'incl. active and unknown ones, ages around the configured boundary with ties and NULLs, 3 projects, '
                           'parentless tasks/actions) x every shape of older_than / max_finished_executions / batch_size (unset, 0, '
                           'negative, around the population size) x ignored_states (incl. invalid names); distinct = distinct '
                           '(suite, population, config); evaluate non-trivial = something deleted or evaluation raised')
        rng = ctx.rng
        measured_coverage(ctx, lambda: (suite_evaluate(ctx, [dict(c) for c in CORPUS], 'evaluate_corpus'),
                                        suite_gating(ctx),
                                        suite_delete_failure(ctx, [dict(c) for c in CORPUS])))
        suite_evaluate(ctx, [gen_case(rng) for _ in range(ctx.n(2500, 20000))], 'evaluate')
        suite_queries(ctx, [dict(c) for c in CORPUS] + [gen_case(rng) for _ in range(ctx.n(500, 4000))])
        suite_cascade(ctx, [dict(c) for c in CORPUS] + [gen_case(rng) for _ in range(ctx.n(400, 3000))])
        suite_delete_failure(ctx, [gen_case(rng) for _ in range(ctx.n(150, 1000))])
        outs = ctx.cov['suites'].get('delete_failure', {}).get('outcomes', {})
        if outs.get('raise:TypeError'):
            ctx.notes.append('observation: when a delete fails (row already removed by another engine), the handler in _delete calls '
                             'traceback.format_exc(e), which itself raises TypeError on Python 3; the evaluation aborts with that TypeError '
                             '(batch transaction rolled back, trees complete, nothing ineligible deleted; earlier batches stay deleted, so older '
                             'eligible executions can remain until the next evaluation) instead of logging and going on; '
                             'seen %d times. Had the handler swallowed the error, the `while True` loop would refetch the same row forever.'
                             % outs['raise:TypeError'])
        ev = ctx.cov['suites'].get('evaluate', {})
        if ev.get('F6_unset_age_raises'):
            ctx.notes.append('observation F6: older_than unset -> every evaluation raises TypeError (timedelta(minutes=None)) before any '
                             'query; seen %d times, %d of them with max_finished_executions >= 1 (a configuration __init__ accepts: the '
                             'count limit is never applied). Population unchanged each time, so no clause of the property text is '
                             'violated; modelled as Crash (C18_unset_age_never_deletes, C18_unset_age_count_limit_dead).'
                             % (ev['F6_unset_age_raises'], ev.get('F6_count_limit_dead', 0)))
        ctx.notes.append('observation: a finished root is deleted together with sub-executions that are still RUNNING/PAUSED '
                         '("together with their own sub-executions"); never_active is stated for rows deleted as roots.')
        ctx.assumptions += ['sqlite executes the queries and ON DELETE CASCADE as on the production DB (sqlite_fk=True is set by mistral)',
                            'one evaluation at a time, every delete succeeds',
                            'ORDER BY tie-break is compared modulo the tie group at the cut']
    finally:
        Db.reset_conf()
        Db.clean()


def search(ctx):
    """Widened oracle-only search for a failing input (no model involved)."""
    Db.boot()
    try:
        cases = [dict(c) for c in CORPUS] + [gen_case(ctx.rng) for _ in range(6000)]
        for c in cases:
            outcome, after, fetches = run_policy(c)
            if not oracle(ctx, c, outcome, after, fetches) and len(ctx.failures) > 10:
                break
    finally:
        Db.reset_conf()
        Db.clean()


def replay(obj):
    r = obj.get('replay', {})
    if 'rows' not in r:
        print(json.dumps(obj, indent=1)[:3000])
        return 1
    Db.boot()
    try:
        if 'delete' in r:
            Db.load(r['rows'])
            Db.admin()
            with Db.db_api.transaction():
                Db.db_api.delete_workflow_execution('r%d' % r['delete'])
            after = Db.snapshot()
            want = {x['id'] for x in r['rows']} - closure(r['rows'], [r['delete']])
            print('delete_workflow_execution(r%d): remaining %s, required %s' % (r['delete'], sorted(after), sorted(want)))
            return 1 if set(after) != want else 0
        case = {'rows': r['rows'], 'conf': r['conf'], 'fail_delete_of': r.get('fail_delete_of')}
        outcome, after, fetches = run_policy(case)
        bad = judge_case(case, outcome, after, fetches)
        print('config %r\npopulation %s\noutcome %s, remaining rows %s' % (r['conf'], json.dumps(r['rows']), outcome, sorted(after)))
        for sig, what in bad:
            print('  violates: [%s] %s' % (sig, what))
        if not bad:
            print('  no clause of the property is violated on this input')
        return 1 if bad else 0
    finally:
        Db.reset_conf()
        Db.clean()
